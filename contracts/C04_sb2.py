"""C04 — Secure Binary 2.x: command / header level of "the ROM decodes exactly what was given" (spsdk/sbfile/sb2).

Spec: the ROM's view of a 16-byte command header is `struct '<2BH3L'` = (checksum, tag, flags, address, count, data) with
checksum = (0x5A + sum of bytes 1..15) mod 256; the image header is the 0x60-byte layout of the format.  The spec side decodes
with struct only (written from the format, not from SPSDK's encoder).
"""
from struct import pack, unpack_from

from vf.api import *  # noqa
from spsdk.exceptions import SPSDKError
from spsdk.sbfile.misc import BcdVersion3
from spsdk.sbfile.sb2.commands import CmdHeader, CmdJump, CmdLoad, CmdCall, CmdErase, CmdNop, CmdFill, EnumCmdTag
from spsdk.sbfile.sb2.headers import ImageHeaderV2
from specs.crypto import CRC

inline("spsdk.sbfile.sb2.commands:CmdHeader._raw_data", "spsdk.sbfile.sb2.commands:CmdHeader.__init__", "spsdk.sbfile.sb2.commands:CmdBaseClass.__init__",
       "spsdk.sbfile.sb2.commands:CmdBaseClass.export", "spsdk.sbfile.sb2.commands:CmdBaseClass.header",
       "spsdk.sbfile.sb2.commands:CmdJump.__init__", "spsdk.sbfile.sb2.commands:CmdJump.address", "spsdk.sbfile.sb2.commands:CmdJump.argument",
       "spsdk.sbfile.sb2.commands:CmdJump.spreg", "spsdk.sbfile.sb2.commands:CmdCall.__init__", "spsdk.sbfile.sb2.commands:CmdCall.address",
       "spsdk.sbfile.sb2.commands:CmdCall.argument", "spsdk.sbfile.misc:BcdVersion3.nums")

TAGS = OneOf(*[t.tag for t in EnumCmdTag])


def HDR(**over):
    f = dict(tag=TAGS, flags=U16, address=U32, count=U32, data=U32, zero_filling=bool)
    f.update(over)
    return Obj(CmdHeader, **f)


def rom_checksum(raw):
    """Checksum the ROM computes over bytes 1..15 of a command header."""
    s = 0x5A
    for i in range(1, 16):
        s = s + raw[i]
    return s % 256


def rom_header_fields(raw):
    """(checksum, tag, flags, address, count, data) as the ROM reads them."""
    return unpack_from("<2BH3L", raw)


def _mk_hdr(rnd, tag=None):
    h = CmdHeader(tag if tag is not None else rnd.choice([t.tag for t in EnumCmdTag]))
    h.flags, h.address, h.count, h.data = rnd.getrandbits(16), rnd.getrandbits(32), rnd.getrandbits(32), rnd.getrandbits(32)
    return h


@contract("spsdk.sbfile.sb2.commands:CmdHeader.crc")
def _(self: HDR(tag=U8)) -> int:
    returns(rom_checksum(pack("<2BH3L", 0, self.tag, self.flags, self.address, self.count, self.data)), label="rom-checksum")
    pure()
    sample_with(lambda rnd: {"self": _mk_hdr(rnd)})


@contract("spsdk.sbfile.sb2.commands:CmdHeader.export")
def _(self: HDR()) -> bytes:
    ensures(len(result) == 16, label="size")
    ensures(rom_header_fields(result)[1:] == (self.tag, self.flags, self.address, self.count, self.data), label="rom-reads-the-fields-given")
    ensures(result[0] == rom_checksum(result), label="rom-checksum-holds")
    pure()
    sample_with(lambda rnd: {"self": _mk_hdr(rnd)})


@contract("spsdk.sbfile.sb2.commands:CmdHeader.parse")
def _(cls: Const(CmdHeader), data: Bytes(lo=0, hi=1 << 24)) -> Obj(CmdHeader, tag=U8, flags=U16, address=U32, count=U32, data=U32):
    raises(SPSDKError, len(data) < 16 or data[0] != rom_checksum(data), label="short-or-bad-checksum")
    ensures((result.tag, result.flags, result.address, result.count, result.data) == rom_header_fields(data)[1:], label="fields-as-the-rom-reads-them")
    pure()
    sample_with(lambda rnd: {"cls": CmdHeader, "data": _mk_hdr(rnd).export() if rnd.random() < 0.7 else bytes(rnd.getrandbits(8) for _ in range(rnd.choice([3, 16, 20])))})


# ---- JUMP -------------------------------------------------------------------------------------------------------------------------
@contract("spsdk.sbfile.sb2.commands:CmdJump.export")
def _(self: Obj(CmdJump, _header=HDR(tag=Const(EnumCmdTag.JUMP.tag)))) -> bytes:
    ensures(rom_header_fields(result)[1:] == (4, self._header.flags, self._header.address, self._header.count, self._header.data), label="header-fields")
    pure()
    sample_with(lambda rnd: {"self": CmdJump(rnd.getrandbits(32), rnd.getrandbits(32), rnd.choice([None, 0, 1, 0x20002000, 0xFFFFFFFF]))})


@lemma("jump-as-given-reaches-the-rom-with-or-without-stack-pointer")
def _(address: U32, argument: U32, spreg: Optional[U32]):
    # constructor + export (real bodies, inlined) against the ROM's reading: flags == 2 <=> a stack pointer was given (also SP == 0)
    let(raw=CmdJump(address, argument, spreg).export(), f=rom_header_fields(CmdJump(address, argument, spreg).export()))
    ensures(f[1] == 4 and f[3] == address and f[5] == argument, label="tag-address-argument")
    ensures(f[2] == (2 if spreg is not None else 0) and f[4] == (spreg if spreg is not None else 0), label="stack-pointer-flag-and-value")


@contract("spsdk.sbfile.sb2.commands:CmdJump.parse")
def _(cls: Const(CmdJump), data: Bytes(16)) -> Opaque():
    let(f=rom_header_fields(data))
    raises(SPSDKError, data[0] != rom_checksum(data) or f[1] != 4, label="bad-checksum-or-tag")
    ensures(result._header.address == f[3] and result._header.data == f[5], label="address-argument")
    ensures(implies(f[2] == 2, result._header.flags == 2 and result._header.count == f[4]), label="stack-pointer-kept")
    ensures(implies(f[2] == 0, result._header.flags == 0 and result._header.count == 0), label="no-stack-pointer")
    pure()
    sample_with(lambda rnd: {"cls": CmdJump, "data": CmdJump(rnd.getrandbits(32), rnd.getrandbits(32), rnd.choice([None, 0, 5, 0xFFFFFFFF])).export()})


# ---- image header -------------------------------------------------------------------------------------------------------------------
BCD = Obj(BcdVersion3, major=Range(0, 0x9999), minor=Range(0, 0x9999), service=Range(0, 0x9999))
IMG_HDR = Obj(ImageHeaderV2, nonce=Bytes(16), version=OneOf("2.0", "2.1"), flags=U16, image_blocks=U32, first_boot_tag_block=U32,
              first_boot_section_id=U32, offset_to_certificate_block=U32, header_blocks=U16, key_blob_block=U16, key_blob_block_count=U16,
              max_section_mac_count=U16, timestamp=Const(__import__("datetime").datetime(2020, 1, 1)), product_version=BCD,
              component_version=BCD, build_number=U32, padding=Bytes(8))


def swapped(v):
    return (v % 256) * 256 + v // 256


def _mk_img_hdr(rnd):
    bcd = lambda: "%X.%X.%X" % tuple(int(str(rnd.randrange(0, 10000)), 16) for _ in range(3))   # noqa: E731
    h = ImageHeaderV2(version=rnd.choice(["2.0", "2.1"]), product_version=bcd(), component_version=bcd(), build_number=rnd.getrandbits(32),
                      flags=rnd.getrandbits(16), nonce=bytes(rnd.getrandbits(8) for _ in range(16)), timestamp=__import__("datetime").datetime(2020, 1, 1),
                      padding=bytes(8))
    h.image_blocks, h.first_boot_tag_block, h.first_boot_section_id = rnd.getrandbits(32), rnd.getrandbits(32), rnd.getrandbits(32)
    h.offset_to_certificate_block, h.header_blocks, h.max_section_mac_count = rnd.getrandbits(32), rnd.getrandbits(16), rnd.getrandbits(16)
    return h


@assumed("spsdk.sbfile.misc:pack_timestamp", reason="datetime / float arithmetic is outside the subset (bounded check only)")
def _(value: Opaque()) -> U64:
    pure()


@contract("spsdk.sbfile.sb2.headers:ImageHeaderV2.export")
def _(self: IMG_HDR, padding: Const(None)) -> bytes:
    let(f=None)
    ensures(len(result) == 96, label="size")
    ensures(result[0:16] == self.nonce and result[20:24] == b"STMP" and result[52:56] == b"sgtl", label="nonce-and-signatures")
    ensures(result[24] == 2 and result[25] == (0 if self.version == "2.0" else 1), label="header-version")
    ensures(unpack_from("<H4I4H", result, 26) == (self.flags, self.image_blocks, self.first_boot_tag_block, self.first_boot_section_id,
                                                   self.offset_to_certificate_block, self.header_blocks, self.key_blob_block,
                                                   self.key_blob_block_count, self.max_section_mac_count), label="flags-and-block-counts")
    ensures(unpack_from("<6H", result, 64) == (swapped(self.product_version.major), 0, swapped(self.product_version.minor), 0,
                                               swapped(self.product_version.service), 0), label="product-version")
    ensures(unpack_from("<6H", result, 76) == (swapped(self.component_version.major), 0, swapped(self.component_version.minor), 0,
                                               swapped(self.component_version.service), 0), label="component-version")
    ensures(unpack_from("<I", result, 88)[0] == self.build_number, label="build-number")
    pure()
    sample_with(lambda rnd: {"self": _mk_img_hdr(rnd), "padding": None})


# ---- LOAD ---------------------------------------------------------------------------------------------------------------------------
from spsdk.crypto.crc import CrcAlg, from_crc_algorithm  # noqa: E402

concrete_ok("spsdk.crypto.crc:from_crc_algorithm", "spsdk.crypto.crc:Crc")
inline("spsdk.sbfile.sb2.commands:CmdLoad._update_data")


def crc_mpeg2(data):
    return CRC(0x104C11DB7, 0xFFFFFFFF, False, 0, data)


def padded16(d):
    return d + bytes((16 - len(d) % 16) % 16)


@contract("spsdk.sbfile.sb2.commands:CmdLoad.export")
def _(self: Obj(CmdLoad, _header=HDR(tag=Const(EnumCmdTag.LOAD.tag), zero_filling=Const(False)), data=Bytes(lo=0, hi=4096), zero_filling=Const(True))) -> bytes:
    # zero padding variant (the random-fill variant differs only in the padding bytes, which are not specified)
    ensures(len(result) == 16 + len(padded16(old(self.data))), label="length")
    ensures(result[16:] == padded16(old(self.data)), label="data-zero-padded-to-16")
    ensures(rom_header_fields(result)[1:4] == (2, old(self._header.flags), old(self._header.address)), label="tag-flags-address")
    ensures(rom_header_fields(result)[4] == len(padded16(old(self.data))), label="count-is-padded-length")
    ensures(rom_header_fields(result)[5] == crc_mpeg2(padded16(old(self.data))), label="crc-over-the-padded-data")
    ensures(result[0] == rom_checksum(result), label="rom-checksum-holds")
    modifies(self.data, self._header.count, self._header.data)
    sample_with(lambda rnd: {"self": CmdLoad(rnd.getrandbits(32), bytes(rnd.getrandbits(8) for _ in range(rnd.choice([0, 1, 15, 16, 17, 100]))), zero_filling=True)})


# ----------------------------------------------------------------------------------------------------------------------
# Boot section: what the ROM decrypts and authenticates, block by block
# ----------------------------------------------------------------------------------------------------------------------
# ROM model of one section that starts at AES-CTR counter c0: the 16-byte block at file position k (counted from the section start) is
# decrypted with counter c0 + k; block 0 is the section header whose `data` word says how many HMAC entries follow the header's own HMAC and
# whose `count` word says how many 16-byte command blocks there are; HMAC entry 0 authenticates the encrypted header, entry i (1..H) the
# i-th slice of the encrypted command blocks ((count // H) blocks each, the last one the rest).  Commands are abstract here (their own
# encodings are under contract above): a command is the bytes it exports.
from spsdk.crypto.symmetric import Counter  # noqa: E402
from spsdk.sbfile.sb2.sections import BootSectionV2  # noqa: E402
from spsdk.utils.misc import Endianness  # noqa: E402
from specs.crypto import AES_CTR, HMAC  # noqa: E402
from specs.sb2 import AbsSb2Cmd  # noqa: E402

inline("spsdk.sbfile.sb2.sections:BootSectionV2.hmac_count", "specs.sb2:AbsSb2Cmd.export", "specs.sb2:AbsSb2Cmd.raw_size")


ABS_CMD = Union[Obj(AbsSb2Cmd, _bytes=Bytes(16)), Obj(AbsSb2Cmd, _bytes=Bytes(32))]


def SECTION(k, hmac_count):
    return Obj(BootSectionV2, _header=HDR(tag=Const(EnumCmdTag.TAG.tag)), _commands=ListOf(ABS_CMD, k), _hmac_count=Const(hmac_count))


def cmd_stream(section):
    out = b""
    for c in section._commands:
        out = out + c.export()
    return out


def rom_sees_header(hdr, flags, address, count, data):
    return hdr[0] == rom_checksum(hdr) and rom_header_fields(hdr)[1:] == (EnumCmdTag.TAG.tag, flags, address, count, data)


def _mk_section(rnd):
    cmds = [rnd.choice([CmdNop(), CmdErase(rnd.getrandbits(20), 0x100), CmdLoad(0x1000, bytes(rnd.getrandbits(8) for _ in range(rnd.choice([4, 16]))))])
            for _ in range(rnd.randrange(1, 3))]
    return BootSectionV2(rnd.getrandbits(16), *cmds, hmac_count=rnd.choice([1, 2, 4]))


@contract("spsdk.sbfile.sb2.sections:BootSectionV2.export", replay=False, split=3)
def _(self: Union[SECTION(1, 1), SECTION(2, 1), SECTION(1, 2), SECTION(2, 2), SECTION(2, 4)], dek: Bytes(16), mac: Bytes(32),
      counter: Obj(Counter, _nonce=Bytes(12), _ctr=Nat, _ctr_byteorder_encoding=Const(Endianness.LITTLE))) -> bytes:
    let(stream=cmd_stream(self), c0=counter._ctr, nonce=counter._nonce, order=counter._ctr_byteorder_encoding)
    let(B=len(stream) // 16, H=self._hmac_count if len(stream) // 16 >= self._hmac_count else len(stream) // 16)
    let(off=16 + 32 * (H + 1))
    ensures(len(result) == off + 16 * B, label="header-hmac-table-command-blocks")
    # block 0: the header, readable by the ROM with the counter of position 0; it announces H and B
    ensures(rom_sees_header(AES_CTR(dek, nonce + (c0 % 4294967296).to_bytes(4, order.value), result[0:16]), old(self._header.flags), old(self._header.address), B, H),
            label="decrypted-header-announces-hmac-count-and-block-count")
    ensures(result[16:48] == HMAC("sha256", mac, result[0:16]), label="hmac-0-authenticates-the-encrypted-header")
    # every command block is encrypted with the counter of its own position in the file
    ensures(all(result[off + 16 * j: off + 16 * j + 16] ==
                AES_CTR(dek, nonce + ((c0 + 1 + 2 * (H + 1) + j) % 4294967296).to_bytes(4, order.value), stream[16 * j: 16 * j + 16]) for j in range(B)),
            label="command-block-j-uses-the-counter-of-its-file-position")
    # the HMAC entries cover the encrypted command blocks completely, in H slices
    let(bs=(B // H) * 16)
    ensures(all(result[48 + 32 * i: 80 + 32 * i] == HMAC("sha256", mac, result[off + bs * i: (off + bs * (i + 1)) if i < H - 1 else len(result)]) for i in range(H)),
            label="hmac-entries-cover-all-command-blocks")
    ensures(counter._ctr == c0 + 1 + 2 * (H + 1) + B, label="counter-continues-at-the-next-file-position")
    modifies(counter._ctr, self._header.data, self._header.count)
    sample_with(lambda rnd: {"self": _mk_section(rnd), "dek": bytes(rnd.getrandbits(8) for _ in range(16)), "mac": bytes(rnd.getrandbits(8) for _ in range(32)),
                             "counter": Counter(bytes(rnd.getrandbits(8) for _ in range(16)), ctr_value=rnd.choice([0, 5, 0xFFFFFFFE]))})


# ---- ERASE / MEM_ENABLE: the memory the command names survives export and parse ------------------------------------------------------------
from spsdk.sbfile.sb2.commands import CmdMemEnable  # noqa: E402

inline("spsdk.sbfile.sb2.commands:CmdErase.__init__", "spsdk.sbfile.sb2.commands:CmdErase.address", "spsdk.sbfile.sb2.commands:CmdErase.length",
       "spsdk.sbfile.sb2.commands:CmdErase.flags", "spsdk.sbfile.sb2.commands:CmdErase.parse", "spsdk.sbfile.sb2.commands:CmdMemEnable.__init__",
       "spsdk.sbfile.sb2.commands:CmdMemEnable.address", "spsdk.sbfile.sb2.commands:CmdMemEnable.size", "spsdk.sbfile.sb2.commands:CmdMemEnable.flags",
       "spsdk.sbfile.sb2.commands:CmdMemEnable.parse", "spsdk.sbfile.sb2.commands:get_device_id", "spsdk.sbfile.sb2.commands:get_group_id",
       "spsdk.sbfile.sb2.commands:get_memory_id")


@lemma("erase-command-reaches-the-rom-and-parses-back")
def _(address: U32, length: U32, mem_id: OneOf(0, 1, 9, 0x110, 0x120, 0x900)):
    let(raw=CmdErase(address, length, 0, mem_id).export())
    ensures(rom_header_fields(raw)[1:5] == (EnumCmdTag.ERASE.tag, (mem_id % 256) * 256 + (mem_id // 256 % 16) * 16, address, length) and raw[0] == rom_checksum(raw),
            label="rom-sees-range-and-memory")
    let(back=CmdErase.parse(raw))
    ensures(back.address == address and back.length == length and back.mem_id == mem_id, label="parse-inverts-export")


@lemma("memory-enable-command-reaches-the-rom-and-parses-back")
def _(address: U32, size: U32, mem_id: OneOf(0, 1, 9, 0x110, 0x120, 0x900)):
    let(raw=CmdMemEnable(address, size, mem_id).export())
    ensures(rom_header_fields(raw)[1:5] == (EnumCmdTag.MEM_ENABLE.tag, (mem_id % 256) * 256 + (mem_id // 256 % 16) * 16, address, size) and raw[0] == rom_checksum(raw),
            label="rom-sees-configuration-block-and-memory")
    let(back=CmdMemEnable.parse(raw))
    ensures(back.address == address and back.size == size and back.mem_id == mem_id, label="parse-inverts-export")


# ---- CALL / PROG / FW_VERSION_CHECK / key-store backup+restore / NOP / RESET: what was given reaches the ROM and parses back --------------------
from spsdk.mboot.memories import ExtMemId  # noqa: E402
from spsdk.sbfile.sb2.commands import (CmdKeyStoreBackup, CmdKeyStoreRestore, CmdProg, CmdReset, CmdVersionCheck,  # noqa: E402
                                       VersionCheckType)

inline("spsdk.sbfile.sb2.commands:CmdCall.parse", "spsdk.sbfile.sb2.commands:CmdProg.__init__", "spsdk.sbfile.sb2.commands:CmdProg.address",
       "spsdk.sbfile.sb2.commands:CmdProg.flags", "spsdk.sbfile.sb2.commands:CmdProg.data_word1", "spsdk.sbfile.sb2.commands:CmdProg.data_word2",
       "spsdk.sbfile.sb2.commands:CmdProg.parse", "spsdk.sbfile.sb2.commands:CmdVersionCheck.__init__", "spsdk.sbfile.sb2.commands:CmdVersionCheck.type",
       "spsdk.sbfile.sb2.commands:CmdVersionCheck.version", "spsdk.sbfile.sb2.commands:CmdVersionCheck.parse",
       "spsdk.sbfile.sb2.commands:CmdKeyStoreBackupRestore.__init__", "spsdk.sbfile.sb2.commands:CmdKeyStoreBackupRestore.address",
       "spsdk.sbfile.sb2.commands:CmdKeyStoreBackupRestore.controller_id", "spsdk.sbfile.sb2.commands:CmdKeyStoreBackupRestore.parse",
       "spsdk.sbfile.sb2.commands:CmdKeyStoreBackup.cmd_id", "spsdk.sbfile.sb2.commands:CmdKeyStoreRestore.cmd_id",
       "spsdk.sbfile.sb2.commands:CmdNop.__init__", "spsdk.sbfile.sb2.commands:CmdNop.parse", "spsdk.sbfile.sb2.commands:CmdReset.__init__",
       "spsdk.sbfile.sb2.commands:CmdReset.parse", "spsdk.utils.spsdk_enum:SpsdkEnum.from_tag")


@lemma("call-command-reaches-the-rom-and-parses-back")
def _(address: U32, argument: U32):
    let(raw=CmdCall(address, argument).export())
    ensures(rom_header_fields(raw)[1:] == (EnumCmdTag.CALL.tag, 0, address, 0, argument) and raw[0] == rom_checksum(raw) and len(raw) == 16,
            label="rom-sees-address-and-argument")
    let(back=CmdCall.parse(raw))
    ensures(back.address == address and back.argument == argument, label="parse-inverts-export")


@lemma("program-command-reaches-the-rom-and-parses-back")
def _(address: U32, mem_id: U8, word1: U32, word2: U32):
    # flags: bit 0 = an eight-byte programming (second word given), bits 15..8 = the memory
    let(raw=CmdProg(address, mem_id, word1, word2).export())
    ensures(rom_header_fields(raw)[1:] == (EnumCmdTag.PROG.tag, mem_id * 256 + (1 if word2 != 0 else 0), address, word1, word2)
            and raw[0] == rom_checksum(raw) and len(raw) == 16, label="rom-sees-index-memory-and-both-words")
    let(back=CmdProg.parse(raw))
    ensures(back.address == address and back.mem_id == mem_id and back.data_word1 == word1 and back.data_word2 == word2
            and back.is_eight_byte == (1 if word2 != 0 else 0), label="parse-inverts-export")
    ensures(back.export() == raw, label="re-export-reproduces-every-byte")


@lemma("version-check-command-reaches-the-rom-and-parses-back")
def _(ver_type: OneOf(VersionCheckType.SECURE_VERSION, VersionCheckType.NON_SECURE_VERSION), version: U32):
    let(raw=CmdVersionCheck(ver_type, version).export())
    ensures(rom_header_fields(raw)[1:] == (EnumCmdTag.FW_VERSION_CHECK.tag, 0, ver_type.tag, version, 0) and raw[0] == rom_checksum(raw) and len(raw) == 16,
            label="rom-sees-which-counter-and-the-minimal-version")
    let(back=CmdVersionCheck.parse(raw))
    ensures(back.type == ver_type and back.version == version, label="parse-inverts-export")


@lemma("key-store-backup-and-restore-commands-reach-the-rom-and-parse-back")
def _(address: U32, mem: OneOf(*[m for m in ExtMemId if 0 <= m.tag <= 0xFF])):
    let(b=CmdKeyStoreBackup(address, mem).export(), r=CmdKeyStoreRestore(address, mem).export())
    ensures(rom_header_fields(b)[1:] == (EnumCmdTag.WR_KEYSTORE_FROM_NV.tag, mem.tag * 256, address, 4, 0) and b[0] == rom_checksum(b), label="backup-names-address-and-memory")
    ensures(rom_header_fields(r)[1:] == (EnumCmdTag.WR_KEYSTORE_TO_NV.tag, mem.tag * 256, address, 4, 0) and r[0] == rom_checksum(r), label="restore-names-address-and-memory")
    let(bb=CmdKeyStoreBackup.parse(b), rr=CmdKeyStoreRestore.parse(r))
    ensures(bb.address == address and bb.controller_id == mem.tag and rr.address == address and rr.controller_id == mem.tag, label="parse-inverts-export")


@lemma("nop-and-reset-are-bare-headers-with-their-own-tags")
def _():
    let(n=CmdNop().export(), r=CmdReset().export())
    ensures(rom_header_fields(n)[1:] == (EnumCmdTag.NOP.tag, 0, 0, 0, 0) and n[0] == rom_checksum(n) and len(n) == 16, label="nop")
    ensures(rom_header_fields(r)[1:] == (EnumCmdTag.RESET.tag, 0, 0, 0, 0) and r[0] == rom_checksum(r) and len(r) == 16, label="reset")
    ensures(CmdNop.parse(n).export() == n and CmdReset.parse(r).export() == r, label="parse-inverts-export")


# ---- FILL: the pattern word the ROM replicates over the range ---------------------------------------------------------------------------------
inline("spsdk.sbfile.sb2.commands:CmdFill.__init__", "spsdk.sbfile.sb2.commands:CmdFill.address", "spsdk.sbfile.sb2.commands:CmdFill.export",
       "spsdk.sbfile.sb2.commands:CmdFill.parse", "spsdk.sbfile.sb2.commands:CmdFill.pattern")


def fill_word(p):
    """A one-byte pattern is repeated four times, a two-byte pattern twice, a three- or four-byte pattern is the word itself."""
    return p * 0x01010101 if p < 0x100 else (p * 0x10001 if p < 0x10000 else p)


@lemma("fill-command-reaches-the-rom-with-the-replicated-pattern-word-and-parses-back")
def _(address: U32, pattern: U32, length: Range(1, 1 << 30)):
    requires(length % 4 == 0)
    let(raw=CmdFill(address, pattern, length, zero_filling=True).export())
    ensures(rom_header_fields(raw)[1:] == (EnumCmdTag.FILL.tag, 0, address, length, fill_word(pattern)) and raw[0] == rom_checksum(raw) and len(raw) == 16,
            label="rom-sees-range-and-pattern-word")
    let(back=CmdFill.parse(raw))
    ensures(back.address == address and back.pattern == fill_word(pattern).to_bytes(4, "big") and back.header.count == length, label="parse-inverts-export")


# ---- LOAD, the way back: what parse hands out is what the ROM would load ------------------------------------------------------------------------
@assumed("spsdk.sbfile.misc:SecBootBlckSize.align_block_fill_random", reason="filler bytes come from the OS generator (A-rng): only length and prefix are stated")
def _(data: bytes) -> bytes:
    ensures(len(result) == (len(data) + 15) // 16 * 16 and result[: len(data)] == data)


inline("spsdk.sbfile.sb2.commands:CmdLoad.__init__", "spsdk.sbfile.sb2.commands:CmdLoad.address", "spsdk.sbfile.sb2.commands:CmdLoad.flags")


@contract("spsdk.sbfile.sb2.commands:CmdLoad.parse")
def _(cls: Const(CmdLoad), data: Bytes(lo=16, hi=1 << 20)) -> Opaque():
    let(f=rom_header_fields(data), n=(rom_header_fields(data)[4] + 15) // 16 * 16)
    let(payload=data[16: 16 + n])
    raises(SPSDKError, data[0] != rom_checksum(data) or f[1] != EnumCmdTag.LOAD.tag or f[5] != crc_mpeg2(payload), label="bad-checksum-tag-or-data-crc")
    ensures(implies(len(payload) % 16 == 0, result.data == payload), label="data-are-the-bytes-behind-the-header")
    ensures(result._header.address == f[3] and result._header.flags == f[2], label="address-and-memory-flags-kept")
    ensures(implies(len(payload) % 16 == 0, result._header.count == len(payload) and result._header.data == f[5]), label="count-and-crc-describe-the-data")
    sample_with(lambda rnd: {"cls": CmdLoad, "data": (lambda raw: raw if rnd.random() < 0.7 else raw[:-1] + bytes([raw[-1] ^ 1]))(
        CmdLoad(rnd.getrandbits(32), bytes(rnd.getrandbits(8) for _ in range(rnd.choice([0, 1, 15, 16, 17, 100]))), rnd.choice([0, 1, 9, 0x110]), zero_filling=True).export())})
