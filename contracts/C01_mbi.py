"""C01 — Master Boot Image: the header words the ROM reads describe the image; getters invert the flag word; update/clean IVT.

Compositions: the mixin attributes an MBI class may or may not have (trust_zone, image_subtype, user_hw_key_enabled, key_store,
app_table, image_version(+to_image_type), load_address) are instantiated as presence patterns; image types 0..8 are symbolic in [0, 63].
"""
from struct import unpack_from

from vf.api import *  # noqa
from spsdk.exceptions import SPSDKError, SPSDKParsingError
from spsdk.image.keystore import KeyStore
from spsdk.image.mbi.mbi_mixin import Mbi_MixinIvt, Mbi_MixinIvtZeroTotalLength, Mbi_ExportMixinAppTrustZoneCertBlock
from spsdk.image.trustzone import TrustZone, TrustZoneType

inline("spsdk.image.keystore:KeyStore.export", "spsdk.image.mbi.mbi_mixin:Mbi_MixinIvt.get_flags_from_data",
       "spsdk.image.mbi.mbi_mixin:Mbi_MixinIvt.ivt_table", "spsdk.image.mbi.mbi_mixin:Mbi_MixinIvt.get_cert_block_offset_from_data")

TZ = Obj(TrustZone, type=OneOf(TrustZoneType.ENABLED, TrustZoneType.CUSTOM, TrustZoneType.DISABLED))
KS = Optional[Obj(KeyStore, _key_store=Optional[Bytes(lo=0, hi=1424)])]
IMGTYPE = OneOf((0, "plain"), (1, "signed"), (2, "crc"), (4, "signed xip"), (5, "crc xip"), (8, "nxp"))


def IVT(**present):
    base = dict(IMAGE_TYPE=IMGTYPE)
    base.update(present)
    return Obj(Mbi_MixinIvt, **base)


FULL = IVT(trust_zone=TZ, image_subtype=Range(0, 3), user_hw_key_enabled=bool, key_store=KS, app_table=OneOf(None, "TABLE"),
           image_version=Range(0, 0xFFFF), image_version_to_image_type=bool, load_address=U32)
NO_VERSION = IVT(trust_zone=TZ, user_hw_key_enabled=bool, key_store=KS, load_address=U32)
MINIMAL = IVT()
ANY_IVT = Union[FULL, NO_VERSION, MINIMAL]


def has(o, name):
    return hasattr(o, name)


def spec_flags(m):
    """The flags word as the format defines it: type[5:0] subtype[7:6] ver-flag[10] reloc[11] hwkey[12] tz[14:13] keystore[15] version[31:16]."""
    f = m.IMAGE_TYPE[0]
    f = f + (m.image_subtype * 64 if has(m, "image_subtype") else 0)
    ver = has(m, "image_version") and has(m, "image_version_to_image_type") and m.image_version != 0 and m.image_version_to_image_type
    f = f + (0x400 + m.image_version * 65536 if ver else 0)
    f = f + (0x800 if has(m, "app_table") and m.app_table is not None else 0)
    f = f + (0x1000 if has(m, "user_hw_key_enabled") and m.user_hw_key_enabled else 0)
    f = f + (m.trust_zone.type.tag * 8192 if has(m, "trust_zone") else 0)
    ks = has(m, "key_store") and m.key_store is not None and m.key_store._key_store is not None and len(m.key_store._key_store) > 0
    f = f + (0x8000 if ks else 0)
    return f


def _mk(rnd, kind=None):
    from spsdk.image.keystore import KeySourceType
    m = object.__new__(Mbi_MixinIvt)
    m.IMAGE_TYPE = rnd.choice([(0, "plain"), (1, "signed"), (2, "crc"), (4, "signed xip"), (5, "crc xip"), (8, "nxp")])
    kind = kind if kind is not None else rnd.choice(["full", "nover", "min"])
    if kind in ("full", "nover"):
        m.trust_zone = object.__new__(TrustZone)
        m.trust_zone.type = rnd.choice(list(TrustZoneType))
        m.user_hw_key_enabled = rnd.random() < 0.5
        ks = rnd.choice([None, "empty", "full"])
        m.key_store = None if ks is None else KeyStore(KeySourceType.KEYSTORE, None if ks == "empty" else bytes(1424))
        m.load_address = rnd.getrandbits(32)
    if kind == "full":
        m.image_subtype = rnd.randrange(4)
        m.app_table = rnd.choice([None, "TABLE"])
        m.image_version = rnd.choice([0, 1, 0xFFFF, rnd.getrandbits(16)])
        m.image_version_to_image_type = rnd.random() < 0.7
    return m


@contract("spsdk.image.mbi.mbi_mixin:Mbi_MixinIvt.create_flags", split=3)
def _(self: ANY_IVT) -> int:
    returns(spec_flags(self), label="flag-word-describes-the-image")
    ensures(0 <= result and result < 2 ** 32, label="fits-the-ivt-word")
    pure()
    sample_with(lambda rnd: {"self": _mk(rnd)})


# ---- readers: each getter returns its field of the flags word at 0x24 ------------------------------------------------------------------
def flags_of(data):
    return unpack_from("<I", data, 0x24)[0]


@contract("spsdk.image.mbi.mbi_mixin:Mbi_MixinIvt.get_image_type")
def _(cls: Const(Mbi_MixinIvt), data: Bytes(lo=0x38, hi=0x80)) -> int:
    returns(flags_of(data) % 64)
    pure()


@contract("spsdk.image.mbi.mbi_mixin:Mbi_MixinIvt.get_tz_type")
def _(cls: Const(Mbi_MixinIvt), data: Bytes(lo=0x38, hi=0x80)) -> int:
    returns(flags_of(data) // 8192 % 4)
    pure()


@contract("spsdk.image.mbi.mbi_mixin:Mbi_MixinIvt.get_sub_type")
def _(cls: Const(Mbi_MixinIvt), data: Bytes(lo=0x38, hi=0x80)) -> int:
    returns(flags_of(data) // 64 % 4)
    pure()


@contract("spsdk.image.mbi.mbi_mixin:Mbi_MixinIvt.get_image_version")
def _(cls: Const(Mbi_MixinIvt), data: Bytes(lo=0x38, hi=0x80)) -> int:
    returns(flags_of(data) // 65536 if flags_of(data) // 1024 % 2 == 1 else 0)
    pure()


@contract("spsdk.image.mbi.mbi_mixin:Mbi_MixinIvt.get_hw_key_enabled")
def _(cls: Const(Mbi_MixinIvt), data: Bytes(lo=0x38, hi=0x80)) -> bool:
    returns(flags_of(data) // 0x1000 % 2 == 1)
    pure()


@contract("spsdk.image.mbi.mbi_mixin:Mbi_MixinIvt.get_key_store_presented")
def _(cls: Const(Mbi_MixinIvt), data: Bytes(lo=0x38, hi=0x80)) -> bool:
    returns(flags_of(data) // 0x8000 % 2 == 1)
    pure()


@contract("spsdk.image.mbi.mbi_mixin:Mbi_MixinIvt.get_app_table_presented")
def _(cls: Const(Mbi_MixinIvt), data: Bytes(lo=0x38, hi=0x80)) -> bool:
    returns(flags_of(data) // 0x800 % 2 == 1)
    pure()


@lemma("flag-fields-are-disjoint-so-every-reader-inverts-create_flags")
def _(t: Range(0, 63), sub: Range(0, 3), ver: Range(0, 0xFFFF), verflag: bool, reloc: bool, hw: bool, tz: Range(0, 2), ks: bool):
    let(f=t + sub * 64 + (0x400 + ver * 65536 if verflag else 0) + (0x800 if reloc else 0) + (0x1000 if hw else 0) + tz * 8192 + (0x8000 if ks else 0))
    ensures(f % 64 == t and f // 64 % 4 == sub and f // 8192 % 4 == tz, label="type-subtype-tz")
    ensures((f // 1024 % 2 == 1) == verflag and (f // 0x800 % 2 == 1) == reloc and (f // 0x1000 % 2 == 1) == hw and (f // 0x8000 % 2 == 1) == ks,
            label="single-bit-flags")
    ensures(implies(verflag, f // 65536 == ver), label="version")


# ---- update / clean ------------------------------------------------------------------------------------------------------------------
@contract("spsdk.image.mbi.mbi_mixin:Mbi_MixinIvt.update_ivt", split=3)
def _(self: ANY_IVT, app_data: Bytes(lo=0x38), total_len: U32, crc_val_cert_offset: U32) -> bytes:
    ensures(len(result) == len(app_data), label="same-length")
    ensures(unpack_from("<I", result, 0x20)[0] == total_len, label="total-length-word")
    ensures(unpack_from("<I", result, 0x24)[0] == spec_flags(self), label="flags-word")
    ensures(unpack_from("<I", result, 0x28)[0] == (0 if self.IMAGE_TYPE[0] == 0 else crc_val_cert_offset), label="crc-or-cert-offset-word")
    ensures(unpack_from("<I", result, 0x34)[0] == (self.load_address if has(self, "load_address") else 0), label="load-address-word")
    ensures(forall(0, len(app_data), lambda k: implies(not (0x20 <= k and k < 0x2C) and not (0x34 <= k and k < 0x38), result[k] == app_data[k])),
            label="everything-else-untouched")
    pure()
    sample_with(lambda rnd: {"self": _mk(rnd), "app_data": bytes(rnd.getrandbits(8) for _ in range(rnd.choice([0x38, 0x40, 100, 513]))),
                             "total_len": rnd.getrandbits(32), "crc_val_cert_offset": rnd.getrandbits(32)})


@contract("spsdk.image.mbi.mbi_mixin:Mbi_MixinIvt.clean_ivt")
def _(self: SubObj(Mbi_MixinIvt), app_data: Bytes(lo=0x38)) -> bytes:
    # uses only the four IVT offset constants of Mbi_MixinIvt (no subclass in the repository overrides them)
    ensures(len(result) == len(app_data), label="same-length")
    ensures(forall(0, len(app_data), lambda k: result[k] == (0 if (0x20 <= k and k < 0x2C) or (0x34 <= k and k < 0x38) else app_data[k])),
            label="four-words-zeroed-rest-kept")
    pure()
    sample_with(lambda rnd: {"self": _mk(rnd, "min"), "app_data": bytes(rnd.getrandbits(8) for _ in range(rnd.choice([0x38, 0x40, 100])))})


# ---- disassemble of a signed image with certificate block v1 -------------------------------------------------------------------------------
class SignedXipComposition(Mbi_ExportMixinAppTrustZoneCertBlock, Mbi_MixinIvt):
    """The export mixin composed with the IVT mixin, as create_mbi_class does for signed images."""


@contract("spsdk.image.mbi.mbi_mixin:Mbi_ExportMixinAppTrustZoneCertBlock.disassemble_image")
def _(self: Obj(SignedXipComposition, IMAGE_TYPE=Const((4, "signed xip")), app=Const(None)), image: Bytes(lo=0x38)):
    # no relocation table (no disassembly_app_data attribute): the application is everything before the certificate block offset
    let(off=unpack_from("<I", image, 0x28)[0])
    requires(0x38 <= unpack_from("<I", image, 0x28)[0] and unpack_from("<I", image, 0x28)[0] <= len(image))
    ensures(len(self.app) == off, label="app-is-the-bytes-before-the-cert-block")
    ensures(forall(0, off, lambda k: self.app[k] == (0 if (0x20 <= k and k < 0x2C) or (0x34 <= k and k < 0x38) else image[k])), label="app-bytes-restored")
    modifies(self.app)
    sample_with(lambda rnd: _sample_dis(rnd))


def _sample_dis(rnd):
    import struct
    o = object.__new__(SignedXipComposition)
    o.IMAGE_TYPE, o.app = (4, "signed xip"), None
    n = rnd.choice([0x38, 0x40, 200, 1000])
    img = bytearray(rnd.getrandbits(8) for _ in range(n + rnd.choice([0, 7, 300])))
    img[0x28:0x2C] = struct.pack("<I", n)
    return {"self": o, "image": bytes(img)}


# ----------------------------------------------------------------------------------------------------------------------
# Relocation table (multicore / TrustZone images): every entry describes the bytes that were emitted for its image
# ----------------------------------------------------------------------------------------------------------------------
from spsdk.image.mbi.mbi_classes import MultipleImageEntry, MultipleImageTable  # noqa: E402

inline("spsdk.image.mbi.mbi_classes:MultipleImageTable.entries", "spsdk.image.mbi.mbi_classes:MultipleImageTable.header_version",
       "spsdk.image.mbi.mbi_classes:MultipleImageTable.reloc_table", "spsdk.image.mbi.mbi_classes:MultipleImageEntry.is_load",
       "spsdk.image.mbi.mbi_classes:MultipleImageEntry.flags", "spsdk.image.mbi.mbi_classes:MultipleImageEntry.src_addr",
       "spsdk.image.mbi.mbi_classes:MultipleImageEntry.dst_addr", "spsdk.image.mbi.mbi_classes:MultipleImageEntry.size",
       "spsdk.image.mbi.mbi_classes:MultipleImageEntry.image", "spsdk.image.mbi.mbi_classes:MultipleImageEntry.export_entry",
       "spsdk.image.mbi.mbi_classes:MultipleImageEntry.export_image")
# image lengths: every residue mod 4 (the padding cases) and a longer one; contents, addresses and the start address are arbitrary
ENTRY = Obj(MultipleImageEntry, _img=Union[Bytes(1), Bytes(4), Bytes(6), Bytes(7), Bytes(41)], _src_addr=U32, _dst_addr=U32, _flags=Const(1))


def TABLE(k):
    return Obj(MultipleImageTable, _entries=ListOf(ENTRY, k), start_address=U32)


def pad4(n):
    return (n + 3) // 4 * 4


def entry_fields(blob, pos):
    """(source, destination, size, flags) of the 16-byte relocation entry at pos, as the ROM reads it."""
    return unpack_from("<4I", blob, pos)


def _mk_table(rnd):
    t = MultipleImageTable()
    for i in range(rnd.randrange(1, 4)):
        t.add_entry(MultipleImageEntry(bytes(rnd.getrandbits(8) for _ in range(rnd.choice([1, 4, 5, 30, 366]))), 0x80000 + 0x1000 * i))
    return t


@contract("spsdk.image.mbi.mbi_classes:MultipleImageTable.export", split=3)
def _(self: Union[TABLE(1), TABLE(2), TABLE(3)], start_addr: Range(0, 0x0FFFFFFF)) -> bytes:
    let(k=len(self._entries))
    let(imgs_len=pad4(len(self._entries[0]._img)) + (pad4(len(self._entries[1]._img)) if k > 1 else 0) + (pad4(len(self._entries[2]._img)) if k > 2 else 0))
    ensures(len(result) == imgs_len + 16 * k + 16, label="images-then-entries-then-header")
    ensures(unpack_from("<4I", result, len(result) - 16) == (0x4C54424C, 0, k, start_addr + imgs_len), label="header-marker-version-count-pointer-to-entries")
    # entry i: its source range lies inside the emitted images, holds exactly image i, and starts where image i-1 (padded to 4) ends
    ensures(all(entry_fields(result, imgs_len + 16 * i)[2] == len(self._entries[i]._img) and entry_fields(result, imgs_len + 16 * i)[1] == self._entries[i]._dst_addr
                and entry_fields(result, imgs_len + 16 * i)[3] == 1 for i in range(k)), label="entry-size-destination-flags")
    ensures(entry_fields(result, imgs_len)[0] == start_addr and result[0: len(self._entries[0]._img)] == self._entries[0]._img, label="entry-0-source-holds-image-0")
    ensures(implies(k > 1, entry_fields(result, imgs_len + 16)[0] == start_addr + pad4(len(self._entries[0]._img))
                    and result[pad4(len(self._entries[0]._img)): pad4(len(self._entries[0]._img)) + len(self._entries[1]._img)] == self._entries[1]._img),
            label="entry-1-source-holds-image-1")
    ensures(implies(k > 2, entry_fields(result, imgs_len + 32)[0] == start_addr + pad4(len(self._entries[0]._img)) + pad4(len(self._entries[1]._img))
                    and result[pad4(len(self._entries[0]._img)) + pad4(len(self._entries[1]._img)):
                               pad4(len(self._entries[0]._img)) + pad4(len(self._entries[1]._img)) + len(self._entries[2]._img)] == self._entries[2]._img),
            label="entry-2-source-holds-image-2")
    modifies(self.start_address, self._entries[0]._src_addr, self._entries[1]._src_addr, self._entries[2]._src_addr)
    sample_with(lambda rnd: {"self": _mk_table(rnd), "start_addr": rnd.choice([0, 0x400, 0x3FC])})


# ---- key store of load-to-RAM images: on parse it is read from right behind the HMAC block, whether or not the HMAC key is known yet ---------
from spsdk.image.keystore import KeySourceType  # noqa: E402
from spsdk.image.mbi.mbi_mixin import Mbi_MixinKeyStore  # noqa: E402

inline("spsdk.image.mbi.mbi_mixin:Mbi_MixinIvt.get_key_store_presented", "spsdk.image.keystore:KeyStore.__init__")


def _mk_ksm(rnd):
    m = object.__new__(Mbi_MixinKeyStore)
    m.ivt_table, m.HMAC_OFFSET, m.HMAC_SIZE = object.__new__(Mbi_MixinIvt), 64, 32
    m.hmac_key = rnd.choice([None, bytes(32), bytes(rnd.getrandbits(8) for _ in range(32))])
    m.key_store = None
    data = bytearray(rnd.getrandbits(8) for _ in range(rnd.choice([1520, 1600, 4000])))
    data[0x24:0x28] = (rnd.getrandbits(32) & ~0x8000 | (0x8000 if rnd.random() < 0.7 else 0)).to_bytes(4, "little")
    return {"self": m, "data": bytes(data)}


@contract("spsdk.image.mbi.mbi_mixin:Mbi_MixinKeyStore.mix_parse")
def _(self: Obj(Mbi_MixinKeyStore, ivt_table=Obj(Mbi_MixinIvt), HMAC_OFFSET=Const(64), HMAC_SIZE=Const(32), hmac_key=Optional[Bytes(32)], key_store=KS),
      data: Bytes(lo=1520, hi=1 << 20)):
    let(present=int.from_bytes(data[0x24:0x28], "little") // 0x8000 % 2 == 1)
    ensures(implies(not present, self.key_store is None), label="no-key-store-flag-no-key-store")
    ensures(implies(present, self.key_store is not None and self.key_store._key_store == data[96: 96 + 1424] and self.key_store._key_source == KeySourceType.KEYSTORE),
            label="key-store-is-the-1424-bytes-behind-the-hmac-block")
    modifies(self.key_store)
    sample_with(lambda rnd: _mk_ksm(rnd))


# ---- the IVT words the parser trusts: total length, flags, CRC / certificate-block offset ------------------------------------------------------------
from spsdk.exceptions import SPSDKParsingError as _ParsErr  # noqa: E402

inline("spsdk.image.mbi.mbi_mixin:Mbi_MixinIvt.get_flags_from_data", "spsdk.image.mbi.mbi_mixin:Mbi_MixinIvt.get_cert_block_offset_from_data")


@contract("spsdk.image.mbi.mbi_mixin:Mbi_MixinIvt.update_crc_val_cert_offset")
def _(self: SubObj(Mbi_MixinIvt), app_data: Bytes(lo=0x38), crc_val_cert_offset: U32) -> bytearray:
    ensures(len(result) == len(app_data), label="same-length")
    ensures(unpack_from("<I", result, 0x28)[0] == crc_val_cert_offset, label="word-0x28-takes-the-value")
    ensures(forall(0, len(app_data), lambda k: implies(not (0x28 <= k and k < 0x2C), result[k] == app_data[k])), label="everything-else-untouched")
    pure()
    sample_with(lambda rnd: {"self": _mk(rnd, "min"), "app_data": bytes(rnd.getrandbits(8) for _ in range(rnd.choice([0x38, 0x40, 100]))), "crc_val_cert_offset": rnd.getrandbits(32)})


@contract("spsdk.image.mbi.mbi_mixin:Mbi_MixinIvt.check_total_length")
def _(cls: Const(Mbi_MixinIvt), data: Bytes(lo=0, hi=1 << 20)):
    # an image is accepted for parsing exactly when it holds a whole IVT and at least as many bytes as its own total-length word announces
    raises(_ParsErr, len(data) < 0x38 or int.from_bytes(data[0x20:0x24], "little") > len(data), label="shorter-than-the-ivt-or-than-announced")
    pure()
    sample_with(lambda rnd: {"cls": Mbi_MixinIvt, "data": (lambda n, t: bytes(0x20) + t.to_bytes(4, "little") + bytes(max(n - 0x24, 0)))(rnd.choice([0x38, 0x40, 0x100]), rnd.choice([0, 0x38, 0x40, 0x41, 0x101]))[: rnd.choice([0x10, 0x38, 0x40, 0x100])]})


@contract("spsdk.image.mbi.mbi_mixin:Mbi_MixinIvt.get_flags")
def _(cls: Const(Mbi_MixinIvt), data: Bytes(lo=0, hi=1 << 20)) -> int:
    raises(_ParsErr, len(data) < 0x38 or int.from_bytes(data[0x20:0x24], "little") > len(data), label="shorter-than-the-ivt-or-than-announced")
    returns(int.from_bytes(data[0x24:0x28], "little"), label="flags-word")
    pure()


@contract("spsdk.image.mbi.mbi_mixin:Mbi_MixinIvt.get_cert_block_offset")
def _(cls: Const(Mbi_MixinIvt), data: Bytes(lo=0, hi=1 << 20)) -> int:
    raises(_ParsErr, len(data) < 0x38 or int.from_bytes(data[0x20:0x24], "little") > len(data), label="shorter-than-the-ivt-or-than-announced")
    returns(int.from_bytes(data[0x28:0x2C], "little"), label="certificate-block-offset-word")
    pure()
