"""C05 — Secure Binary 3.1: header, chunking into 256-byte data blocks, hash chain, block keys (spsdk/sbfile/sb31/images.py).

The KDF is C09.  Commands are abstract here (known through their exported bytes); block counts 1..3 are instantiated (the list
comprehension over range(0, len, 256) is unrolled completely for each count; the byte lengths inside each count are symbolic).
"""
from struct import unpack_from

from vf.api import *  # noqa
from spsdk.crypto.hash import EnumHashAlgorithm
from spsdk.exceptions import SPSDKError
from spsdk.sbfile.sb31.images import SecureBinary31Commands, SecureBinary31Header
from spsdk.sbfile.sb31.commands import CmdSectionHeader
from spsdk.utils.crypto.cert_blocks import CertBlockV21
from specs.crypto import HASH, HASH_LEN, AES_CBC_E
from specs.sb31 import AbsCmd

HT = OneOf(EnumHashAlgorithm.SHA256, EnumHashAlgorithm.SHA384)
inline("spsdk.sbfile.sb31.images:SecureBinary31Header.block_size", "spsdk.sbfile.sb31.images:SecureBinary31Header.cert_block_offset",
       "spsdk.sbfile.sb31.commands:CmdSectionHeader.__init__", "spsdk.sbfile.sb31.commands:CmdSectionHeader.export",
       "spsdk.sbfile.sb31.commands:MainCmd.__init__", "spsdk.sbfile.sb31.commands:BaseCmd.__init__")


def hlen(ht):
    return 32 if ht == EnumHashAlgorithm.SHA256 else 48


# ---- header ---------------------------------------------------------------------------------------------------------------------------
HDR = Obj(SecureBinary31Header, flags=U32, hash_type=HT, block_count=U32, image_type=OneOf(6, 7), firmware_version=U32, timestamp=U64,
          image_total_length=U32, description=Bytes(16))


def _mk_hdr(rnd):
    h = SecureBinary31Header(rnd.getrandbits(32), rnd.choice([EnumHashAlgorithm.SHA256, EnumHashAlgorithm.SHA384]), description="abc",
                             timestamp=rnd.getrandbits(40) + 1, flags=rnd.getrandbits(16))
    h.block_count = rnd.getrandbits(10)
    h.image_total_length = rnd.choice([60, 364, 668])
    return h


@contract("spsdk.sbfile.sb31.images:SecureBinary31Header.export")
def _(self: HDR) -> bytes:
    ensures(len(result) == 60, label="size")
    ensures(unpack_from("<4s2H3LQ4L16s", result) == (b"sbv3", 1, 3, self.flags, self.block_count, 4 + 256 + hlen(self.hash_type), self.timestamp,
                                                    self.firmware_version, self.image_total_length, self.image_type, 60 + hlen(self.hash_type),
                                                    self.description), label="fields-as-the-loader-reads-them")
    pure()
    sample_with(lambda rnd: {"self": _mk_hdr(rnd)})


@contract("spsdk.sbfile.sb31.images:SecureBinary31Header.update")
def _(self: HDR, commands: Obj(SecureBinary31Commands, block_count=U32), cert_block: Obj(CertBlockV21, _g_size=Range(0, 4096))):
    # history independence: the result does not depend on the previous value of image_total_length (second export == first export)
    ensures(self.block_count == commands.block_count, label="block-count")
    ensures(self.image_total_length == 60 + 3 * hlen(self.hash_type) + cert_block._g_size, label="total-length-of-block-0-recomputed")
    modifies(self.block_count, self.image_total_length)
    sample_with(lambda rnd: _sample_update(rnd))


@assumed("spsdk.utils.crypto.cert_blocks:CertBlockV21.expected_size", reason="size of the certificate block (C03); abstract here")
def _(self: Obj(CertBlockV21, _g_size=Range(0, 4096))) -> int:
    returns(self._g_size)
    pure()


def _sample_update(rnd):
    class _CB(CertBlockV21):
        @property
        def expected_size(self):
            return self._g_size
    cb = object.__new__(CertBlockV21)
    cb.__class__ = _CB
    cb._g_size = rnd.randrange(100, 1000)
    cm = object.__new__(SecureBinary31Commands)
    cm.block_count = rnd.randrange(1, 20)
    return {"self": _mk_hdr(rnd), "commands": cm, "cert_block": cb}


# ---- chunking -----------------------------------------------------------------------------------------------------------------------------
def CMDS(lo, hi):
    return Obj(SecureBinary31Commands, commands=ListOf(Obj(AbsCmd, _bytes=Bytes(lo=lo, hi=hi)), 1), DATA_CHUNK_LENGTH=Const(256))


def stream(self):
    """section header || commands, as the loader parses the decrypted stream"""
    return (1).to_bytes(4, "little") + (1).to_bytes(4, "little") + len(self.commands[0]._bytes).to_bytes(4, "little") + bytes(4) + self.commands[0]._bytes


@contract("spsdk.sbfile.sb31.images:SecureBinary31Commands.get_cmd_blocks_to_export")
def _(self: Union[CMDS(0, 240), CMDS(241, 496), CMDS(497, 752)]) -> Opaque():
    let(total=stream(self), n=(len(stream(self)) + 255) // 256)
    ensures(len(result) == n, label="block-count-is-ceil-len-over-256")
    ensures(all(len(b) == 256 for b in result), label="every-block-256-bytes")
    ensures(forall(0, len(total), lambda k: (result[0] + (result[1] if n > 1 else b"") + (result[2] if n > 2 else b""))[k] == total[k]),
            label="blocks-concatenate-to-the-stream")
    ensures(forall(len(total), 256 * n, lambda k: (result[0] + (result[1] if n > 1 else b"") + (result[2] if n > 2 else b""))[k] == 0),
            label="zero-padding-only")
    pure()
    sample_with(lambda rnd: _sample_cmds(rnd))


def _sample_cmds(rnd):
    c = object.__new__(SecureBinary31Commands)
    c.commands = [AbsCmd(bytes(rnd.getrandbits(8) for _ in range(rnd.choice([0, 1, 239, 240, 241, 496, 497, 752]))))]
    return {"self": c}


# ---- hash chain ----------------------------------------------------------------------------------------------------------------------------
def PROC(enc):
    return Obj(SecureBinary31Commands, hash_type=HT, is_encrypted=Const(enc), final_hash=Bytes(lo=32, hi=48), block_count=U32,
               key_derivator=Const(None) if not enc else Opaque())


@contract("spsdk.sbfile.sb31.images:SecureBinary31Commands._process_block")
def _(self: PROC(False), block_number: U32, block_data: Bytes(256)) -> bytes:
    requires(len(self.final_hash) == hlen(self.hash_type))
    returns(block_number.to_bytes(4, "little") + old(self.final_hash) + block_data, label="number-nexthash-payload")
    ensures(self.final_hash == HASH(self.hash_type.label, result), label="carries-hash-of-this-block-forward")
    modifies(self.final_hash)
    sample_with(lambda rnd: _sample_proc(rnd))


def _sample_proc(rnd):
    ht = rnd.choice([EnumHashAlgorithm.SHA256, EnumHashAlgorithm.SHA384])
    c = SecureBinary31Commands("mcxn9xx", ht, is_encrypted=False)
    c.final_hash = bytes(rnd.getrandbits(8) for _ in range(32 if ht == EnumHashAlgorithm.SHA256 else 48))
    return {"self": c, "block_number": rnd.randrange(1, 9), "block_data": bytes(rnd.getrandbits(8) for _ in range(256))}


@contract("spsdk.sbfile.sb31.images:SecureBinary31Commands.process_cmd_blocks_to_export")
def _(self: PROC(False), data_blocks: Union[ListOf(Bytes(256), 1), ListOf(Bytes(256), 2), ListOf(Bytes(256), 3)]) -> bytes:
    # plain container (encrypted: payload_i = AES-CBC(block key i, IV 0) — see C09 for the KDF; the chain is the same)
    let(h=hlen(self.hash_type), n=len(data_blocks), bs=4 + hlen(self.hash_type) + 256)
    ensures(len(result) == n * bs and self.block_count == n, label="n-blocks-of-block-size")
    ensures(forall(0, n, lambda i: result[i * bs: i * bs + 4] == (i + 1).to_bytes(4, "little")), label="block-numbers-1..n", expand=True)
    ensures(result[(n - 1) * bs + 4: (n - 1) * bs + 4 + h] == bytes(h), label="last-block-carries-zero-hash-even-on-a-second-export")
    ensures(forall(0, n - 1, lambda i: result[i * bs + 4: i * bs + 4 + h] == HASH(self.hash_type.label, result[(i + 1) * bs: (i + 2) * bs])),
            label="block-i-carries-hash-of-block-i+1")
    ensures(forall(0, n, lambda i: result[i * bs + 4 + h: (i + 1) * bs] == data_blocks[i]), label="payloads-in-order")
    ensures(self.final_hash == HASH(self.hash_type.label, result[0:bs]), label="final-hash-is-hash-of-block-1")
    modifies(self.final_hash, self.block_count)
    sample_with(lambda rnd: dict(_sample_proc(rnd), data_blocks=[bytes(rnd.getrandbits(8) for _ in range(256)) for _ in range(rnd.choice([1, 2, 3]))]) and
                {k: v for k, v in dict(_sample_proc(rnd), data_blocks=[bytes(rnd.getrandbits(8) for _ in range(256)) for _ in range(rnd.choice([1, 2, 3]))]).items()
                 if k in ("self", "data_blocks")})


# ----------------------------------------------------------------------------------------------------------------------
# Commands as the loader reads them: 16-byte header (tag 0x55AAAA55, address, length, command code), then the command's own words / data
# ----------------------------------------------------------------------------------------------------------------------
from spsdk.sbfile.sb31.commands import (BaseCmd, CmdCopy, CmdErase, CmdFillMemory, CmdLoad, CmdLoadBase, CmdLoadKeyBlob, EnumCmdTag)  # noqa: E402
from struct import unpack_from as _unp  # noqa: E402

inline("spsdk.sbfile.sb31.commands:BaseCmd.address", "spsdk.sbfile.sb31.commands:BaseCmd.length", "spsdk.sbfile.sb31.commands:CmdLoadKeyBlob.length")


def words(blob, pos, n):
    return _unp("<%dL" % n, blob, pos)


def hdr_ok(blob, address, length, code):
    return words(blob, 0, 4) == (0x55AAAA55, address, length, code)


@contract("spsdk.sbfile.sb31.commands:BaseCmd.export")
def _(self: SubObj(BaseCmd, _address=U32, _length=U32, cmd_tag=OneOf(EnumCmdTag.ERASE, EnumCmdTag.LOAD, EnumCmdTag.EXECUTE, EnumCmdTag.COPY, EnumCmdTag.FILL_MEMORY, EnumCmdTag.PROGRAM_FUSES,
                                                                                       EnumCmdTag.PROGRAM_IFR, EnumCmdTag.CALL, EnumCmdTag.RESET, EnumCmdTag.LOAD_CMAC,
                                                                                       EnumCmdTag.LOAD_HASH_LOCKING))) -> bytes:
    ensures(len(result) == 16 and hdr_ok(result, self._address, self._length, self.cmd_tag.tag), label="tag-address-length-code")
    pure()


@contract("spsdk.sbfile.sb31.commands:CmdErase.export")
def _(self: Obj(CmdErase, _address=U32, _length=U32, cmd_tag=Const(EnumCmdTag.ERASE), memory_id=U32)) -> bytes:
    ensures(len(result) == 32 and hdr_ok(result, self._address, self._length, EnumCmdTag.ERASE.tag) and words(result, 16, 4) == (self.memory_id, 0, 0, 0),
            label="erase-range-and-memory")
    pure()
    sample_with(lambda rnd: {"self": CmdErase(rnd.getrandbits(32), rnd.getrandbits(32), rnd.getrandbits(8))})


@contract("spsdk.sbfile.sb31.commands:CmdCopy.export")
def _(self: Obj(CmdCopy, _address=U32, _length=U32, cmd_tag=Const(EnumCmdTag.COPY), destination_address=U32, memory_id_from=U32, memory_id_to=U32)) -> bytes:
    ensures(len(result) == 32 and hdr_ok(result, self._address, self._length, EnumCmdTag.COPY.tag)
            and words(result, 16, 4) == (self.destination_address, self.memory_id_from, self.memory_id_to, 0), label="copy-source-destination-memories")
    pure()
    sample_with(lambda rnd: {"self": CmdCopy(rnd.getrandbits(32), rnd.getrandbits(32), rnd.getrandbits(32), rnd.getrandbits(4), rnd.getrandbits(4))})


@contract("spsdk.sbfile.sb31.commands:CmdFillMemory.export")
def _(self: Obj(CmdFillMemory, _address=U32, _length=U32, cmd_tag=Const(EnumCmdTag.FILL_MEMORY), pattern=U32)) -> bytes:
    ensures(len(result) == 32 and hdr_ok(result, self._address, self._length, EnumCmdTag.FILL_MEMORY.tag) and words(result, 16, 4) == (self.pattern, 0, 0, 0),
            label="fill-range-and-pattern")
    pure()
    sample_with(lambda rnd: {"self": CmdFillMemory(rnd.getrandbits(32), rnd.getrandbits(32), rnd.getrandbits(32))})


from spsdk.sbfile.sb31.commands import CmdProgFuses, CmdProgIfr  # noqa: E402
from spsdk.sbfile.sb31.commands import CmdLoadCmac as _CmdLoadCmac, CmdLoadHashLocking as _CmdLoadHashLocking  # noqa: E402


def LOADER(cls, tag, has_memory_block):
    return Obj(cls, _address=U32, _length=U32, cmd_tag=Const(tag), memory_id=U32, data=Bytes(lo=0, hi=4096), HAS_MEMORY_ID_BLOCK=Const(has_memory_block))


def _mk_loader(rnd):
    kind = rnd.randrange(4)
    if kind == 3:
        return _CmdLoadCmac(rnd.getrandbits(32), bytes(rnd.getrandbits(8) for _ in range(rnd.choice([0, 1, 16, 33]))), rnd.getrandbits(4))
    if kind == 0:
        return CmdLoad(rnd.getrandbits(32), bytes(rnd.getrandbits(8) for _ in range(rnd.choice([0, 1, 15, 16, 17, 100]))), rnd.getrandbits(4))
    if kind == 1:
        return CmdProgFuses(rnd.getrandbits(32), bytes(rnd.getrandbits(8) for _ in range(4 * rnd.choice([1, 2, 3, 4, 5, 8]))))
    return CmdProgIfr(rnd.getrandbits(32), bytes(rnd.getrandbits(8) for _ in range(rnd.choice([4, 16, 20, 512]))))


@contract("spsdk.sbfile.sb31.commands:CmdLoadBase.export")
def _(self: Union[LOADER(CmdLoad, EnumCmdTag.LOAD, True), LOADER(CmdProgFuses, EnumCmdTag.PROGRAM_FUSES, False), LOADER(CmdProgIfr, EnumCmdTag.PROGRAM_IFR, False),
                  LOADER(_CmdLoadCmac, EnumCmdTag.LOAD_CMAC, True), LOADER(_CmdLoadHashLocking, EnumCmdTag.LOAD_HASH_LOCKING, True)]) -> bytes:
    # the length word counts bytes, for PROGRAM_FUSES it counts 32-bit fuse words (CmdProgFuses.__init__); the payload is always the whole data
    requires(self._length == (len(self.data) // 4 if typed(self, CmdProgFuses) else len(self.data)))
    let(n=len(self.data), h=32 if self.HAS_MEMORY_ID_BLOCK else 16)
    ensures(len(result) == h + (n + 15) // 16 * 16, label="header-memory-block-data-padded-to-16")
    ensures(hdr_ok(result, self._address, self._length, self.cmd_tag.tag), label="load-address-length-code")
    ensures(implies(self.HAS_MEMORY_ID_BLOCK, words(result, 16, 4) == (self.memory_id, 0, 0, 0)), label="memory-block-only-for-commands-that-have-one")
    ensures(result[h: h + n] == self.data and forall(h + n, len(result), lambda k: result[k] == 0), label="data-as-given-then-zero-padding")
    pure()
    sample_with(lambda rnd: {"self": _mk_loader(rnd)})


inline("spsdk.sbfile.sb31.commands:CmdProgFuses.__init__", "spsdk.sbfile.sb31.commands:CmdLoadBase.__init__", "spsdk.sbfile.sb31.commands:BaseCmd.__init__",
       "spsdk.sbfile.sb31.commands:CmdProgFuses.parse", "spsdk.sbfile.sb31.commands:CmdProgFuses._extract_data")


@lemma("program-fuses-parse-inverts-export")
def _(address: U32, data: Union[Bytes(4), Bytes(8), Bytes(12), Bytes(20), Bytes(64)]):
    let(back=CmdProgFuses.parse(CmdProgFuses(address, data).export()))
    ensures(back.address == address and back.data == data and back.length == len(data) // 4, label="fuse-address-and-every-fuse-word-come-back")


@contract("spsdk.sbfile.sb31.commands:CmdLoadKeyBlob.export")
def _(self: Obj(CmdLoadKeyBlob, _address=U16, cmd_tag=Const(EnumCmdTag.LOAD_KEY_BLOB), key_wrap_id=U16, data=Bytes(lo=0, hi=512), plain_input=bool)) -> bytes:
    let(n=len(self.data))
    ensures(len(result) == 16 + (n + 15) // 16 * 16, label="header-data-padded-to-16")
    ensures(_unp("<L2H2L", result, 0) == (0x55AAAA55, self._address, self.key_wrap_id, n, EnumCmdTag.LOAD_KEY_BLOB.tag), label="offset-wrapid-length-code")
    ensures(result[16: 16 + n] == self.data and forall(16 + n, len(result), lambda k: result[k] == 0), label="blob-as-given-then-zero-padding")
    pure()
    sample_with(lambda rnd: {"self": CmdLoadKeyBlob(rnd.getrandbits(16), bytes(rnd.getrandbits(8) for _ in range(rnd.choice([0, 48, 50]))), rnd.choice([16, 17]))})


# ---- the remaining commands: what the loader reads, and parse inverts export ---------------------------------------------------------------------
from spsdk.sbfile.sb31.commands import (CmdCall, CmdConfigureMemory, CmdExecute, CmdFwVersionCheck, CmdLoadCmac, CmdLoadHashLocking,  # noqa: E402
                                        CmdReset)

inline("spsdk.sbfile.sb31.commands:BaseCmd.header_parse", "spsdk.sbfile.sb31.commands:CmdExecute.__init__", "spsdk.sbfile.sb31.commands:CmdExecute.parse",
       "spsdk.sbfile.sb31.commands:CmdCall.__init__", "spsdk.sbfile.sb31.commands:CmdCall.parse", "spsdk.sbfile.sb31.commands:CmdReset.__init__",
       "spsdk.sbfile.sb31.commands:CmdReset.parse", "spsdk.sbfile.sb31.commands:CmdConfigureMemory.__init__", "spsdk.sbfile.sb31.commands:CmdConfigureMemory.export",
       "spsdk.sbfile.sb31.commands:CmdConfigureMemory.parse", "spsdk.sbfile.sb31.commands:CmdFwVersionCheck.__init__", "spsdk.sbfile.sb31.commands:CmdFwVersionCheck.export",
       "spsdk.sbfile.sb31.commands:CmdFwVersionCheck.parse", "spsdk.utils.spsdk_enum:SpsdkEnum.from_tag", "spsdk.sbfile.sb31.commands:CmdErase.__init__",
       "spsdk.sbfile.sb31.commands:CmdErase.parse", "spsdk.sbfile.sb31.commands:CmdCopy.__init__", "spsdk.sbfile.sb31.commands:CmdCopy.parse",
       "spsdk.sbfile.sb31.commands:CmdFillMemory.__init__", "spsdk.sbfile.sb31.commands:CmdFillMemory.parse", "spsdk.sbfile.sb31.commands:CmdLoad.__init__",
       "spsdk.sbfile.sb31.commands:CmdLoadCmac.__init__", "spsdk.sbfile.sb31.commands:CmdLoadHashLocking.__init__", "spsdk.sbfile.sb31.commands:CmdLoadHashLocking.export",
       "spsdk.sbfile.sb31.commands:CmdLoadBase.parse", "spsdk.sbfile.sb31.commands:CmdLoadBase._extract_data", "spsdk.sbfile.sb31.commands:CmdSectionHeader.parse")


@lemma("execute-call-reset-are-bare-headers-and-parse-back")
def _(address: U32):
    let(e=CmdExecute(address).export(), c=CmdCall(address).export(), r=CmdReset().export())
    ensures(len(e) == 16 and hdr_ok(e, address, 0, EnumCmdTag.EXECUTE.tag) and len(c) == 16 and hdr_ok(c, address, 0, EnumCmdTag.CALL.tag)
            and len(r) == 16 and hdr_ok(r, 0, 0, EnumCmdTag.RESET.tag), label="loader-sees-jump-address-and-code")
    ensures(CmdExecute.parse(e).address == address and CmdCall.parse(c).address == address and CmdReset.parse(r).export() == r, label="parse-inverts-export")


@lemma("configure-memory-and-version-check-put-their-operands-in-the-header-words")
def _(address: U32, memory_id: U32, value: U32, counter: OneOf(*list(CmdFwVersionCheck.CounterID))):
    let(m=CmdConfigureMemory(address, memory_id).export(), v=CmdFwVersionCheck(value, counter).export())
    ensures(len(m) == 16 and words(m, 0, 4) == (0x55AAAA55, memory_id, address, EnumCmdTag.CONFIGURE_MEMORY.tag), label="memory-id-then-configuration-address")
    ensures(len(v) == 16 and words(v, 0, 4) == (0x55AAAA55, value, counter.tag, EnumCmdTag.FW_VERSION_CHECK.tag), label="minimal-version-then-counter-id")
    let(mb=CmdConfigureMemory.parse(m), vb=CmdFwVersionCheck.parse(v))
    ensures(mb.address == address and mb.memory_id == memory_id and vb.value == value and vb.counter_id == counter, label="parse-inverts-export")


@lemma("erase-copy-fill-parse-inverts-export")
def _(address: U32, length: U32, a: U32, b: U32, c: U32):
    let(e=CmdErase.parse(CmdErase(address, length, a).export()), cp=CmdCopy.parse(CmdCopy(address, length, a, b, c).export()),
        f=CmdFillMemory.parse(CmdFillMemory(address, length, a).export()))
    ensures((e.address, e.length, e.memory_id) == (address, length, a), label="erase")
    ensures((cp.address, cp.length, cp.destination_address, cp.memory_id_from, cp.memory_id_to) == (address, length, a, b, c), label="copy")
    ensures((f.address, f.length, f.pattern) == (address, length, a), label="fill")


@lemma("load-family-parse-inverts-export")
def _(address: U32, memory_id: U32, data: Bytes(lo=0, hi=4096)):
    let(l=CmdLoad.parse(CmdLoad(address, data, memory_id).export()), m=CmdLoadCmac.parse(CmdLoadCmac(address, data, memory_id).export()))
    ensures((l.address, l.memory_id, l.data, l.length, l.cmd_tag) == (address, memory_id, data, len(data), EnumCmdTag.LOAD), label="load")
    ensures((m.address, m.memory_id, m.data, m.length, m.cmd_tag) == (address, memory_id, data, len(data), EnumCmdTag.LOAD_CMAC), label="load-cmac")
    let(hx=CmdLoadHashLocking(address, data, memory_id).export())
    ensures(len(hx) == 32 + (len(data) + 15) // 16 * 16 + 64 and hdr_ok(hx, address, len(data), EnumCmdTag.LOAD_HASH_LOCKING.tag) and hx[32: 32 + len(data)] == data
            and forall(32 + len(data), len(hx), lambda k: hx[k] == 0), label="hash-locking-load-leaves-64-zero-bytes-for-the-hash")
    let(h=CmdLoadHashLocking.parse(hx))
    ensures((h.address, h.memory_id, h.data, h.length) == (address, memory_id, data, len(data)), label="load-hash-locking")


@lemma("section-header-parse-inverts-export")
def _(length: U32, uid: U32, typ: U32):
    let(raw=CmdSectionHeader(length, uid, typ).export())
    ensures(len(raw) == 16 and words(raw, 0, 4) == (uid, typ, length, 0), label="uid-type-length")
    let(back=CmdSectionHeader.parse(raw))
    ensures((back.section_uid, back.section_type, back.length) == (uid, typ, length), label="parse-inverts-export")
