"""C10 — bootloader serial framing: a payload is returned only for a well-formed frame whose CRC matches (mboot serial protocol).

Ghost state: the device is the pair of byte streams dev.rx (universally quantified: any bytes, any length — every corrupted byte,
truncation or missing response is inside the quantifier) and dev.tx.  Reference framing: 5A type len16 crc16 payload with CRC-16/XMODEM
over 5A type len16 payload; ACK = 5A A1.
"""
from vf.api import *  # noqa
from spsdk.exceptions import SPSDKConnectionError, SPSDKError
from spsdk.mboot.exceptions import McuBootConnectionError, McuBootDataAbortError
from spsdk.mboot.protocol.serial_protocol import FPType, MbootSerialProtocol
from specs.crypto import CRC

concrete_ok("spsdk.crypto.crc:from_crc_algorithm", "spsdk.crypto.crc:Crc")
inline("spsdk.mboot.protocol.serial_protocol:to_int", "spsdk.mboot.protocol.serial_protocol:MbootSerialProtocol._read",
       "spsdk.mboot.protocol.serial_protocol:MbootSerialProtocol._send_ack", "spsdk.mboot.protocol.serial_protocol:MbootSerialProtocol._send_frame",
       "spsdk.mboot.protocol.serial_protocol:MbootSerialProtocol._calc_crc",
       "spsdk.mboot.protocol.serial_protocol:MbootSerialProtocol._read_frame_header")
PROTO = Obj(MbootSerialProtocol, device=GhostDevice())


def crc16(data):
    return CRC(0x11021, 0, False, 0, data)


def ref_crc(frame_type, payload):
    return crc16(bytes([0x5A, frame_type]) + len(payload).to_bytes(2, "little") + payload)


@contract("spsdk.mboot.protocol.serial_protocol:MbootSerialProtocol._calc_frame_crc")
def _(self: SubObj(MbootSerialProtocol), data: bytes, frame_type: U8) -> int:
    # the body packs f"<BBH{len(data)}B" with *data: verified for the payload lengths below (each a complete unrolling); for other
    # lengths the same header||payload layout is an assumption of the call sites (recorded as verify-domain < call-domain)
    requires(len(data) < 65536)
    returns(crc16(bytes([0x5A, frame_type]) + len(data).to_bytes(2, "little") + data), label="crc16-xmodem-over-5A-type-len-payload")
    pure()
    verify_types(data=Union[Bytes(0), Bytes(1), Bytes(4), Bytes(32)], self=Obj(MbootSerialProtocol))
    sample_with(lambda rnd: {"self": object.__new__(MbootSerialProtocol), "data": bytes(rnd.getrandbits(8) for _ in range(rnd.choice([0, 1, 4, 32, 77]))),
                             "frame_type": rnd.choice([0xA4, 0xA5])})


@contract("spsdk.mboot.protocol.serial_protocol:MbootSerialProtocol._create_frame")
def _(self: SubObj(MbootSerialProtocol), data: Union[Bytes(0), Bytes(1), Bytes(4), Bytes(32)], frame_type: OneOf(FPType.CMD, FPType.DATA)) -> bytes:
    returns(bytes([0x5A, frame_type.tag]) + len(data).to_bytes(2, "little") + ref_crc(frame_type.tag, data).to_bytes(2, "little") + data,
            label="5A-type-len-crc-payload")
    pure()
    sample_with(lambda rnd: {"self": object.__new__(MbootSerialProtocol), "data": bytes(rnd.getrandbits(8) for _ in range(rnd.choice([0, 1, 4, 32]))),
                             "frame_type": rnd.choice([FPType.CMD, FPType.DATA])})


@assumed("spsdk.mboot.protocol.serial_protocol:MbootSerialProtocol._wait_for_data", reason="wall-clock loop (Timeout); modelled as: deliver the next byte of dev.rx or give up")
def _(self: PROTO) -> int:
    may_raise(McuBootConnectionError)
    ensures(0 <= result and result <= 255)


@assumed("spsdk.mboot.commands:parse_cmd_response", reason="response decoding is a separate unit (not under contract here)")
def _(data: Union[bytes, bytearray], offset: Opaque()) -> Const("<parsed response>"):
    pure()


@contract("spsdk.mboot.protocol.serial_protocol:MbootSerialProtocol.read", replay=False)
def _(self: PROTO, length: Const(None)) -> Opaque():
    may_raise(McuBootConnectionError)
    may_raise(McuBootDataAbortError)
    may_raise(SPSDKConnectionError)
    # a normal return hands out a payload only if the frame is well formed and its CRC matches — for CMD and for DATA frames alike
    ensures(implies(typed(result, bytes), result == self.device.rx[self.device.pos - len(result): self.device.pos]
                    and int.from_bytes(self.device.rx[self.device.pos - len(result) - 4: self.device.pos - len(result) - 2], "little") == len(result)
                    and len(result) > 0 and self.device.pos >= len(result) + 4), label="payload-is-the-frame-payload-of-declared-length")
    # (the start byte is consumed by _wait_for_data, outside dev.rx here; in the "ACK and start byte swapped" workaround the type byte is
    #  the header itself, 0xA1, and the stream is one byte shorter)
    ensures(implies(typed(result, bytes), int.from_bytes(self.device.rx[self.device.pos - len(result) - 2: self.device.pos - len(result)], "little")
                    == ref_crc(self.device.rx[0] if self.device.pos == len(result) + 5 else 0xA1, result)), label="returned-only-if-the-crc-matches")
    ensures(self.device.tx[len(self.device.tx) - 2:] == bytes([0x5A, 0xA1]), label="frame-was-acknowledged")
    modifies(self.device)


# ----------------------------------------------------------------------------------------------------------------------
# command layer: McuBoot.read_memory returns exactly the device's bytes, or does not report success
# ----------------------------------------------------------------------------------------------------------------------
# Ghost state: the device is a memory DEVMEM: address -> byte (uninterpreted: any content) that remembers address and byte count of the last
# command it accepted (self._g_addr, self._g_len).  The two device-facing helpers are *assumed* to behave as the reference bootloader does:
# _process_cmd delivers the command and reports the device's status; the data phase _read_data hands out the bytes at the address of the
# last command, all of them exactly when it ends with status SUCCESS.  Everything else - how read_memory cuts the range into USB-HID sized
# requests, where each request starts, how it reacts to a status - is the real code.
from spsdk.mboot.commands import CmdHeader, CmdPacket, CommandTag, ReadMemoryResponse
from spsdk.mboot.error_codes import StatusCode
from spsdk.mboot.exceptions import McuBootCommandError
from spsdk.mboot.mcuboot import McuBoot
from spsdk.utils.interfaces.device.usb_device import UsbDevice

inline("spsdk.mboot.mcuboot:_clamp_down_memory_id", "spsdk.mboot.mcuboot:McuBoot._get_max_packet_size", "spsdk.mboot.commands:CmdPacket.__init__",
       "spsdk.mboot.commands:CmdHeader.__init__", "spsdk.mboot.mcuboot:McuBoot.status_code")


@uninterpreted(result=Range(0, 255), native=True)
def DEVMEM(addr):
    return (addr * 7 + (addr >> 8) + 3) & 0xFF     # run time: the content of the fake device used by the sampler


class _OtherDevice:
    """Stands for every non-USB device (UART, ...)."""


IFACE = Union[Obj("contracts.C10_mboot:_FakeIf", device=Obj(UsbDevice)), Obj("contracts.C10_mboot:_FakeIf", device=Obj(_OtherDevice))]
MBT = Obj(McuBoot, _interface=IFACE, max_packet_size=OneOf(32, 56, 1016), _status_code=int, _cmd_exception=bool, _g_addr=int, _g_len=int)
SUCCESS = StatusCode.SUCCESS.tag
NO_RESPONSE = StatusCode.NO_RESPONSE.tag


@assumed("spsdk.mboot.mcuboot:McuBoot._process_cmd", reason="device interaction (reference bootloader): the command reaches the device, which remembers its "
         "address/count and answers with a status; a successful READ_MEMORY answer announces the requested byte count")
def _(self: MBT, cmd_packet: Obj(CmdPacket, header=Obj(CmdHeader, tag=int, flags=int, reserved=int, params_count=int), params=ListOf(int, 3))
      ) -> Obj(ReadMemoryResponse, status=int, length=int):
    may_raise(McuBootConnectionError)
    may_raise(McuBootCommandError)
    ensures(self._g_addr == cmd_packet.params[0] and self._g_len == cmd_packet.params[1])
    ensures(self._status_code == result.status)
    ensures(implies(result.status == SUCCESS, result.length == cmd_packet.params[1]))
    modifies(self._g_addr, self._g_len, self._status_code)


@assumed("spsdk.mboot.mcuboot:McuBoot._read_data", reason="device interaction (reference bootloader): the data phase delivers bytes from the address of the last "
         "accepted command, never more than asked for, and all of them exactly when it ends with status SUCCESS")
def _(self: MBT, cmd_tag: Const(CommandTag.READ_MEMORY), length: int, progress_callback: Opaque()) -> bytes:
    may_raise(McuBootConnectionError)
    may_raise(McuBootCommandError)
    ensures(len(result) <= length or length < 0)
    ensures(forall(0, len(result), lambda k: result[k] == DEVMEM(self._g_addr + k)))
    ensures(implies(self._status_code == SUCCESS and length >= 0, len(result) == length))
    modifies(self._status_code)


@contract("spsdk.mboot.mcuboot:McuBoot.read_memory", replay=False)
def _(self: MBT, address: Nat, length: Range(0, 65536), mem_id: OneOf(0), progress_callback: OneOf(None), fast_mode: OneOf(False, True)) -> Optional[bytes]:
    may_raise(McuBootConnectionError)
    may_raise(McuBootCommandError)
    ensures(implies(result is not None and self._status_code == SUCCESS,
                    len(result) == length and forall(0, length, lambda k: result[k] == DEVMEM(address + k))),
            label="success-means-exactly-the-requested-device-bytes")
    ensures(implies(result is not None, forall(0, len(result), lambda k: result[k] == DEVMEM(address + k)) and len(result) <= length),
            label="whatever-is-returned-is-a-prefix-of-the-device-bytes")
    modifies(self._g_addr, self._g_len, self._status_code)
    sample_with(lambda rnd: _sample_read(rnd))


@invariant("spsdk.mboot.mcuboot:McuBoot.read_memory", loop=0)
def _():
    holds(idx <= packets and len(data) == (idx * payload_size if idx < packets else length))
    holds(forall(0, len(data), lambda k: data[k] == DEVMEM(address + k)))
    holds(implies(idx > 0, self._status_code == SUCCESS))


class _FakeIf:
    """Run-time stand-in for the protocol object: answers READ_MEMORY from DEVMEM (used by the sampled cross-check only)."""

    def __init__(self, usb, fail_at=None):
        self.device = object.__new__(UsbDevice) if usb else _OtherDevice()
        self.is_opened = True
        self.queue = []
        self.fail_at = fail_at
        self.count = 0

    def write_command(self, packet):
        from spsdk.mboot.commands import CmdResponse, GenericResponse, ResponseTag
        import struct

        addr, ln = packet.params[0], packet.params[1]
        self.count += 1
        bad = self.fail_at is not None and self.count == self.fail_at
        hdr = CmdHeader(ResponseTag.READ_MEMORY.tag, 0, 0, 2)
        self.queue.append(ReadMemoryResponse(hdr, struct.pack("<2I", 0, ln)))
        data = bytes(DEVMEM(addr + k) for k in range(ln))
        if bad:
            data = data[: ln // 2]
        for i in range(0, len(data), 32):
            self.queue.append(data[i: i + 32])
        self.queue.append(GenericResponse(CmdHeader(ResponseTag.GENERIC.tag, 0, 0, 2), struct.pack("<2I", 10100 if bad else 0, CommandTag.READ_MEMORY.tag)))

    def read(self, length=None):
        return self.queue.pop(0)


def _sample_read(rnd):
    mb = object.__new__(McuBoot)
    ps = rnd.choice([32, 56, 1016])
    length = rnd.choice([0, 1, ps - 1, ps, ps + 1, 2 * ps, 2 * ps + 5, rnd.randrange(0, 5000)])
    mb._interface = _FakeIf(rnd.random() < 0.7, fail_at=rnd.choice([None, None, 1, 2, 3]))
    mb.max_packet_size, mb._status_code, mb._cmd_exception = ps, 0, rnd.random() < 0.3
    mb._g_addr = mb._g_len = 0
    mb.reopen = False
    return {"self": mb, "address": rnd.choice([0, 0x20000000, rnd.getrandbits(32)]), "length": length, "mem_id": 0, "progress_callback": None,
            "fast_mode": rnd.random() < 0.2}


# ----------------------------------------------------------------------------------------------------------------------
# USB-HID transport: report framing (report id, pad, 16-bit little-endian payload length, payload)
# ----------------------------------------------------------------------------------------------------------------------
from spsdk.mboot.protocol.bulk_protocol import MbootBulkProtocol, ReportId  # noqa: E402


@contract("spsdk.mboot.protocol.bulk_protocol:MbootBulkProtocol._create_frame")
def _(self: SubObj(MbootBulkProtocol), data: Bytes(lo=0, hi=65535), report_id: OneOf(ReportId.CMD_OUT, ReportId.DATA_OUT)) -> bytes:
    returns(bytes([report_id.tag, 0]) + len(data).to_bytes(2, "little") + data, label="id-pad-len16-payload")
    pure()
    sample_with(lambda rnd: {"self": object.__new__(MbootBulkProtocol), "data": bytes(rnd.getrandbits(8) for _ in range(rnd.choice([0, 1, 32, 255, 256, 1016]))),
                             "report_id": rnd.choice([ReportId.CMD_OUT, ReportId.DATA_OUT])})


@contract("spsdk.mboot.protocol.bulk_protocol:MbootBulkProtocol._parse_frame")
def _(raw_data: Bytes(lo=4, hi=1024 + 4)) -> Opaque():
    # a DATA_IN report hands out exactly the announced payload (any announced length 1..65535, also >= 256), an announced length of
    # zero is the device's abort; (CMD_IN reports go to the response decoder, not under contract here)
    let(plen=raw_data[2] + 256 * raw_data[3])
    requires(raw_data[0] == ReportId.DATA_IN.tag)
    raises(McuBootDataAbortError, plen == 0, label="zero-length-report-is-an-abort")
    returns(raw_data[4: 4 + plen], label="payload-of-the-announced-16-bit-length")
    pure()
    sample_with(lambda rnd: (lambda n: {"raw_data": bytes([4, 0]) + n.to_bytes(2, "little") + bytes(rnd.getrandbits(8) for _ in range(min(n, 1020)))})(
        rnd.choice([0, 1, 32, 255, 256, 512, 1016])))


# ----------------------------------------------------------------------------------------------------------------------
# command packets and responses: what goes to / comes from the device, word by word
# ----------------------------------------------------------------------------------------------------------------------
from spsdk.mboot.commands import GenericResponse, GetPropertyResponse  # noqa: E402

inline("spsdk.mboot.commands:CmdHeader.to_bytes", "spsdk.mboot.commands:CmdResponse.__init__")
MB_HDR = Obj(CmdHeader, tag=U8, flags=U8, reserved=Const(0), params_count=U8)


@contract("spsdk.mboot.commands:CmdPacket.to_bytes")
def _(self: Union[Obj(CmdPacket, header=MB_HDR, params=ListOf(U32, 0)), Obj(CmdPacket, header=MB_HDR, params=ListOf(U32, 2)), Obj(CmdPacket, header=MB_HDR, params=ListOf(U32, 7))],
      padding: OneOf(False, True)) -> bytes:
    let(k=len(self.params))
    ensures(len(result) == (32 if padding else 4 + 4 * k), label="padded-to-32-or-exact")
    ensures(result[0] == self.header.tag and result[1] == self.header.flags and result[2] == 0 and result[3] == k, label="tag-flags-reserved-parameter-count")
    ensures(all(int.from_bytes(result[4 + 4 * i: 8 + 4 * i], "little") == self.params[i] for i in range(k)), label="parameters-in-order-little-endian")
    ensures(forall(4 + 4 * k, len(result), lambda j: result[j] == 0), label="padding-is-zero")
    modifies(self.header.params_count)
    sample_with(lambda rnd: {"self": CmdPacket(rnd.choice(list(CommandTag)), rnd.getrandbits(8), *[rnd.getrandbits(32) for _ in range(rnd.choice([0, 2, 7]))]),
                             "padding": rnd.random() < 0.5})


@contract("spsdk.mboot.commands:GenericResponse.__init__")
def _(self: Obj(GenericResponse), header: MB_HDR, raw_data: Bytes(lo=8, hi=64)):
    ensures(self.status == int.from_bytes(raw_data[0:4], "little") and self.cmd_tag == int.from_bytes(raw_data[4:8], "little"), label="status-and-command-tag-as-the-device-sent-them")
    modifies(self.header, self.raw_data, self.status, self.cmd_tag)


@contract("spsdk.mboot.commands:GetPropertyResponse.__init__")
def _(self: Obj(GetPropertyResponse), header: Union[Obj(CmdHeader, tag=U8, flags=U8, reserved=Const(0), params_count=Const(2)),
                                                    Obj(CmdHeader, tag=U8, flags=U8, reserved=Const(0), params_count=Const(4))], raw_data: Bytes(lo=16, hi=64)):
    ensures(self.status == int.from_bytes(raw_data[0:4], "little"), label="status-as-sent")
    ensures(len(self.values) == header.params_count - 1 and all(self.values[i] == int.from_bytes(raw_data[4 + 4 * i: 8 + 4 * i], "little") for i in range(header.params_count - 1)),
            label="property-values-as-sent-in-order")
    modifies(self.header, self.raw_data, self.status, self.values)


# ---- host-to-device data phase: the chunks are the data, once, in order, none larger than the negotiated packet size ------------------------
def SPLIT_MB(ps):
    return Obj(McuBoot, _interface=Obj("contracts.C10_mboot:_FakeIf", need_data_split=OneOf(False, True)), max_packet_size=Const(ps))


_SPLIT_LENS = (0, 1, 31, 32, 33, 56, 57, 64, 69, 117)


@contract("spsdk.mboot.mcuboot:McuBoot._split_data", split=2)
def _(self: Union[SPLIT_MB(32), SPLIT_MB(56)], data: Union[tuple(Bytes(n) for n in _SPLIT_LENS)]) -> Opaque():
    let(ps=self.max_packet_size)
    ensures(b"".join(result) == data, label="chunks-concatenate-to-the-data-once-in-order")
    ensures(implies(self._interface.need_data_split, all(0 < len(c) and len(c) <= ps for c in result) and len(result) == (len(data) + ps - 1) // ps),
            label="no-chunk-larger-than-the-negotiated-size-none-empty")
    ensures(implies(not self._interface.need_data_split, len(result) == 1), label="transports-that-frame-themselves-get-one-chunk")
    pure()
    sample_with(lambda rnd: _sample_split(rnd))


def _sample_split(rnd):
    mb = object.__new__(McuBoot)
    mb._interface = _FakeIf(True)
    mb._interface.need_data_split = rnd.random() < 0.8
    mb.max_packet_size = rnd.choice([32, 56])
    return {"self": mb, "data": bytes(rnd.getrandbits(8) for _ in range(rnd.choice(_SPLIT_LENS)))}


# ---- SDP / SDPS over USB-HID: the data phase is cut into reports that carry every byte once, in order (spsdk/sdp/protocol/bulk_protocol.py) ----
from spsdk.sdp.protocol.bulk_protocol import SDPBulkProtocol  # noqa: E402

# _create_frame returns a pair: it is verified on its own below and expanded in place inside _create_frames (no tuple-typed results in the contract language)
inline("spsdk.sdp.protocol.bulk_protocol:SDPBulkProtocol._create_frame")
_SDP_LENS = (1, 2, 16, 31, 1019, 1020, 1021, 1023, 1024, 1025, 2047, 2048, 2049, 3061)


@contract("spsdk.sdp.protocol.bulk_protocol:SDPBulkProtocol._create_frame")
def _(self: SubObj(SDPBulkProtocol), data: Bytes(lo=1, hi=8192), report_id: OneOf(1, 2), report_size: Range(1, 1024), offset: Nat) -> Opaque():
    requires(offset < len(data))
    let(n=min(len(data) - offset, report_size))
    ensures(result[0] == bytes([report_id]) + data[offset: offset + n] + bytes(report_size - n), label="report-id-then-the-next-bytes-then-zero-fill")
    ensures(result[1] == offset + n, label="index-advances-by-what-the-report-carries")
    pure()
    sample_with(lambda rnd: (lambda d: {"self": object.__new__(SDPBulkProtocol), "data": d, "report_id": rnd.choice([1, 2]), "report_size": rnd.choice([1, 4, 1020, 1024]),
                                        "offset": rnd.randrange(len(d))})(bytes(rnd.getrandbits(8) for _ in range(rnd.choice(_SDP_LENS)))))


@contract("spsdk.sdp.protocol.bulk_protocol:SDPBulkProtocol._create_frames", split=2)
def _(self: SubObj(SDPBulkProtocol), data: Union[tuple(Bytes(n) for n in _SDP_LENS)], report_id: OneOf(1, 2), report_size: OneOf(1020, 1024)) -> Opaque():
    # data lengths are concrete (each a complete unrolling of the loop): around one, two and three reports of both report sizes
    ensures(len(result) == (len(data) + report_size - 1) // report_size, label="as-many-reports-as-the-data-need")
    ensures(all(len(f) == report_size + 1 and f[0] == report_id for f in result), label="every-report-has-the-id-and-the-full-size")
    ensures(b"".join([f[1:] for f in result])[: len(data)] == data, label="reports-carry-every-byte-once-in-order")
    pure()
    sample_with(lambda rnd: {"self": object.__new__(SDPBulkProtocol), "data": bytes(rnd.getrandbits(8) for _ in range(rnd.choice(_SDP_LENS))),
                             "report_id": rnd.choice([1, 2]), "report_size": rnd.choice([1020, 1024])})


# ---- the remaining response classes: every field is the word the device sent, in the order it sent them ---------------------------------------------
from spsdk.mboot.commands import (FlashReadOnceResponse, FlashReadResourceResponse, KeyProvisioningResponse, ReadMemoryResponse,  # noqa: E402
                                  TrustProvisioningResponse)


def _le(raw, i):
    return int.from_bytes(raw[4 * i: 4 * i + 4], "little")


def _HDRK(k):
    return Obj(CmdHeader, tag=U8, flags=U8, reserved=Const(0), params_count=Const(k))


@contract("spsdk.mboot.commands:ReadMemoryResponse.__init__")
def _(self: Obj(ReadMemoryResponse), header: MB_HDR, raw_data: Bytes(lo=8, hi=64)):
    ensures(self.status == _le(raw_data, 0) and self.length == _le(raw_data, 1), label="status-then-announced-length")
    modifies(self.header, self.raw_data, self.status, self.length)


@contract("spsdk.mboot.commands:FlashReadResourceResponse.__init__")
def _(self: Obj(FlashReadResourceResponse), header: MB_HDR, raw_data: Bytes(lo=8, hi=64)):
    ensures(self.status == _le(raw_data, 0) and self.length == _le(raw_data, 1), label="status-then-announced-length")
    modifies(self.header, self.raw_data, self.status, self.length)


@contract("spsdk.mboot.commands:KeyProvisioningResponse.__init__")
def _(self: Obj(KeyProvisioningResponse), header: MB_HDR, raw_data: Bytes(lo=8, hi=64)):
    ensures(self.status == _le(raw_data, 0) and self.length == _le(raw_data, 1), label="status-then-announced-length")
    modifies(self.header, self.raw_data, self.status, self.length)


@contract("spsdk.mboot.commands:FlashReadOnceResponse.__init__")
def _(self: Obj(FlashReadOnceResponse), header: Union[_HDRK(2), _HDRK(3), _HDRK(4)], raw_data: Bytes(lo=16, hi=64)):
    let(k=header.params_count)
    ensures(self.status == _le(raw_data, 0) and self.length == _le(raw_data, 1), label="status-then-byte-count")
    ensures(len(self.values) == k - 2 and all(self.values[i] == _le(raw_data, 2 + i) for i in range(k - 2)), label="value-words-as-sent-in-order")
    ensures(self.data == (raw_data[8: 8 + _le(raw_data, 1)] if _le(raw_data, 1) > 0 else b""), label="data-are-the-announced-bytes-behind-the-two-words")
    modifies(self.header, self.raw_data, self.status, self.length, self.values, self.data)


@contract("spsdk.mboot.commands:TrustProvisioningResponse.__init__")
def _(self: Obj(TrustProvisioningResponse), header: Union[_HDRK(1), _HDRK(2), _HDRK(4)], raw_data: Union[Bytes(4), Bytes(8), Bytes(16)]):
    let(k=header.params_count)
    requires(len(raw_data) == 4 * k)
    ensures(self.status == _le(raw_data, 0), label="status-as-sent")
    ensures(len(self.values) == k - 1 and all(self.values[i] == _le(raw_data, 1 + i) for i in range(k - 1)), label="value-words-as-sent-in-order")
    modifies(self.header, self.raw_data, self.status, self.values)


# ---- the 4-byte packet header, both directions ------------------------------------------------------------------------------------------------------
from spsdk.mboot.exceptions import McuBootError as _MbErr  # noqa: E402

inline("spsdk.mboot.commands:CmdHeader.__init__")


@contract("spsdk.mboot.commands:CmdHeader.from_bytes")
def _(cls: Const(CmdHeader), data: Bytes(lo=0, hi=64), offset: Const(0)) -> Obj(CmdHeader, tag=U8, flags=U8, reserved=U8, params_count=U8):
    raises(_MbErr, len(data) < 4, label="shorter-than-a-header")
    ensures((result.tag, result.flags, result.reserved, result.params_count) == (data[0], data[1], data[2], data[3]), label="tag-flags-reserved-count-as-sent")
    pure()


@lemma("mboot-packet-header-round-trips")
def _(tag: U8, flags: U8, count: U8):
    let(raw=CmdHeader(tag, flags, 0, count).to_bytes())
    ensures(raw == bytes([tag, flags, 0, count]), label="four-bytes-in-order")
    let(back=CmdHeader.from_bytes(raw))
    ensures((back.tag, back.flags, back.reserved, back.params_count) == (tag, flags, 0, count), label="parse-inverts-export")


# ---- SDP command packet: the 16 bytes the i.MX ROM reads (big-endian: command, address, format, count, data, reserved) ---------------------------------
from spsdk.sdp.commands import CmdPacket as SdpCmdPacket, CmdResponse as SdpCmdResponse  # noqa: E402


@contract("spsdk.sdp.commands:CmdPacket.to_bytes")
def _(self: Obj(SdpCmdPacket, tag=U16, address=U32, format=OneOf(0, 8, 16, 32), count=U32, value=U32), padding: OneOf(False, True)) -> bytes:
    returns(self.tag.to_bytes(2, "big") + self.address.to_bytes(4, "big") + bytes([self.format]) + self.count.to_bytes(4, "big") + self.value.to_bytes(4, "big") + bytes(1),
            label="command-address-format-count-data-reserved-big-endian")
    pure()


@contract("spsdk.sdp.commands:CmdResponse.value")
def _(self: Obj(SdpCmdResponse, hab=bool, raw_data=Bytes(lo=4, hi=64))) -> int:
    returns(int.from_bytes(self.raw_data[0:4], "big"), label="first-word-big-endian-as-sent")
    pure()
