"""C10 — bootloader serial framing: a payload is returned only for a well-formed frame whose CRC matches (mboot serial protocol).

Ghost state: the device is the pair of byte streams dev.rx (universally quantified: any bytes, any length — every corrupted byte,
truncation or missing response is inside the quantifier) and dev.tx.  Reference framing: 5A type len16 crc16 payload with CRC-16/XMODEM
over 5A type len16 payload; ACK = 5A A1.
"""
from vf.api import *  # noqa
from spsdk.exceptions import SPSDKConnectionError, SPSDKError
from spsdk.mboot.exceptions import McuBootConnectionError, McuBootDataAbortError
from spsdk.mboot.protocol.serial_protocol import FPType, MbootSerialProtocol
from specs.crypto import CRC

concrete_ok("spsdk.crypto.crc:from_crc_algorithm", "spsdk.crypto.crc:Crc")
inline("spsdk.mboot.protocol.serial_protocol:to_int", "spsdk.mboot.protocol.serial_protocol:MbootSerialProtocol._read",
       "spsdk.mboot.protocol.serial_protocol:MbootSerialProtocol._send_ack", "spsdk.mboot.protocol.serial_protocol:MbootSerialProtocol._send_frame",
       "spsdk.mboot.protocol.serial_protocol:MbootSerialProtocol._calc_crc",
       "spsdk.mboot.protocol.serial_protocol:MbootSerialProtocol._read_frame_header")
PROTO = Obj(MbootSerialProtocol, device=GhostDevice())


def crc16(data):
    return CRC(0x11021, 0, False, 0, data)


def ref_crc(frame_type, payload):
    return crc16(bytes([0x5A, frame_type]) + len(payload).to_bytes(2, "little") + payload)


@contract("spsdk.mboot.protocol.serial_protocol:MbootSerialProtocol._calc_frame_crc")
def _(self: SubObj(MbootSerialProtocol), data: bytes, frame_type: U8) -> int:
    # the body packs f"<BBH{len(data)}B" with *data: verified for the payload lengths below (each a complete unrolling); for other
    # lengths the same header||payload layout is an assumption of the call sites (recorded as verify-domain < call-domain)
    requires(len(data) < 65536)
    returns(crc16(bytes([0x5A, frame_type]) + len(data).to_bytes(2, "little") + data), label="crc16-xmodem-over-5A-type-len-payload")
    pure()
    verify_types(data=Union[Bytes(0), Bytes(1), Bytes(4), Bytes(32)], self=Obj(MbootSerialProtocol))
    sample_with(lambda rnd: {"self": object.__new__(MbootSerialProtocol), "data": bytes(rnd.getrandbits(8) for _ in range(rnd.choice([0, 1, 4, 32, 77]))),
                             "frame_type": rnd.choice([0xA4, 0xA5])})


@contract("spsdk.mboot.protocol.serial_protocol:MbootSerialProtocol._create_frame")
def _(self: SubObj(MbootSerialProtocol), data: Union[Bytes(0), Bytes(1), Bytes(4), Bytes(32)], frame_type: OneOf(FPType.CMD, FPType.DATA)) -> bytes:
    returns(bytes([0x5A, frame_type.tag]) + len(data).to_bytes(2, "little") + ref_crc(frame_type.tag, data).to_bytes(2, "little") + data,
            label="5A-type-len-crc-payload")
    pure()
    sample_with(lambda rnd: {"self": object.__new__(MbootSerialProtocol), "data": bytes(rnd.getrandbits(8) for _ in range(rnd.choice([0, 1, 4, 32]))),
                             "frame_type": rnd.choice([FPType.CMD, FPType.DATA])})


@assumed("spsdk.mboot.protocol.serial_protocol:MbootSerialProtocol._wait_for_data", reason="wall-clock loop (Timeout); modelled as: deliver the next byte of dev.rx or give up")
def _(self: PROTO) -> int:
    may_raise(McuBootConnectionError)
    ensures(0 <= result and result <= 255)


@assumed("spsdk.mboot.commands:parse_cmd_response", reason="response decoding is a separate unit (not under contract here)")
def _(data: Union[bytes, bytearray], offset: Opaque()) -> Const("<parsed response>"):
    pure()


@contract("spsdk.mboot.protocol.serial_protocol:MbootSerialProtocol.read", replay=False)
def _(self: PROTO, length: Const(None)) -> Opaque():
    may_raise(McuBootConnectionError)
    may_raise(McuBootDataAbortError)
    may_raise(SPSDKConnectionError)
    # a normal return hands out a payload only if the frame is well formed and its CRC matches — for CMD and for DATA frames alike
    ensures(implies(typed(result, bytes), result == self.device.rx[self.device.pos - len(result): self.device.pos]
                    and int.from_bytes(self.device.rx[self.device.pos - len(result) - 4: self.device.pos - len(result) - 2], "little") == len(result)
                    and len(result) > 0 and self.device.pos >= len(result) + 4), label="payload-is-the-frame-payload-of-declared-length")
    # (the start byte is consumed by _wait_for_data, outside dev.rx here; in the "ACK and start byte swapped" workaround the type byte is
    #  the header itself, 0xA1, and the stream is one byte shorter)
    ensures(implies(typed(result, bytes), int.from_bytes(self.device.rx[self.device.pos - len(result) - 2: self.device.pos - len(result)], "little")
                    == ref_crc(self.device.rx[0] if self.device.pos == len(result) + 5 else 0xA1, result)), label="returned-only-if-the-crc-matches")
    ensures(self.device.tx[len(self.device.tx) - 2:] == bytes([0x5A, 0xA1]), label="frame-was-acknowledged")
    modifies(self.device)
