"""C14 — bootable image: where each segment lands (spsdk/image/bootable_image/bimg.py: get_segment_offset).

Spec place(): a static segment sits at its database offset; a floating segment (negative database offset) at the end of its
predecessor aligned up to the FLOATING segment's own alignment; all relative to the initial offset.  Segments are abstract (offset rule,
alignment, length); layouts of three segments with the middle or last one floating are instantiated, all numbers symbolic.
"""
from vf.api import *  # noqa
from spsdk.exceptions import SPSDKError
from spsdk.image.bootable_image.bimg import BootableImage
from specs.bimg import AbsSeg


def SEG(static):
    return Obj(AbsSeg, full_image_offset=Range(0, 1 << 30) if static else Range(-4, -1), OFFSET_ALIGNMENT=OneOf(1, 4, 1024), _len=Range(0, 1 << 24),
               excluded=Const(False))


def BI(kinds):
    return Obj(BootableImage, _segments=ListOf(Opaque(), 0), _init_offset=Range(0, 1 << 20), **{"_s%d" % i: SEG(k) for i, k in enumerate(kinds)})


def align_up(n, a):
    return (n + a - 1) // a * a


def _mk(rnd):
    segs = [AbsSeg(rnd.randrange(0, 4) * 0x400, rnd.choice([1, 4, 1024]), rnd.randrange(0, 5000)),
            AbsSeg(-1, rnd.choice([1, 4, 1024]), rnd.randrange(0, 5000)),
            AbsSeg(-1 if rnd.random() < 0.5 else 0x10000, rnd.choice([1, 4, 1024]), rnd.randrange(0, 5000))]
    b = object.__new__(BootableImage)
    b._segments, b._init_offset = segs, rnd.choice([0, 0, 0x400])
    return {"self": b, "segment": rnd.choice(segs)}


S3 = Obj(BootableImage, _segments=ListOf(Union[SEG(True), SEG(False)], 3), _init_offset=Range(0, 1 << 20))


def place(segs, i):
    """Absolute position of segment i by the rule of the property (recursion on list position)."""
    if segs[i].full_image_offset >= 0:
        return segs[i].full_image_offset
    return align_up(place(segs, i - 1) + segs[i - 1]._len, segs[i].OFFSET_ALIGNMENT)


@contract("spsdk.image.bootable_image.bimg:BootableImage.get_segment_offset", split=4)
def _(self: S3, segment: Alias("self._segments[2]")) -> int:
    requires(self._segments[0].full_image_offset >= 0)           # every layout of the database starts with a static segment (data obligation, bounded)
    returns(place(self._segments, 2) - self._init_offset, label="static-offset-or-aligned-end-of-predecessor")
    pure()
    sample_with(lambda rnd: dict(_mk(rnd), segment=None) and (lambda d: dict(d, segment=d["self"]._segments[2]))(_mk(rnd)))




# ---- images that start at a later initial offset: which segments are part of the image, and where the image starts -----------------------
from spsdk.exceptions import SPSDKValueError  # noqa: E402

inline("spsdk.image.bootable_image.bimg:BootableImage.init_offset")
SEGX = Obj(AbsSeg, full_image_offset=Union[Range(0, 1 << 30), Range(-4, -1)], OFFSET_ALIGNMENT=OneOf(1, 1024), _len=Range(0, 1 << 24), excluded=bool)
S3X = Obj(BootableImage, _segments=ListOf(SEGX, 3), _init_offset=Range(0, 1 << 30))


def _mk_x(rnd):
    d = _mk(rnd)
    for s in d["self"]._segments:
        s.excluded = rnd.random() < 0.5
    return d["self"]


@contract("spsdk.image.bootable_image.bimg:BootableImage._update_segments")
def _(self: S3X):
    # a segment is left out exactly when it has a fixed offset in front of the initial offset; a floating segment is never left out by this rule
    ensures(all(s.excluded == (s.full_image_offset >= 0 and s.full_image_offset < self._init_offset) for s in self._segments),
            label="excluded-iff-static-and-before-the-initial-offset")
    modifies(self._segments[0].excluded, self._segments[1].excluded, self._segments[2].excluded)
    sample_with(lambda rnd: {"self": _mk_x(rnd)})


@contract("spsdk.image.bootable_image.bimg:BootableImage.init_offset@setter", replay=False)
def _(self: S3X, offset: int):
    # the image starts at the first fixed segment offset at or behind the requested one - never at a negative (floating) "offset"
    raises(SPSDKValueError, offset < 0 or (offset > 0 and not any(s.full_image_offset >= offset for s in self._segments)), label="negative-or-behind-the-last-fixed-segment")
    ensures(self._init_offset >= 0 and self._init_offset >= offset, label="never-negative-never-before-the-request")
    ensures(offset == 0 or any(s.full_image_offset == self._init_offset for s in self._segments), label="at-a-fixed-segment-offset")
    ensures(all(not (offset <= s.full_image_offset and s.full_image_offset < self._init_offset) for s in self._segments), label="the-closest-one")
    modifies(self._init_offset, self._segments[0].excluded, self._segments[1].excluded, self._segments[2].excluded)


# ---- the base segment parser: a fixed-size segment keeps exactly its SIZE bytes, a variable-size one (SIZE = -1: SB2.1 / SB3.1 containers)
#      keeps every byte it was given; a block of the erased / zero pattern means "not present" ----------------------------------------------
from spsdk.exceptions import SPSDKParsingError  # noqa: E402
from spsdk.image.bootable_image.segments import (Segment, SegmentBeeHeader0, SegmentKeyBlob, SegmentKeyStore, SegmentSB21, SegmentSB31,  # noqa: E402
                                                 SPSDKSegmentNotPresent)
from spsdk.image.mem_type import MemoryType  # noqa: E402

inline("spsdk.image.bootable_image.segments:Segment._is_padding")
concrete_ok("spsdk.utils.misc:BinaryPattern")


def _SEGOBJ(cls):
    return Obj(cls, raw_block=Optional[Bytes(lo=0, hi=64)], not_parsed=bool)


def _mk_seg(rnd):
    cls = rnd.choice([SegmentKeyBlob, SegmentKeyStore, SegmentBeeHeader0, SegmentSB21, SegmentSB31])
    size = cls.SIZE if cls.SIZE > 0 else rnd.choice([1, 97, 3808])
    kind = rnd.randrange(5)
    blob = (bytes(size + 40) if kind == 0 else b"\xff" * (size + 40) if kind == 1 else bytes(rnd.getrandbits(8) for _ in range(size + rnd.choice([0, 1, 40]))) if kind < 4
            else bytes(rnd.getrandbits(8) for _ in range(max(size - 1, 0))))
    return {"self": cls(0, "mimxrt595s" if cls is SegmentSB21 else "lpc55s3x", MemoryType.FLEXSPI_NOR), "binary": blob}


@contract("spsdk.image.bootable_image.segments:Segment.parse_binary")
def _(self: Union[_SEGOBJ(SegmentKeyBlob), _SEGOBJ(SegmentKeyStore), _SEGOBJ(SegmentBeeHeader0), _SEGOBJ(SegmentSB21), _SEGOBJ(SegmentSB31)], binary: Bytes(lo=0, hi=1 << 24)):
    let(size=type(self).SIZE)
    let(fixed=size > 0)
    raises(SPSDKParsingError, fixed and len(binary) < size, label="too-short-for-a-fixed-size-segment")
    raises(SPSDKSegmentNotPresent, fixed and len(binary) >= size and (forall(0, size, lambda k: binary[k] == 0) or forall(0, size, lambda k: binary[k] == 255)),
           label="only-padding-means-not-present")
    ensures(self.raw_block == (binary[:size] if fixed else binary), label="fixed-size-keeps-size-bytes-variable-size-keeps-every-byte")
    ensures(not self.not_parsed, label="marked-parsed")
    modifies(self.raw_block, self.not_parsed)
    sample_with(lambda rnd: _mk_seg(rnd))


# ---- length of the image and of the boot header: where the last present segment ends / where the application starts -----------------------------------
inline("spsdk.image.bootable_image.bimg:BootableImage.segments", "spsdk.image.bootable_image.segments:Segment.is_present", "specs.bimg:AbsSeg.export",
       "specs.bimg:AbsSeg.__len__")


def SEGP(static, present):
    return Obj(AbsSeg, full_image_offset=Range(0, 1 << 30) if static else Range(-4, -1), OFFSET_ALIGNMENT=OneOf(1, 4, 1024), _len=Range(1, 1 << 24) if present else Range(0, 1 << 24),
               excluded=Const(False), BOOT_HEADER=bool)


S3L = Obj(BootableImage, _segments=ListOf(Union[SEGP(True, True), SEGP(False, True)], 3), _init_offset=Range(0, 1 << 20))


def _mk_len(rnd):
    d = _mk(rnd)
    for s in d["self"]._segments:
        s._len = max(s._len, 1)
        s.BOOT_HEADER = rnd.random() < 0.5
    return {"self": d["self"]}


@contract("spsdk.image.bootable_image.bimg:BootableImage.__len__", split=3)
def _(self: S3L) -> int:
    # three present segments (the last one fixed or floating): the image ends where the last segment ends
    requires(self._segments[0].full_image_offset >= 0)
    returns(place(self._segments, 2) - self._init_offset + self._segments[2]._len, label="end-of-the-last-segment")
    pure()
    sample_with(lambda rnd: _mk_len(rnd))
