"""C14 — bootable image: where each segment lands (spsdk/image/bootable_image/bimg.py: get_segment_offset).

Spec place(): a static segment sits at its database offset; a floating segment (negative database offset) at the end of its
predecessor aligned up to the FLOATING segment's own alignment; all relative to the initial offset.  Segments are abstract (offset rule,
alignment, length); layouts of three segments with the middle or last one floating are instantiated, all numbers symbolic.
"""
from vf.api import *  # noqa
from spsdk.exceptions import SPSDKError
from spsdk.image.bootable_image.bimg import BootableImage
from specs.bimg import AbsSeg


def SEG(static):
    return Obj(AbsSeg, full_image_offset=Range(0, 1 << 30) if static else Range(-4, -1), OFFSET_ALIGNMENT=OneOf(1, 4, 1024), _len=Range(0, 1 << 24),
               excluded=Const(False))


def BI(kinds):
    return Obj(BootableImage, _segments=ListOf(Opaque(), 0), _init_offset=Range(0, 1 << 20), **{"_s%d" % i: SEG(k) for i, k in enumerate(kinds)})


def align_up(n, a):
    return (n + a - 1) // a * a


def _mk(rnd):
    segs = [AbsSeg(rnd.randrange(0, 4) * 0x400, rnd.choice([1, 4, 1024]), rnd.randrange(0, 5000)),
            AbsSeg(-1, rnd.choice([1, 4, 1024]), rnd.randrange(0, 5000)),
            AbsSeg(-1 if rnd.random() < 0.5 else 0x10000, rnd.choice([1, 4, 1024]), rnd.randrange(0, 5000))]
    b = object.__new__(BootableImage)
    b._segments, b._init_offset = segs, rnd.choice([0, 0, 0x400])
    return {"self": b, "segment": rnd.choice(segs)}


S3 = Obj(BootableImage, _segments=ListOf(Union[SEG(True), SEG(False)], 3), _init_offset=Range(0, 1 << 20))


def place(segs, i):
    """Absolute position of segment i by the rule of the property (recursion on list position)."""
    if segs[i].full_image_offset >= 0:
        return segs[i].full_image_offset
    return align_up(place(segs, i - 1) + segs[i - 1]._len, segs[i].OFFSET_ALIGNMENT)


@contract("spsdk.image.bootable_image.bimg:BootableImage.get_segment_offset", split=4)
def _(self: S3, segment: Alias("self._segments[2]")) -> int:
    requires(self._segments[0].full_image_offset >= 0)           # every layout of the database starts with a static segment (data obligation, bounded)
    returns(place(self._segments, 2) - self._init_offset, label="static-offset-or-aligned-end-of-predecessor")
    pure()
    sample_with(lambda rnd: dict(_mk(rnd), segment=None) and (lambda d: dict(d, segment=d["self"]._segments[2]))(_mk(rnd)))


