"""C14 — bootable image: where each segment lands (spsdk/image/bootable_image/bimg.py: get_segment_offset).

Spec place(): a static segment sits at its database offset; a floating segment (negative database offset) at the end of its
predecessor aligned up to the FLOATING segment's own alignment; all relative to the initial offset.  Segments are abstract (offset rule,
alignment, length); layouts of three segments with the middle or last one floating are instantiated, all numbers symbolic.
"""
from vf.api import *  # noqa
from spsdk.exceptions import SPSDKError
from spsdk.image.bootable_image.bimg import BootableImage
from specs.bimg import AbsSeg


def SEG(static):
    return Obj(AbsSeg, full_image_offset=Range(0, 1 << 30) if static else Range(-4, -1), OFFSET_ALIGNMENT=OneOf(1, 4, 1024), _len=Range(0, 1 << 24),
               excluded=Const(False))


def BI(kinds):
    return Obj(BootableImage, _segments=ListOf(Opaque(), 0), _init_offset=Range(0, 1 << 20), **{"_s%d" % i: SEG(k) for i, k in enumerate(kinds)})


def align_up(n, a):
    return (n + a - 1) // a * a


def _mk(rnd):
    segs = [AbsSeg(rnd.randrange(0, 4) * 0x400, rnd.choice([1, 4, 1024]), rnd.randrange(0, 5000)),
            AbsSeg(-1, rnd.choice([1, 4, 1024]), rnd.randrange(0, 5000)),
            AbsSeg(-1 if rnd.random() < 0.5 else 0x10000, rnd.choice([1, 4, 1024]), rnd.randrange(0, 5000))]
    b = object.__new__(BootableImage)
    b._segments, b._init_offset = segs, rnd.choice([0, 0, 0x400])
    return {"self": b, "segment": rnd.choice(segs)}


S3 = Obj(BootableImage, _segments=ListOf(Union[SEG(True), SEG(False)], 3), _init_offset=Range(0, 1 << 20))


def place(segs, i):
    """Absolute position of segment i by the rule of the property (recursion on list position)."""
    if segs[i].full_image_offset >= 0:
        return segs[i].full_image_offset
    return align_up(place(segs, i - 1) + segs[i - 1]._len, segs[i].OFFSET_ALIGNMENT)


@contract("spsdk.image.bootable_image.bimg:BootableImage.get_segment_offset", split=4)
def _(self: S3, segment: Alias("self._segments[2]")) -> int:
    requires(self._segments[0].full_image_offset >= 0)           # every layout of the database starts with a static segment (data obligation, bounded)
    returns(place(self._segments, 2) - self._init_offset, label="static-offset-or-aligned-end-of-predecessor")
    pure()
    sample_with(lambda rnd: dict(_mk(rnd), segment=None) and (lambda d: dict(d, segment=d["self"]._segments[2]))(_mk(rnd)))




# ---- images that start at a later initial offset: which segments are part of the image, and where the image starts -----------------------
from spsdk.exceptions import SPSDKValueError  # noqa: E402

inline("spsdk.image.bootable_image.bimg:BootableImage.init_offset")
SEGX = Obj(AbsSeg, full_image_offset=Union[Range(0, 1 << 30), Range(-4, -1)], OFFSET_ALIGNMENT=OneOf(1, 1024), _len=Range(0, 1 << 24), excluded=bool)
S3X = Obj(BootableImage, _segments=ListOf(SEGX, 3), _init_offset=Range(0, 1 << 30))


def _mk_x(rnd):
    d = _mk(rnd)
    for s in d["self"]._segments:
        s.excluded = rnd.random() < 0.5
    return d["self"]


@contract("spsdk.image.bootable_image.bimg:BootableImage._update_segments")
def _(self: S3X):
    # a segment is left out exactly when it has a fixed offset in front of the initial offset; a floating segment is never left out by this rule
    ensures(all(s.excluded == (s.full_image_offset >= 0 and s.full_image_offset < self._init_offset) for s in self._segments),
            label="excluded-iff-static-and-before-the-initial-offset")
    modifies(self._segments[0].excluded, self._segments[1].excluded, self._segments[2].excluded)
    sample_with(lambda rnd: {"self": _mk_x(rnd)})


@contract("spsdk.image.bootable_image.bimg:BootableImage.init_offset@setter", replay=False)
def _(self: S3X, offset: int):
    # the image starts at the first fixed segment offset at or behind the requested one - never at a negative (floating) "offset"
    raises(SPSDKValueError, offset < 0 or (offset > 0 and not any(s.full_image_offset >= offset for s in self._segments)), label="negative-or-behind-the-last-fixed-segment")
    ensures(self._init_offset >= 0 and self._init_offset >= offset, label="never-negative-never-before-the-request")
    ensures(offset == 0 or any(s.full_image_offset == self._init_offset for s in self._segments), label="at-a-fixed-segment-offset")
    ensures(all(not (offset <= s.full_image_offset and s.full_image_offset < self._init_offset) for s in self._segments), label="the-closest-one")
    modifies(self._init_offset, self._segments[0].excluded, self._segments[1].excluded, self._segments[2].excluded)
