"""C08 — SPSDK's own part of key / signature serialisation: raw (NXP) ECDSA signature format (spsdk/crypto/keys.py: ECDSASignature).

The cryptographic half of the property (a signature verifies under the matching key and not otherwise; PEM/DER key round trips; an
independent implementation agrees) is a statement about `cryptography`/OpenSSL and hardness assumptions: no contract within reach decides it
(A-crypto-fun, A-crypto-sec, A-pki) — bounded exercise only.  Decided here: fixed-width r||s export and its inverse for all r, s.
"""
from vf.api import *  # noqa
from spsdk.crypto.crypto_types import SPSDKEncoding
from spsdk.crypto.keys import ECDSASignature, EccCurve
from spsdk.exceptions import SPSDKValueError

inline("spsdk.crypto.keys:ECDSASignature.__init__", "spsdk.crypto.keys:ECDSASignature.parse", "spsdk.crypto.keys:ECDSASignature.get_encoding",
       "spsdk.crypto.keys:ECDSASignature.get_ecc_curve")
CS = {EccCurve.SECP256R1: 32, EccCurve.SECP384R1: 48, EccCurve.SECP521R1: 66}


def SIG(curve):
    return Obj(ECDSASignature, r=Range(0, (1 << (8 * CS[curve])) - 1), s=Range(0, (1 << (8 * CS[curve])) - 1), ecc_curve=Const(curve))


@contract("spsdk.crypto.keys:ECDSASignature.export")
def _(self: Union[SIG(EccCurve.SECP256R1), SIG(EccCurve.SECP384R1), SIG(EccCurve.SECP521R1)], encoding: Const(SPSDKEncoding.NXP)) -> bytes:
    let(cs=CS[self.ecc_curve])
    returns(self.r.to_bytes(cs, "big") + self.s.to_bytes(cs, "big"), label="fixed-width-r-then-s")
    ensures(len(result) == 2 * cs, label="twice-the-coordinate-size")
    pure()
    sample_with(lambda rnd: (lambda c: {"self": ECDSASignature(rnd.getrandbits(8 * CS[c] - rnd.choice([0, 8, 20])), rnd.getrandbits(8 * CS[c]), c),
                                       "encoding": SPSDKEncoding.NXP})(rnd.choice(list(CS))))


@lemma("raw-signature-round-trips-for-all-r-and-s-including-leading-zero-bytes")
def _(curve: OneOf(EccCurve.SECP256R1, EccCurve.SECP384R1, EccCurve.SECP521R1), r: Nat, s: Nat):
    requires(r < 2 ** (8 * CS[curve]) and s < 2 ** (8 * CS[curve]))
    let(back=ECDSASignature.parse(ECDSASignature(r, s, curve).export(SPSDKEncoding.NXP)))
    ensures(back.r == r and back.s == s and back.ecc_curve == curve, label="parse-of-export-is-identity")
