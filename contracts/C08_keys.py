"""C08 — SPSDK's own part of key / signature serialisation: raw (NXP) ECDSA signature format (spsdk/crypto/keys.py: ECDSASignature).

The cryptographic half of the property (a signature verifies under the matching key and not otherwise; PEM/DER key round trips; an
independent implementation agrees) is a statement about `cryptography`/OpenSSL and hardness assumptions: no contract within reach decides it
(A-crypto-fun, A-crypto-sec, A-pki) — bounded exercise only.  Decided here: fixed-width r||s export and its inverse for all r, s.
"""
from vf.api import *  # noqa
from spsdk.crypto.crypto_types import SPSDKEncoding
from spsdk.crypto.keys import ECDSASignature, EccCurve
from spsdk.exceptions import SPSDKValueError

inline("spsdk.crypto.keys:PublicKeyRsa.recreate_public_numbers", "spsdk.crypto.keys:ECDSASignature.__init__", "spsdk.crypto.keys:ECDSASignature.parse", "spsdk.crypto.keys:ECDSASignature.get_encoding",
       "spsdk.crypto.keys:ECDSASignature.get_ecc_curve")
CS = {EccCurve.SECP256R1: 32, EccCurve.SECP384R1: 48, EccCurve.SECP521R1: 66}


def SIG(curve):
    return Obj(ECDSASignature, r=Range(0, (1 << (8 * CS[curve])) - 1), s=Range(0, (1 << (8 * CS[curve])) - 1), ecc_curve=Const(curve))


@contract("spsdk.crypto.keys:ECDSASignature.export")
def _(self: Union[SIG(EccCurve.SECP256R1), SIG(EccCurve.SECP384R1), SIG(EccCurve.SECP521R1)], encoding: Const(SPSDKEncoding.NXP)) -> bytes:
    let(cs=CS[self.ecc_curve])
    returns(self.r.to_bytes(cs, "big") + self.s.to_bytes(cs, "big"), label="fixed-width-r-then-s")
    ensures(len(result) == 2 * cs, label="twice-the-coordinate-size")
    pure()
    sample_with(lambda rnd: (lambda c: {"self": ECDSASignature(rnd.getrandbits(8 * CS[c] - rnd.choice([0, 8, 20])), rnd.getrandbits(8 * CS[c]), c),
                                       "encoding": SPSDKEncoding.NXP})(rnd.choice(list(CS))))


@lemma("raw-signature-round-trips-for-all-r-and-s-including-leading-zero-bytes")
def _(curve: OneOf(EccCurve.SECP256R1, EccCurve.SECP384R1, EccCurve.SECP521R1), r: Nat, s: Nat):
    requires(r < 2 ** (8 * CS[curve]) and s < 2 ** (8 * CS[curve]))
    let(back=ECDSASignature.parse(ECDSASignature(r, s, curve).export(SPSDKEncoding.NXP)))
    ensures(back.r == r and back.s == s and back.ecc_curve == curve, label="parse-of-export-is-identity")


# ---- raw (NXP) public keys: fixed-width X || Y, modulus || exponent, and the way back --------------------------------------------
from spsdk.crypto.keys import PublicKeyEcc, PublicKeyRsa, SPSDKUnsupportedEccCurve  # noqa: E402
from spsdk.exceptions import SPSDKError  # noqa: E402

concrete_ok("spsdk.crypto.keys:KeyEccCommon._get_ec_curve_object")
KS = {EccCurve.SECP256R1: 256, EccCurve.SECP384R1: 384, EccCurve.SECP521R1: 521}


def ECCPUB(curve):
    cs = CS[curve]
    return Obj(PublicKeyEcc, x=Range(0, (1 << KS[curve]) - 1), y=Range(0, (1 << KS[curve]) - 1), coordinate_size=Const(cs), curve=Const(curve))


@contract("spsdk.crypto.keys:PublicKeyEcc.export")
def _(self: Union[ECCPUB(EccCurve.SECP256R1), ECCPUB(EccCurve.SECP384R1), ECCPUB(EccCurve.SECP521R1)], encoding: Const(SPSDKEncoding.NXP)) -> bytes:
    returns(self.x.to_bytes(self.coordinate_size, "big") + self.y.to_bytes(self.coordinate_size, "big"), label="fixed-width-x-then-y")
    ensures(len(result) == 2 * self.coordinate_size, label="twice-the-coordinate-size")
    pure()
    sample_with(lambda rnd: {"self": _ecc_pub(rnd), "encoding": SPSDKEncoding.NXP})


def _ecc_pub(rnd):
    from spsdk.crypto.keys import PrivateKeyEcc

    return PrivateKeyEcc.generate_key(rnd.choice(list(CS))).get_public_key()


@assumed("spsdk.crypto.keys:PublicKeyEcc.recreate", reason="builds the cryptography key object from the point (A-pki); stands for: a key with exactly these "
         "coordinates on this curve (cryptography rejects points that are not on the curve: SPSDKValueError)")
def _(cls: Const(PublicKeyEcc), coor_x: int, coor_y: int, curve: OneOf(EccCurve.SECP256R1, EccCurve.SECP384R1, EccCurve.SECP521R1)
      ) -> Obj(PublicKeyEcc, x=int, y=int, curve=EccCurve, coordinate_size=int):
    may_raise(SPSDKValueError)
    ensures(result.x == coor_x and result.y == coor_y and result.curve == curve)
    pure()


@contract("spsdk.crypto.keys:PublicKeyEcc.recreate_from_data", replay=False)
def _(cls: Const(PublicKeyEcc), data: Union[Bytes(64), Bytes(96), Bytes(132)], curve: OneOf(None, EccCurve.SECP256R1, EccCurve.SECP384R1, EccCurve.SECP521R1)
      ) -> Opaque():
    # raw X || Y of each supported curve: the curve is the one whose coordinate size is half the length, the halves are the coordinates
    may_raise(SPSDKValueError)
    let(cs=len(data) // 2)
    raises(SPSDKUnsupportedEccCurve, curve is not None and CS[curve] != cs, label="explicit-curve-must-match-the-length")
    ensures(result.x == int.from_bytes(data[:cs], "big") and result.y == int.from_bytes(data[cs:], "big"), label="halves-are-the-coordinates")
    ensures(CS[result.curve] == cs, label="curve-picked-from-the-length")
    pure()


@lemma("raw-ecc-public-key-round-trips-for-all-coordinates-including-leading-zero-bytes")
def _(curve: OneOf(EccCurve.SECP256R1, EccCurve.SECP384R1, EccCurve.SECP521R1), x: Nat, y: Nat):
    requires(x < 2 ** (8 * CS[curve]) and y < 2 ** (8 * CS[curve]))
    let(raw=x.to_bytes(CS[curve], "big") + y.to_bytes(CS[curve], "big"), cs=CS[curve])
    ensures(int.from_bytes(raw[:cs], "big") == x and int.from_bytes(raw[cs:], "big") == y and len(raw) == 2 * cs, label="halves-decode-to-the-coordinates")


def RSAPUB(bits):
    return Obj(PublicKeyRsa, e=Const(65537), n=Range(1 << (bits - 1), (1 << bits) - 1))


@contract("spsdk.crypto.keys:PublicKeyRsa.export")
def _(self: Union[RSAPUB(2048), RSAPUB(3072), RSAPUB(4096)], encoding: Const(SPSDKEncoding.NXP), exp_length: OneOf(None, 3, 4), modulus_length: Const(None)) -> bytes:
    let(nlen=256 if self.n < 2 ** 2048 else 384 if self.n < 2 ** 3072 else 512)
    returns(self.n.to_bytes(nlen, "big") + (65537).to_bytes(exp_length if exp_length is not None else 3, "big"), label="modulus-then-exponent-minimal-widths")
    pure()
    sample_with(lambda rnd: {"self": _rsa_pub(rnd), "encoding": SPSDKEncoding.NXP, "exp_length": rnd.choice([None, 3, 4]), "modulus_length": None})


_RSA_CACHE = {}


def _rsa_pub(rnd):
    from spsdk.crypto.keys import PrivateKeyRsa

    bits = rnd.choice([2048, 2048, 3072])
    if bits not in _RSA_CACHE:
        _RSA_CACHE[bits] = PrivateKeyRsa.generate_key(bits).get_public_key()
    return _RSA_CACHE[bits]


@contract("spsdk.crypto.keys:PublicKeyRsa.recreate_public_numbers", replay=False)
def _(data: Union[Bytes(259), Bytes(260), Bytes(387), Bytes(388), Bytes(515), Bytes(516), Bytes(258), Bytes(300)]) -> Opaque():
    # modulus || exponent with a 3- or 4-byte exponent, for each supported key size; every other length is rejected
    let(ks=256 if len(data) < 300 else 384 if len(data) < 400 else 512)
    raises(SPSDKError, len(data) != ks + 3 and len(data) != ks + 4, label="other-lengths-are-rejected")
    ensures(result.n == int.from_bytes(data[:ks], "big") and result.e == int.from_bytes(data[ks:], "big"), label="modulus-is-the-first-key-size-bytes")
    pure()


@lemma("raw-rsa-public-key-round-trips")
def _(bits: OneOf(2048, 3072, 4096), n: Nat, elen: OneOf(3, 4)):
    requires(n >= 2 ** (bits - 1) and n < 2 ** bits)
    let(raw=n.to_bytes(bits // 8, "big") + (65537).to_bytes(elen, "big"))
    let(back=PublicKeyRsa.recreate_public_numbers(raw))
    ensures(back.n == n and back.e == 65537, label="modulus-and-exponent-come-back")
