"""C02 — MBI: what the ROM authenticates / decrypts is what SPSDK signed, MACed and encrypted (core of mbi_mixin.py).

Spec (ROM side, primitives uninterpreted): HMAC key = AES-ECB(user key, 0^16); image encryption key = AES-ECB(user key, 01 0^15 02 0^15)
unless the key comes from a KEYSTORE key store; AES-CTR with the stored IV; RSA signature over exactly the bytes that precede it.
"""
from vf.api import *  # noqa
from spsdk.exceptions import SPSDKError
from spsdk.image.keystore import KeySourceType, KeyStore
from spsdk.image.mbi.mbi_mixin import (Mbi_ExportMixinAppTrustZoneCertBlockEncrypt, Mbi_ExportMixinRsaSign, Mbi_MixinHmac)
from spsdk.utils.images import BinaryImage
from specs.crypto import AES_CTR, AES_ECB_E, HMAC

ABS_IMG = Obj(BinaryImage, offset=int, _g_len=Nat, _g_bytes=bytes, _g_invalid=Const(False), name=Const("child"))
inline("spsdk.image.mbi.mbi_mixin:Mbi_MixinCtrInitVector.ctr_init_vector", "spsdk.utils.images:BinaryImage.__init__")


@contract("spsdk.image.mbi.mbi_mixin:Mbi_MixinHmac.compute_hmac")
def _(self: Obj(Mbi_MixinHmac, hmac_key=Optional[Bytes(32)], HMAC_SIZE=Const(32)), data: bytes) -> bytes:
    returns(b"" if self.hmac_key is None else HMAC("sha256", AES_ECB_E(self.hmac_key, bytes(16)), data), label="hmac-sha256-under-the-derived-key")
    pure()
    sample_with(lambda rnd: {"self": _mk(Mbi_MixinHmac, hmac_key=rnd.choice([None, bytes(range(32))]), HMAC_SIZE=32), "data": bytes(rnd.getrandbits(8) for _ in range(64))})


def _mk(cls, **f):
    o = object.__new__(cls)
    for k, v in f.items():
        object.__setattr__(o, k, v)
    return o


class EncComposition(Mbi_ExportMixinAppTrustZoneCertBlockEncrypt):
    """Stand-alone composition: the encrypt step needs hmac_key, ctr_init_vector and key_store only."""
    ctr_init_vector = None


KSRC = Optional[Obj(KeyStore, _key_source=OneOf(KeySourceType.OTP, KeySourceType.KEYSTORE), _key_store=Optional[Bytes(1424)])]
inline("spsdk.image.keystore:KeyStore.key_source")


def rom_image_key(user_key, key_store):
    """Key the ROM uses for the image: derived from the user key unless a KEYSTORE key store provides it."""
    from_keystore = key_store is not None and key_store._key_source == KeySourceType.KEYSTORE
    return user_key if from_keystore else AES_ECB_E(user_key, b"\x01" + bytes(15) + b"\x02" + bytes(15))


@contract("spsdk.image.mbi.mbi_mixin:Mbi_ExportMixinAppTrustZoneCertBlockEncrypt.encrypt")
def _(self: Obj(EncComposition, hmac_key=Bytes(32), ctr_init_vector=Bytes(16), key_store=KSRC), image: ABS_IMG, revert: OneOf(False, True)) -> Opaque():
    requires(len(image._g_bytes) == image._g_len)
    ensures(result.binary == AES_CTR(rom_image_key(self.hmac_key, self.key_store), self.ctr_init_vector, image._g_bytes),
            label="aes-ctr-under-the-key-the-rom-derives")
    pure()
    sample_with(lambda rnd: _sample_enc(rnd))


def _sample_enc(rnd):
    ks = rnd.choice([None, KeyStore(KeySourceType.OTP), KeyStore(KeySourceType.KEYSTORE), KeyStore(KeySourceType.KEYSTORE, bytes(1424))])
    o = _mk(EncComposition, hmac_key=bytes(rnd.getrandbits(8) for _ in range(32)), ctr_init_vector=bytes(rnd.getrandbits(8) for _ in range(16)), key_store=ks)
    data = bytes(rnd.getrandbits(8) for _ in range(rnd.choice([16, 64, 100])))
    img = BinaryImage("child", binary=data)
    for k, v in (("_g_len", len(data)), ("_g_bytes", data), ("_g_invalid", False)):
        object.__setattr__(img, k, v)
    return {"self": o, "image": img, "revert": rnd.random() < 0.5}


# ----------------------------------------------------------------------------------------------------------------------
# Certificate block v2.1 root key record: the flags announce the root that really signs (index, count, curve, CA)
# ----------------------------------------------------------------------------------------------------------------------
from spsdk.crypto.keys import PublicKeyEcc  # noqa: E402
from spsdk.utils.crypto.cert_blocks import RootKeyRecord  # noqa: E402


def RKR(n):
    return Obj(RootKeyRecord, ca_flag=OneOf(False, True), used_root_cert=Range(0, n - 1),
               root_certs=ListOf(Obj(PublicKeyEcc, curve=OneOf("secp256r1", "secp384r1")), n))


@contract("spsdk.utils.crypto.cert_blocks:RootKeyRecord._calculate_flags")
def _(self: Union[RKR(1), RKR(2), RKR(3), RKR(4)]) -> int:
    # bit 31 CA, bits 11..8 index of the root key whose public key the record carries, bits 7..4 number of root keys, bits 3..0 curve of root 0
    returns((2 ** 31 if self.ca_flag else 0) + self.used_root_cert * 256 + len(self.root_certs) * 16 + (1 if self.root_certs[0].curve == "secp256r1" else 2),
            label="ca-used-root-index-count-curve-in-their-fields")
    pure()
    sample_with(lambda rnd: {"self": _mk_rkr(rnd)})


def _mk_rkr(rnd):
    from spsdk.crypto.keys import EccCurve, PrivateKeyEcc

    n = rnd.randrange(1, 5)
    r = RootKeyRecord(ca_flag=rnd.random() < 0.5, root_certs=[], used_root_cert=rnd.randrange(n))
    c = rnd.choice([EccCurve.SECP256R1, EccCurve.SECP384R1])
    r.root_certs = [PrivateKeyEcc.generate_key(c).get_public_key() for _ in range(n)]
    return r


# ---- the IV that encrypts is the IV the image carries: every read of the property during one export sees the same 16 bytes ---------------------
from spsdk.image.mbi.mbi_mixin import Mbi_MixinCtrInitVector  # noqa: E402


@lemma("encrypt-step-and-iv-field-read-the-same-init-vector")
def _(m: Obj(Mbi_MixinCtrInitVector, _ctr_init_vector=Optional[Bytes(16)], _CTR_INIT_VECTOR_SIZE=Const(16))):
    # encrypt() reads the property for AES-CTR, post_encrypt() reads it again for the IV field in front of the encrypted data
    let(used=m.ctr_init_vector)
    let(stored=m.ctr_init_vector)
    ensures(len(used) == 16 and stored == used, label="one-init-vector-per-image-however-often-it-is-read")
