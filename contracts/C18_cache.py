"""C18 — database cache: no crash point or concurrent start can break or skew SPSDK (spsdk/utils/database.py).

What a contract can say (DESIGN 7 C18): (a) totality — under the assumed, adversarial behaviour of the environment (A-pickle:
`pickle.load` raises any of its documented/observed exceptions or returns any object; A-fs: `open`, `os.remove`, `os.makedirs` may fail,
`os.path.exists` answers anything, `FileLock` may time out) no exception escapes the cache loaders, i.e. for EVERY file content, which
subsumes every truncated prefix and whatever a racing writer leaves; (b) a loaded object is used only if it has the expected class and
its stored hash equals the hash recomputed from the live data, otherwise the answer equals the uncached one; (c) lock discipline —
a cache file is opened only while its lock is held (ghost permission).  Real interleavings / liveness are outside this family.
"""
from vf.api import *  # noqa
from spsdk.exceptions import SPSDKError
from spsdk.utils.database import Database, DatabaseManager, QuickDatabase


@assumed("spsdk.utils.database:DatabaseManager.get_restricted_data", reason="environment look-up")
def _() -> Opaque():
    pure()


@assumed("spsdk.utils.database:DatabaseManager.get_quick_info_hash", reason="hash of the live data folders (os.stat of the real files)")
def _(paths: Opaque()) -> Bytes(20):
    returns(ghost_const("live_data_hash", Bytes(20)))
    pure()


@assumed("spsdk.utils.database:get_spsdk_cache_dirname", reason="environment look-up")
def _() -> Const("/cache"):
    pure()


@assumed("spsdk.utils.database:DatabaseManager._get_quick_info_db_path", reason="path arithmetic on environment values")
def _(cls: Opaque()) -> Const("/cache/db_quick_info.cache"):
    pure()


@assumed("spsdk.utils.database:DatabaseManager.get_db", reason="the full load of the live database (the uncached oracle)")
def _(cls: Opaque(), complete_load: bool) -> Const("<live database>"):
    pure()


@assumed("spsdk.utils.database:QuickDatabase.create", reason="pure function of the live database")
def _(cls: Opaque(), database: Opaque()) -> Obj(QuickDatabase, db_hash=Const(b""), _from_live_data=Const(True)):
    pure()


@contract("spsdk.utils.database:DatabaseManager._get_quick_info_db", replay=False)  # counter-models are environment behaviours, not inputs
def _(cls: Const(DatabaseManager)) -> Opaque():
    # (a) totality: there is no raises clause, so every escaping exception fails a `noraise:<Exception>` obligation
    # (b) never trusted: whatever is returned carries the hash of the live data; it is either built from the live database
    #     or a cached object of the expected class whose stored hash equals the live hash
    ensures(typed(result, QuickDatabase), label="answer-is-a-quick-database")
    ensures(result.db_hash == ghost_const("live_data_hash", Bytes(20)), label="answer-matches-the-live-data-hash")


# ---- per-data-folder configuration cache ------------------------------------------------------------------------------------------
@assumed("spsdk.utils.database:Database.DatabaseData.get_cache_filename", reason="path arithmetic on environment values")
def _(path: Opaque()) -> Const("/cache/db_data.cache"):
    pure()


@assumed("spsdk.utils.database:Database.DatabaseData.hash_db_data", reason="hash of the live data files named by the cache (os.stat of the real files)")
def _(cached_configs: Opaque(), path: Opaque(), restricted_data_path: Opaque(), addons_data_path: Opaque()) -> Bytes(20):
    returns(ghost_const("live_cfg_hash", Bytes(20)))
    pure()


@assumed("spsdk.utils.misc:load_configuration", reason="YAML load of the live defaults file (the uncached oracle)")
def _(path: Opaque(), search_paths: Opaque()) -> Const("<live defaults>"):
    pure()


@contract("spsdk.utils.database:Database.DatabaseData.__init__", replay=False)
def _(self: Obj(Database.DatabaseData), path: Const("/data"), restricted_data_path: Const(None), addons_data_path: Const(None),
      complete_load: bool):
    # (a) totality: no raises clause.  (b) cached content is used only after validation against the live data:
    ensures(implies(self.defaults != "<live defaults>", self.db_hash == ghost_const("live_cfg_hash", Bytes(20))),
            label="cached-defaults-only-with-matching-live-hash")
    ensures(implies(len(self.cfg_cache) > 0 or self.defaults != "<live defaults>", self.db_hash == ghost_const("live_cfg_hash", Bytes(20))),
            label="cached-configs-only-with-matching-live-hash")
    ensures(self.db_hash == b"" or self.db_hash == ghost_const("live_cfg_hash", Bytes(20)), label="recorded-hash-is-empty-or-live")
    modifies(self.path, self.restricted_data_path, self.addons_data_path, self.db_hash, self.cfg_cache, self.defaults)
    sample_with(lambda rnd: {"self": object.__new__(Database.DatabaseData), "path": __import__("spsdk").SPSDK_DATA_FOLDER, "restricted_data_path": None,
                             "addons_data_path": None, "complete_load": rnd.random() < 0.5})


# ---- the fingerprint itself: EVERY file the cache answers for is part of it ----------------------------------------------------------------------
# hash_db_data is assumed above only as "some function of the live data" (ghost constant).  This lemma runs its real body (inline_here) over the ghost
# file system (A-fs: os.stat reports a fixed but unknown modification time and size per path): the digest is SHA-1 over, for every cached file in
# order, its name, its modification time and its size, then the data path(s), the defaults path and time and size of the defaults file(s) the cached
# defaults were read from - so an edit of ANY cached file or of the defaults changes the input
# of the digest (that the digest then differs is A-crypto-sec, not claimed).  1-3 cached files instantiated; times and sizes are arbitrary in their class.
from specs.crypto import HASH  # noqa: E402

FILES = OneOf((), ("/data/devices/x/database.yaml",), ("/data/devices/x/database.yaml", "/data/jsonschemas/sch_tz.yaml"),
              ("/data/devices/x/database.yaml", "/data/jsonschemas/sch_tz.yaml", "/data/common/general.yaml"))


def fingerprint_input(files, path, restricted, addons):
    out = b""
    for name in files:
        out = out + name.encode() + ghost_stat(name)[0].to_bytes(8, "big") + ghost_stat(name)[1].to_bytes(2, "big")
    out = out + path.encode()
    if restricted:
        out = out + restricted.encode()
    if addons:
        out = out + addons.encode()
    out = out + (path + "/common/database_defaults.yaml").encode()
    # the defaults the cache answers with come from these files: their state belongs to the fingerprint as well
    for folder in (path, restricted):
        if folder and ghost_exists(folder + "/common/database_defaults.yaml"):
            out = out + ghost_stat(folder + "/common/database_defaults.yaml")[0].to_bytes(8, "big") + ghost_stat(folder + "/common/database_defaults.yaml")[1].to_bytes(2, "big")
    return out


def fingerprint_or_none(files, restricted, addons):
    """The real function; None when a cached file cannot be examined (the caller then drops the cache)."""
    try:
        return Database.DatabaseData.hash_db_data(list(files), "/data", restricted, addons)
    except OSError:
        return None


@lemma("config-cache-fingerprint-covers-every-cached-file-its-time-and-size", inline_here=["spsdk.utils.database:Database.DatabaseData.hash_db_data"])
def _(files: FILES, restricted: OneOf(None, "/restricted"), addons: OneOf(None, "/addons")):
    let(e1=ghost_exists("/data/common/database_defaults.yaml"), e2=ghost_exists("/restricted/common/database_defaults.yaml"))
    let(h=fingerprint_or_none(files, restricted, addons))
    ensures(h is None or h == HASH("sha1", fingerprint_input(files, "/data", restricted, addons)), label="digest-over-name-mtime-size-of-every-file-then-the-paths")
    cover(h is not None)


# ---- the writer: whatever the file system and a racing process do, storing the cache never disturbs the caller, and the file is only touched under its lock ----
@contract("spsdk.utils.database:Database.DatabaseData.make_cache", replay=False)
def _(self: Obj(Database.DatabaseData, path=Const("/data"), restricted_data_path=Const(None), addons_data_path=Const(None), db_hash=Bytes(lo=0, hi=20),
                cfg_cache=Const({}), defaults=Const("<live defaults>"))):
    # (a) totality: no raises clause - every exception of open / pickle / os / FileLock stays inside.  (c) lock discipline: the FS model emits a
    # `lock-held@open(...)` obligation at every open of the cache file.  The recorded hash is the live one or empty (never a value that could
    # make a later reader trust a file that was not written completely by this call).
    ensures(self.db_hash == b"" or self.db_hash == ghost_const("live_cfg_hash", Bytes(20)) or self.db_hash == old(self.db_hash), label="recorded-hash-is-empty-live-or-unchanged")
    modifies(self.db_hash, self.cfg_cache)
