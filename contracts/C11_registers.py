"""C11 — registers and bit-fields behave as independent bit-vectors (spsdk/utils/registers.py).

Layouts: bit-field theorems are proved for *every* (offset, width) pair inside a 32-bit register (528 pairs, each a
separate instantiation with symbolic values) and for boundary pairs in 8/16/64-bit registers; grouped registers for 2 and 3
sub-registers of 32 bits in normal and reversed order; byte-reversed registers for 8/16/32/64 bits.  Symbolic-width
bit arithmetic is outside what z3 decides here (ITE/nonlinear pow2), hence the complete enumeration per layout instead.
"""
from vf.api import *  # noqa
from spsdk.exceptions import SPSDKError, SPSDKValueError
from spsdk.utils.misc import Endianness
from spsdk.utils.registers import ConfigProcessor, Register, RegsBitField, ShiftRightConfigProcessor, _RegistersBase

inline("spsdk.utils.registers:Register.has_group_registers", "spsdk.utils.registers:Register.get_alt_width", "spsdk.utils.registers:ConfigProcessor.pre_process",
       "spsdk.utils.registers:ConfigProcessor.post_process", "spsdk.utils.registers:ShiftRightConfigProcessor.pre_process",
       "spsdk.utils.registers:ShiftRightConfigProcessor.post_process")


def plain_reg(width):
    return Obj(Register, width=Const(width), _value=Range(0, (1 << width) - 1), reverse=Const(False), sub_regs=ListOf(Opaque(), 0),
               alt_widths=Const(None), base_endianness=Endianness, reverse_subregs_order=bool, name=Const("R"))


def rev_reg(width):
    return Obj(Register, width=Const(width), _value=Range(0, (1 << width) - 1), reverse=Const(True), sub_regs=ListOf(Opaque(), 0),
               alt_widths=Const(None), base_endianness=Endianness, reverse_subregs_order=bool, name=Const("R"))


def group_reg(k):
    return Obj(Register, width=Const(32 * k), _value=Const(0), reverse=Const(False), sub_regs=ListOf(plain_reg(32), k),
               alt_widths=Const(None), base_endianness=Endianness, reverse_subregs_order=bool, name=Const("G"))


def group_reg_alt(k, alt):
    """Grouped register with an alternative (shorter) width, e.g. a 384-bit ROTKH that may hold a 256-bit hash."""
    return Obj(Register, width=Const(32 * k), _value=Const(0), reverse=Const(False), sub_regs=ListOf(plain_reg(32), k),
               alt_widths=Const([alt]), base_endianness=Endianness, reverse_subregs_order=Const(False), name=Const("GA"))


ANY_REG = Union[plain_reg(8), plain_reg(16), plain_reg(32), plain_reg(64), rev_reg(8), rev_reg(16), rev_reg(24), rev_reg(32), rev_reg(48), rev_reg(64),
                group_reg(2), group_reg(3), group_reg_alt(4, 64)]


def byte_reverse(v, nbytes):
    return int.from_bytes(v.to_bytes(nbytes, "big"), "little")


def view(reg):
    """Abstract view: the raw value of the register as one bit-vector (groups: concatenation of the sub-registers)."""
    if len(reg.sub_regs) == 0:
        return reg._value
    k = len(reg.sub_regs)
    normal = 0
    reverse = 0
    for i in range(k):
        normal = normal + reg.sub_regs[i]._value * (2 ** (i * 32))
        reverse = reverse + reg.sub_regs[i]._value * (2 ** ((k - 1 - i) * 32))
    return reverse if reg.reverse_subregs_order else normal


@contract("spsdk.utils.registers:Register.get_value", split=3)
def _(self: ANY_REG, raw: OneOf(False, True)) -> int:
    returns(view(self) if raw or not self.reverse else byte_reverse(view(self), self.width // 8), label="value-of-view")
    ensures(0 <= result and result < 2 ** self.width, label="in-range")
    pure()
    sample_with(lambda rnd: _sample_reg(rnd, with_val=False))


@contract("spsdk.utils.registers:Register.set_value", split=3)
def _(self: ANY_REG, val: int, raw: OneOf(False, True)):
    raises(SPSDKError, val < 0 or val >= 2 ** self.width, label="rejected-not-truncated")
    ensures(implies(len(self.sub_regs) == 0, self._value == (val if raw or not self.reverse else byte_reverse(val, self.width // 8))),
            label="stored-plain")
    ensures(view(self) == (val if raw or not self.reverse else byte_reverse(val, self.width // 8)), label="stored")
    modifies(self._value, self.sub_regs[0]._value, self.sub_regs[1]._value, self.sub_regs[2]._value, self.sub_regs[3]._value)
    sample_with(lambda rnd: _sample_reg(rnd, with_val=True))


@lemma("reversed-register-reads-back-what-was-written")
def _(v: U32):
    ensures(byte_reverse(byte_reverse(v, 4), 4) == v)


def _mk_reg(rnd):
    kind = rnd.choice(["plain", "plain", "rev", "group"])
    if kind == "group":
        k = rnd.choice([2, 3])
        g = Register("G", 0, 32 * k, "g", reverse_subregs_order=rnd.random() < 0.5)
        g.width = 0
        for i in range(k):
            s = Register("R", 4 * i, 32, f"s{i}")
            s._value = rnd.getrandbits(32)
            g._add_group_reg(s)
        return g
    w = rnd.choice([8, 16, 24, 32, 48, 64])
    r = Register("R", 0, w, "r", reverse=(kind == "rev"), base_endianness=rnd.choice(list(Endianness)))
    r._value = rnd.getrandbits(w)
    return r


def _sample_reg(rnd, with_val):
    r = _mk_reg(rnd)
    d = {"self": r, "raw": rnd.random() < 0.5}
    if with_val:
        w = r.width
        d["val"] = rnd.choice([0, 1, (1 << w) - 1, 1 << w, -1, rnd.getrandbits(w), rnd.getrandbits(w + 2)])
    return d


# -------------------------------------------------------------------------------------------------------------------
# bit-fields: complete enumeration of (offset, width) in a 32-bit register, boundary pairs in 8/16/64-bit registers
# -------------------------------------------------------------------------------------------------------------------
PROC = Union[Obj(ConfigProcessor), Obj(ShiftRightConfigProcessor, count=OneOf(1, 8))]


def bitfield(width_reg, offsets, widths, rev=False):
    return Obj(RegsBitField, parent=rev_reg(width_reg) if rev else plain_reg(width_reg), offset=OneOf(*offsets), width=OneOf(*widths),
               config_processor=PROC)


import os

if os.environ.get("VERIF_TIER", "quick") == "thorough":
    BF32 = bitfield(32, range(32), range(1, 33))        # all 528 (offset, width) pairs
else:
    BF32 = bitfield(32, (0, 1, 7, 8, 15, 16, 24, 31), (1, 2, 7, 8, 9, 16, 24, 31, 32))   # boundary-rich subset (44 pairs)
BF_OTHER = Union[bitfield(8, (0, 3, 7), (1, 5, 8)), bitfield(16, (0, 8, 15), (1, 8, 16)), bitfield(64, (0, 31, 32, 63), (1, 32, 33, 64)),
                 bitfield(32, (0, 7, 8, 24), (1, 8, 9, 24), rev=True), bitfield(16, (0, 8), (3, 8), rev=True)]


def logical(reg, raw):
    """The view a field access works on: the raw value, or the byte-reversed one for reversed registers unless raw."""
    return reg._value if raw or not reg.reverse else byte_reverse(reg._value, reg.width // 8)


def field_of(x, off, width):
    return (x // 2 ** off) % 2 ** width


def pre(bf, v):
    return v // 2 ** bf.config_processor.count if typed(bf.config_processor, ShiftRightConfigProcessor) else v


def post(bf, v):
    return v * 2 ** bf.config_processor.count if typed(bf.config_processor, ShiftRightConfigProcessor) else v


def _sample_bf(rnd, with_val):
    w = rnd.choice([8, 16, 32, 32, 32, 64])
    r = Register("R", 0, w, "r", reverse=rnd.random() < 0.3)
    r._value = rnd.getrandbits(w)
    off = rnd.randrange(0, w)
    width = rnd.randrange(1, w - off + 1)
    cp = rnd.choice([None, None, ShiftRightConfigProcessor(rnd.choice([1, 8]))])
    bf = object.__new__(RegsBitField)
    bf.parent, bf.offset, bf.width, bf.config_processor = r, off, width, cp or ConfigProcessor()
    d = {"self": bf}
    if with_val:
        d["new_val"] = rnd.choice([0, 1, (1 << width) - 1, 1 << width, (1 << width) + 1, -1, rnd.getrandbits(width), rnd.getrandbits(width + 3)])
        d["raw"] = rnd.random() < 0.5
        d["no_preprocess"] = rnd.random() < 0.5
    return d


@contract("spsdk.utils.registers:RegsBitField.get_value", split=4)
def _(self: Union[BF32, BF_OTHER]) -> int:
    requires(self.offset + self.width <= self.parent.width)
    returns(post(self, field_of(logical(self.parent, False), self.offset, self.width)), label="reads-its-bits")
    pure()
    sample_with(lambda rnd: _sample_bf(rnd, False))


@contract("spsdk.utils.registers:RegsBitField.set_value", split=4)
def _(self: Union[BF32, BF_OTHER], new_val: int, raw: OneOf(False, True), no_preprocess: OneOf(False, True)):
    requires(self.offset + self.width <= self.parent.width)
    let(v=new_val if no_preprocess else pre(self, new_val))
    raises(SPSDKError, v < 0 or v >= 2 ** self.width, label="rejected-not-truncated")
    ensures(field_of(logical(self.parent, raw), self.offset, self.width) == v, label="reads-back")
    ensures(logical(self.parent, raw) % 2 ** self.offset == old(logical(self.parent, raw)) % 2 ** self.offset,
            label="lower-neighbours-untouched")
    ensures(logical(self.parent, raw) // 2 ** (self.offset + self.width) == old(logical(self.parent, raw)) // 2 ** (self.offset + self.width),
            label="upper-neighbours-untouched")
    ensures(0 <= self.parent._value and self.parent._value < 2 ** self.parent.width, label="register-stays-in-range")
    modifies(self.parent._value)
    sample_with(lambda rnd: _sample_bf(rnd, True))


@lemma("disjoint-field-is-determined-by-the-untouched-part")
def _(x: U32, y: U32, off: OneOf(5, 16), width: OneOf(1, 7), o2: OneOf(0, 3, 23), w2: OneOf(2, 9)):
    # a field that lies entirely below `off` is a function of x mod 2**off; one entirely at/above off+width of x // 2**(off+width)
    requires(off + width <= 32 and o2 + w2 <= 32)
    ensures(implies(o2 + w2 <= off and x % 2 ** off == y % 2 ** off, field_of(x, o2, w2) == field_of(y, o2, w2)), label="below")
    ensures(implies(o2 >= off + width and x // 2 ** (off + width) == y // 2 ** (off + width), field_of(x, o2, w2) == field_of(y, o2, w2)),
            label="above")


# -------------------------------------------------------------------------------------------------------------------
# read-only queries do not change the object
# -------------------------------------------------------------------------------------------------------------------
def REG_ITEM(hidden, k):
    return Obj(Register, name=OneOf("A", "B"), hidden=Const(hidden), sub_regs=ListOf(Obj(Register, name=Const("S"), hidden=Const(False),
                                                                                       sub_regs=ListOf(Opaque(), 0)), k))


@contract("spsdk.utils.registers:_RegistersBase.get_registers")
def _(self: Obj(_RegistersBase, _registers=ListOf(Union[REG_ITEM(False, 0), REG_ITEM(False, 2), REG_ITEM(True, 0)], 2)),
      exclude: OneOf(None), include_group_regs: bool) -> Opaque():
    ensures(len(self._registers) == 2, label="query-does-not-grow-the-register-list")
    pure()
    sample_with(lambda rnd: _sample_regs(rnd))


def _sample_regs(rnd):
    from spsdk.utils.registers import Registers

    regs = object.__new__(Registers)
    regs._registers = []
    for i in range(2):
        r = Register(rnd.choice(["A", "B"]), 8 * i, 32, f"u{i}", hidden=rnd.random() < 0.3)
        if rnd.random() < 0.5:
            r.width = 0
            for j in range(2):
                r._add_group_reg(Register("S", 8 * i + 4 * j, 32, f"s{i}{j}"))
        regs._registers.append(r)
    return {"self": regs, "exclude": None, "include_group_regs": rnd.random() < 0.7}
