"""C13 — flash encryption: counter/nonce construction (OTFAD) and the protected window of a BEE region block.

Only the address/nonce arithmetic is decided deductively here; the per-block hardware model over whole images is a bounded check.
"""
from vf.api import *  # noqa
from spsdk.exceptions import SPSDKError
from spsdk.image.bee import BeeFacRegion, BeeProtectRegionBlock
from spsdk.utils.crypto.otfad import KeyBlob

inline("spsdk.utils.misc:split_data", "spsdk.image.bee:BeeBaseClass.update", "spsdk.image.bee:BeeFacRegion.update", "spsdk.image.bee:BeeProtectRegionBlock.fac_count",
       "spsdk.image.bee:BeeFacRegion.end_addr")


@contract("spsdk.utils.crypto.otfad:KeyBlob._get_ctr_nonce")
def _(self: Obj(KeyBlob, ctr_init_vector=bytes)) -> bytes:
    raises(SPSDKError, len(self.ctr_init_vector) != 8)
    ensures(len(result) == 16, label="one-aes-block")
    ensures(result[0:8] == self.ctr_init_vector, label="ctr-words-0-1")
    ensures(all(result[8 + i] == self.ctr_init_vector[i] ^ self.ctr_init_vector[4 + i] for i in range(4)), label="xor-word")
    ensures(result[12:16] == bytes(4), label="address-word-left-to-the-counter")
    pure()
    sample_with(lambda rnd: {"self": _kb(bytes(rnd.getrandbits(8) for _ in range(rnd.choice([8, 8, 8, 7, 16]))))})


def _kb(civ):
    k = object.__new__(KeyBlob)
    k.ctr_init_vector = civ
    return k


FAC = Obj(BeeFacRegion, start_addr=U32, length=Range(1, 0xFFFFFFFF), protected_level=Range(0, 3))


def PRDB(k):
    return Obj(BeeProtectRegionBlock, fac_regions=ListOf(FAC, k), _start_addr=U32, _end_addr=U32)


def _mk_prdb(rnd):
    p = BeeProtectRegionBlock()
    for _ in range(rnd.randrange(0, 4)):
        p.fac_regions.append(BeeFacRegion(rnd.randrange(0, 1 << 20) * 1024, rnd.randrange(1, 64) * 1024, rnd.randrange(4)))
    rnd.shuffle(p.fac_regions)
    return p


@contract("spsdk.image.bee:BeeProtectRegionBlock.update")
def _(self: Union[PRDB(0), PRDB(1), PRDB(2), PRDB(3)]):
    # the hardware decrypts [lowest FAC start, highest FAC end): independent of the order in which the regions were added
    ensures(implies(len(self.fac_regions) == 0, self._start_addr == 0 and self._end_addr == 0), label="empty")
    ensures(implies(len(self.fac_regions) > 0, all(self._start_addr <= f.start_addr for f in self.fac_regions)
                    and any(self._start_addr == f.start_addr for f in self.fac_regions)), label="window-starts-at-lowest-region-start")
    ensures(implies(len(self.fac_regions) > 0, all(self._end_addr >= f.start_addr + f.length for f in self.fac_regions)
                    and any(self._end_addr == f.start_addr + f.length for f in self.fac_regions)), label="window-ends-at-highest-region-end")
    modifies(self._start_addr, self._end_addr)
    sample_with(lambda rnd: {"self": _mk_prdb(rnd)})


@contract("spsdk.image.bee:BeeProtectRegionBlock.is_inside_region")
def _(self: Obj(BeeProtectRegionBlock, _start_addr=U32, _end_addr=U32), start_addr: int) -> bool:
    returns(self._start_addr <= start_addr and start_addr < self._end_addr)
    pure()
    sample_with(lambda rnd: {"self": _mk_prdb(rnd), "start_addr": rnd.randrange(0, 1 << 31)})


# ----------------------------------------------------------------------------------------------------------------------
# IEE AES-CTR with address binding: the keystream block of every 16 bytes depends on (key, counter word + absolute address >> 4) only,
# the 32-bit counter word wraps and never carries into the 96 nonce bits (hardware model: one AES block per 16 bytes of address space)
# ----------------------------------------------------------------------------------------------------------------------
from spsdk.utils.crypto.iee import IeeKeyBlob
from specs.crypto import AES_CTR


def rev4(b):
    """Byte order reversed inside every 32-bit word (what reverse_bytes_in_longs does), as a closed term for the specification."""
    return bytes([b[4 * (i // 4) + 3 - i % 4] for i in range(len(b))])


def iee_ctr_block(blob, address, block16):
    nonce = rev4(blob.key2)
    low = int.from_bytes(nonce[12:16], "big")
    return AES_CTR(rev4(blob.key1), nonce[:12] + ((low + address // 16) % 2 ** 32).to_bytes(4, "big"), block16)


def _mk_iee(rnd):
    from spsdk.utils.crypto.iee import IeeKeyBlobAttribute, IeeKeyBlobKeyAttributes, IeeKeyBlobLockAttributes, IeeKeyBlobModeAttributes

    big = rnd.random() < 0.3
    attrs = IeeKeyBlobAttribute(IeeKeyBlobLockAttributes.UNLOCK, IeeKeyBlobKeyAttributes.CTR256XTS512 if big else IeeKeyBlobKeyAttributes.CTR128XTS256,
                                IeeKeyBlobModeAttributes.AesCTRWAddress)
    key2 = bytes(rnd.getrandbits(8) for _ in range(12)) + rnd.choice([b"\x80\xfe\xff\xfc", b"\xff\xff\xff\xff", bytes(4), bytes(rnd.getrandbits(8) for _ in range(4))])
    return IeeKeyBlob(attrs, 0x30000000, 0x30100000, key1=bytes(rnd.getrandbits(8) for _ in range(32 if big else 16)), key2=key2)


@contract("spsdk.utils.crypto.iee:IeeKeyBlob.encrypt_image_ctr")
def _(self: Obj(IeeKeyBlob, key1=Union[Bytes(16), Bytes(32)], key2=Bytes(16)), base_address: Range(0, 0xFFFFFFF0),
      data: Union[Bytes(16), Bytes(32), Bytes(48)]) -> bytes:
    requires(base_address % 16 == 0)
    ensures(len(result) == len(data), label="same-length")
    ensures(all(result[16 * j: 16 * j + 16] == iee_ctr_block(self, base_address + 16 * j, data[16 * j: 16 * j + 16]) for j in range(len(data) // 16)),
            label="every-16-bytes-use-the-counter-of-their-own-address-with-32-bit-wrap")
    pure()
    sample_with(lambda rnd: {"self": _mk_iee(rnd), "base_address": rnd.choice([0x30000000, 0x30001000, 0x30001800, 0x300017F0, 0x3000FFF0]),
                             "data": bytes(rnd.getrandbits(8) for _ in range(rnd.choice([16, 32, 48])))})


# ----------------------------------------------------------------------------------------------------------------------
# OTFAD key blob, plain form (what the KEK wraps): key, counter, range with flags, CRC-32/MPEG-2 of the first 32 bytes
# ----------------------------------------------------------------------------------------------------------------------
from specs.crypto import CRC  # noqa: E402

concrete_ok("spsdk.crypto.crc:from_crc_algorithm", "spsdk.crypto.crc:Crc")
KB = Obj(KeyBlob, key=Bytes(16), ctr_init_vector=Bytes(8), start_addr=U32, end_addr=Range(1, 0xFFFFFFFF), key_flags=Range(0, 7),
         zero_fill=Optional[Bytes(4)], crc_fill=Optional[Bytes(4)])


def _mk_kb(rnd):
    start = rnd.randrange(0, 1 << 20) * 1024
    return KeyBlob(start, start + rnd.choice([0x3FF, 0x400, 0x7FF, 0x12345]), key=bytes(rnd.getrandbits(8) for _ in range(16)),
                   counter_iv=bytes(rnd.getrandbits(8) for _ in range(8)), key_flags=rnd.randrange(8), zero_fill=rnd.choice([None, bytes(4)]),
                   crc=rnd.choice([None, b"\x01\x02\x03\x04"]))


@contract("spsdk.utils.crypto.otfad:KeyBlob.plain_data")
def _(self: KB) -> bytes:
    ensures(len(result) == 64, label="64-bytes")
    ensures(result[0:16] == self.key and result[16:24] == self.ctr_init_vector, label="key-then-counter")
    ensures(int.from_bytes(result[24:28], "little") == self.start_addr, label="start-address")
    ensures(int.from_bytes(result[28:32], "little") == (self.end_addr - 1) // 1024 * 1024 + 0x3F8 + self.key_flags,
            label="end-address-register-last-1k-unit-with-flags")
    ensures(implies(self.zero_fill is not None, result[32:36] == self.zero_fill), label="zero-fill-as-given")
    ensures(result[36:40] == (self.crc_fill if self.crc_fill is not None else CRC(0x104C11DB7, 0xFFFFFFFF, False, 0, result[0:32]).to_bytes(4, "little")),
            label="crc32-mpeg2-of-the-first-32-bytes")
    ensures(result[40:64] == bytes(24), label="rest-zero")
    sample_with(lambda rnd: {"self": _mk_kb(rnd)})


@lemma("otfad-end-address-register-arithmetic")
def _(end: Range(1, 0xFFFFFFFF), flags: Range(0, 7)):
    ensures((((end - 1) & ~0x07) | flags | 0x3F8) == (end - 1) // 1024 * 1024 + 0x3F8 + flags)


# ---- IEE key blob, plain form: the iee_keyblob_t structure the key-blob decryption hands to the engine -------------------------------------
from spsdk.utils.crypto.iee import IeeKeyBlobAttribute, IeeKeyBlobKeyAttributes, IeeKeyBlobLockAttributes, IeeKeyBlobModeAttributes  # noqa: E402

inline("spsdk.utils.crypto.iee:IeeKeyBlobAttribute.export")
IEE_ATTR13 = Obj(IeeKeyBlobAttribute, lock=IeeKeyBlobLockAttributes, key_attribute=IeeKeyBlobKeyAttributes,
                 aes_mode=OneOf(IeeKeyBlobModeAttributes.AesXTS, IeeKeyBlobModeAttributes.AesCTRWAddress, IeeKeyBlobModeAttributes.Bypass))


@contract("spsdk.utils.crypto.iee:IeeKeyBlob.plain_data")
def _(self: Obj(IeeKeyBlob, attributes=IEE_ATTR13, page_offset=U32, key1=Union[Bytes(16), Bytes(32)], key2=Union[Bytes(16), Bytes(32)], start_addr=U32, end_addr=U32)) -> bytes:
    ensures(len(result) == 96, label="96-bytes")
    ensures(int.from_bytes(result[0:4], "little") == 0x49454542 and int.from_bytes(result[4:8], "little") == 0x56010000, label="tag-and-version")
    ensures(result[8] == self.attributes.lock.tag and result[9] == self.attributes.key_attribute.tag and result[10] == self.attributes.aes_mode.tag and result[11] == 0,
            label="lock-keysize-mode-attributes")
    ensures(int.from_bytes(result[12:16], "little") == self.page_offset, label="page-offset")
    ensures(result[16: 16 + len(self.key1)] == self.key1 and result[16 + len(self.key1): 48] == bytes(32 - len(self.key1)), label="key1-zero-padded-to-32")
    ensures(result[48: 48 + len(self.key2)] == self.key2 and result[48 + len(self.key2): 80] == bytes(32 - len(self.key2)), label="key2-zero-padded-to-32")
    ensures(int.from_bytes(result[80:84], "little") == self.start_addr and int.from_bytes(result[84:88], "little") == self.end_addr and result[88:92] == bytes(4),
            label="start-end-reserved")
    ensures(result[92:96] == CRC(0x104C11DB7, 0xFFFFFFFF, False, 0, result[0:92]).to_bytes(4, "little"), label="crc32-mpeg2-over-the-first-92-bytes")
    pure()
    sample_with(lambda rnd: {"self": _mk_iee(rnd)})


# ----------------------------------------------------------------------------------------------------------------------
# BEE AES-CTR: a block inside a FAC region is encrypted with the counter of its own absolute address (address >> 4 added to the PRDB counter
# word, 32-bit wrap); a block outside every FAC region is left alone
# ----------------------------------------------------------------------------------------------------------------------
from spsdk.image.bee import BeeProtectRegionBlockAesMode  # noqa: E402


@assumed("spsdk.utils.misc:align_block_fill_random", reason="padding bytes are random (rng); only the kept prefix and the aligned length are used")
def _(data: bytes, alignment: Range(1, 4096)) -> bytes:
    ensures(len(result) == (len(data) + alignment - 1) // alignment * alignment and result[: len(data)] == data)
    ensures(implies(len(data) % alignment == 0, result == data))
    pure()


def PRDBE(k):
    return Obj(BeeProtectRegionBlock, fac_regions=ListOf(FAC, k), _start_addr=U32, _end_addr=U32, mode=Const(BeeProtectRegionBlockAesMode.CTR), counter=Bytes(16))


def _mk_prdbe(rnd):
    p = BeeProtectRegionBlock(counter=bytes(rnd.getrandbits(8) for _ in range(12)) + rnd.choice([bytes(4), b"\xff\xff\xff\xf0"]))
    base = rnd.randrange(0x60000, 0x60010) * 1024
    for j in range(rnd.randrange(1, 3)):
        p.add_fac(BeeFacRegion(base + j * 0x4000, rnd.choice([0x400, 0x800, 0x2000]), rnd.randrange(4)))
    return p


def bee_hit(self, j, a):
    return j < len(self.fac_regions) and self.fac_regions[j].start_addr <= a and a < self.fac_regions[j].start_addr + self.fac_regions[j].length


def bee_end(self, j):
    return self.fac_regions[j].start_addr + self.fac_regions[j].length if j < len(self.fac_regions) else 0


@contract("spsdk.image.bee:BeeProtectRegionBlock.encrypt_block")
def _(self: Union[PRDBE(1), PRDBE(2)], key: Bytes(16), start_addr: U32, data: Union[Bytes(16), Bytes(512), Bytes(1024)]) -> bytes:
    let(inside=self._start_addr <= start_addr and start_addr < self._end_addr)
    let(hit0=bee_hit(self, 0, start_addr), hit1=bee_hit(self, 1, start_addr))
    let(enc=inside and (hit0 or hit1), end=bee_end(self, 0) if hit0 else bee_end(self, 1))      # the first region that holds the address decides
    raises(SPSDKError, enc and start_addr + len(data) > end, label="block-must-not-leave-its-region")
    let(ctr=(int.from_bytes(self.counter[12:16], "big") + start_addr // 16) % 2 ** 32)
    returns(AES_CTR(key, self.counter[0:12] + ctr.to_bytes(4, "big"), data) if enc else data,
            label="counter-is-the-absolute-address-of-the-block-over-16-outside-the-regions-untouched")
    pure()
    sample_with(lambda rnd: (lambda p: {"self": p, "key": bytes(rnd.getrandbits(8) for _ in range(16)),
                                        "start_addr": rnd.choice([p.fac_regions[0].start_addr + rnd.choice([0, 0x10, 0x200, 0x3F0, 0x400]), 0x1000, p.fac_regions[-1].start_addr + 0x10]),
                                        "data": bytes(rnd.getrandbits(8) for _ in range(rnd.choice([16, 512, 1024])))})(_mk_prdbe(rnd)))


# ----------------------------------------------------------------------------------------------------------------------
# OTFAD key blob encryption: every 16 bytes are AES-CTR encrypted with the counter block the hardware builds for THEIR OWN system address
# (CTR words, their XOR, address with the low nibble cleared) - wherever inside the blob the data are placed, whether or not the caller names a counter
# ----------------------------------------------------------------------------------------------------------------------
inline("spsdk.utils.crypto.otfad:KeyBlob.contains_addr", "spsdk.utils.crypto.otfad:KeyBlob.matches_range")
from spsdk.utils.misc import Endianness as _End  # noqa: E402


def otfad_ctr_block(blob, address, block16):
    civ = blob.ctr_init_vector
    return AES_CTR(blob.key, civ + bytes([civ[i] ^ civ[4 + i] for i in range(4)]) + (address % 2 ** 32).to_bytes(4, "big"), block16)


def _mk_kb_enc(rnd):
    start = rnd.randrange(0, 1 << 18) * 1024
    return KeyBlob(start, start + 0xFFFF, key=bytes(rnd.getrandbits(8) for _ in range(16)), counter_iv=bytes(rnd.getrandbits(8) for _ in range(8)))


@contract("spsdk.utils.crypto.otfad:KeyBlob.encrypt_image", split=2)
def _(self: Obj(KeyBlob, key=Bytes(16), ctr_init_vector=Bytes(8), start_addr=U32, end_addr=U32), base_address: Range(0, 0xFFFFFF00),
      data: Union[Bytes(16), Bytes(32)], byte_swap: Const(False), counter_value: Const(None)) -> bytes:
    requires(self.start_addr <= base_address and base_address + len(data) - 1 <= self.end_addr)     # the data lie inside the key blob's range
    raises(SPSDKError, base_address % 16 != 0, label="unaligned-base")
    ensures(len(result) == len(data), label="same-length")
    ensures(all(result[16 * j: 16 * j + 16] == otfad_ctr_block(self, base_address + 16 * j, data[16 * j: 16 * j + 16]) for j in range(len(data) // 16)),
            label="every-16-bytes-use-the-counter-of-their-own-system-address")
    pure()
    sample_with(lambda rnd: (lambda kb, off: {"self": kb, "base_address": kb.start_addr + off, "data": bytes(rnd.getrandbits(8) for _ in range(rnd.choice([16, 32, 48]))),
                                              "byte_swap": False, "counter_value": None})(_mk_kb_enc(rnd), rnd.choice([0, 0x10, 0x400, 0x7F0])))


# ---- BEE FAC region record: start, END (not length), protection level, 20 reserved zero bytes - and the way back --------------------------------------
from struct import unpack_from as _unp13  # noqa: E402

inline("spsdk.image.bee:BeeFacRegion.__init__", "spsdk.image.bee:BeeFacRegion.validate", "spsdk.image.bee:BeeFacRegion.export", "spsdk.image.bee:BeeFacRegion.parse",
       "spsdk.image.bee:BeeBaseClass.export", "spsdk.image.bee:BeeBaseClass._struct_format", "spsdk.image.bee:BeeBaseClass.get_size", "spsdk.image.bee:BeeBaseClass.size",
       "spsdk.image.bee:BeeBaseClass.check_data_to_parse", "spsdk.image.bee:BeeBaseClass.validate")


@lemma("bee-fac-region-record-holds-start-end-level-and-parses-back")
def _(start: U32, length: Range(1, 0xFFFFFFFF), level: Range(0, 3)):
    requires(start + length <= 0xFFFFFFFF and start % 1024 == 0 and length % 1024 == 0)
    let(raw=BeeFacRegion(start, length, level).export())
    ensures(len(raw) == 32 and _unp13("<3I", raw, 0) == (start, start + length, level) and raw[12:32] == bytes(20), label="start-end-level-reserved-zero")
    let(back=BeeFacRegion.parse(raw))
    ensures(back.start_addr == start and back.length == length and back.protected_level == level, label="parse-inverts-export")


# ---- BEE protect region block: tags, version, FAC count, window, mode, lock options, counter byte-reversed, reserved zeros, FAC records, zero fill ----
from spsdk.image.bee import BeeProtectRegionBlockAesMode as _Mode  # noqa: E402

inline("spsdk.image.bee:BeeProtectRegionBlock.get_size", "spsdk.image.bee:BeeProtectRegionBlock.validate")


def FACV():
    return Obj(BeeFacRegion, start_addr=Range(0, 0x3FFFFF), length=Range(1, 0x3FFFFF), protected_level=Range(0, 3))


def PRDBX(k):
    return Obj(BeeProtectRegionBlock, fac_regions=ListOf(FACV(), k), _start_addr=U32, _end_addr=U32, mode=Const(_Mode.CTR), lock_options=U32, counter=Bytes(16))


def _mk_prdb_x(rnd):
    p = BeeProtectRegionBlock(_Mode.CTR, rnd.getrandbits(32), bytes(rnd.getrandbits(8) for _ in range(12)) + bytes(4))
    for _ in range(rnd.randrange(1, 3)):
        p.fac_regions.append(BeeFacRegion(rnd.randrange(0, 1 << 10) * 1024, rnd.randrange(1, 64) * 1024, rnd.randrange(4)))
    return p


@contract("spsdk.image.bee:BeeProtectRegionBlock.export")
def _(self: Union[PRDBX(1), PRDBX(2)]) -> bytes:
    requires(all(f.start_addr % 1024 == 0 and f.length % 1024 == 0 for f in self.fac_regions) and self.counter[12:16] == bytes(4))
    let(k=len(self.fac_regions), lo=min([f.start_addr for f in self.fac_regions]), hi=max([f.start_addr + f.length for f in self.fac_regions]))
    ensures(len(result) == 0x100, label="block-size")
    ensures(_unp13("<8I", result, 0) == (0x5F474154, 0x52444845, 0x56010000, k, lo, hi, self.mode.tag, self.lock_options), label="tags-version-count-window-mode-lock")
    ensures(all(result[32 + i] == self.counter[15 - i] for i in range(16)) and result[48:80] == bytes(32), label="counter-byte-reversed-then-reserved-zeros")
    ensures(all(_unp13("<3I", result, 80 + 32 * i) == (self.fac_regions[i].start_addr, self.fac_regions[i].start_addr + self.fac_regions[i].length,
                                                      self.fac_regions[i].protected_level) for i in range(k)), label="fac-records-in-order")
    ensures(forall(80 + 32 * k, 0x100, lambda j: result[j] == 0), label="rest-zero")
    modifies(self._start_addr, self._end_addr)
    sample_with(lambda rnd: {"self": _mk_prdb_x(rnd)})
