"""C06 — AHAB container flags word: SRK set [1:0], used SRK id [5:4], revoke mask [11:8] (spsdk/image/ahab/ahab_container.py), and the
verifier's range records (spsdk/utils/verifier.py) against the truthful range check.

Only the flag packing / unpacking and the range-record contract are decided deductively here; container/image/signature-block layout,
hashing, signing and offsets are bounded (parse/verify round trips of the repository's example configurations).
"""
from vf.api import *  # noqa
from spsdk.exceptions import SPSDKError
from spsdk.image.ahab.ahab_container import AHABContainerBase
from spsdk.image.ahab.ahab_data import FlagsSrkSet

CONT = Obj(AHABContainerBase, flags=U32)


def _mk(rnd):
    c = object.__new__(AHABContainerBase)
    c.flags = rnd.getrandbits(12)
    return c


@contract("spsdk.image.ahab.ahab_container:AHABContainerBase.set_flags")
def _(self: CONT, srk_set: OneOf("none", "nxp", "oem", "OEM"), used_srk_id: Range(0, 3), srk_revoke_mask: Range(0, 15)):
    let(s={"none": 0, "nxp": 1, "oem": 2, "OEM": 2}[srk_set])
    ensures(self.flags == s + used_srk_id * 16 + srk_revoke_mask * 256, label="srk-set-used-id-revoke-mask-in-their-fields")
    modifies(self.flags)
    sample_with(lambda rnd: {"self": _mk(rnd), "srk_set": rnd.choice(["none", "nxp", "oem"]), "used_srk_id": rnd.randrange(4), "srk_revoke_mask": rnd.randrange(16)})


@contract("spsdk.image.ahab.ahab_container:AHABContainerBase.flag_used_srk_id")
def _(self: CONT) -> int:
    returns(self.flags // 16 % 4, label="bits-5-4")
    pure()
    sample_with(lambda rnd: {"self": _mk(rnd)})


@contract("spsdk.image.ahab.ahab_container:AHABContainerBase.flag_srk_revoke_keys")
def _(self: CONT) -> int:
    returns(self.flags // 256 % 16, label="bits-11-8")
    pure()
    sample_with(lambda rnd: {"self": _mk(rnd)})


@lemma("ahab-flag-readers-invert-set_flags")
def _(s: Range(0, 2), used: Range(0, 3), mask: Range(0, 15)):
    let(f=s + used * 16 + mask * 256)
    ensures(f % 4 == s and f // 16 % 4 == used and f // 256 % 16 == mask, label="fields-are-disjoint")


# ---- verifier range records: "a valid image is never reported as erroneous, an out-of-range value always is" ---------------------------
from spsdk.utils.verifier import Verifier, VerifierRecord, VerifierResult  # noqa: E402

inline("spsdk.utils.verifier:Verifier.add_record")
concrete_ok("spsdk.utils.verifier:VerifierRecord")


@assumed("spsdk.utils.verifier:VerifierRecord.__init__", reason="dataclass-generated constructor (no source): stores its arguments")
def _(self: Opaque(), name: Opaque(), result: Opaque(), value: Opaque(), important: Opaque(), raw: Opaque()):
    pass


@contract("spsdk.utils.verifier:Verifier.add_record_bit_range")
def _(self: Obj(Verifier, records=ListOf(Opaque(), 0)), name: Const("SW version"), value: Optional[int], bit_range: OneOf(8, 16, 32), important: Const(True)):
    ensures(len(self.records) == 1, label="one-record")
    ensures((self.records[0].result == VerifierResult.ERROR) == (value is None or value < 0 or value >= 2 ** bit_range), label="error-iff-out-of-range")
    modifies(self.records)
    sample_with(lambda rnd: {"self": Verifier("t"), "name": "SW version", "value": rnd.choice([None, -1, 0, 255, 256, 65535, 65536, 1 << 32]),
                             "bit_range": rnd.choice([8, 16, 32]), "important": True})
