"""C06 — AHAB container flags word: SRK set [1:0], used SRK id [5:4], revoke mask [11:8] (spsdk/image/ahab/ahab_container.py), and the
verifier's range records (spsdk/utils/verifier.py) against the truthful range check.

Only the flag packing / unpacking and the range-record contract are decided deductively here; container/image/signature-block layout,
hashing, signing and offsets are bounded (parse/verify round trips of the repository's example configurations).
"""
from vf.api import *  # noqa
from spsdk.exceptions import SPSDKError
from spsdk.image.ahab.ahab_container import AHABContainerBase
from spsdk.image.ahab.ahab_data import FlagsSrkSet

CONT = Obj(AHABContainerBase, flags=U32)


def _mk(rnd):
    c = object.__new__(AHABContainerBase)
    c.flags = rnd.getrandbits(12)
    return c


@contract("spsdk.image.ahab.ahab_container:AHABContainerBase.set_flags")
def _(self: CONT, srk_set: OneOf("none", "nxp", "oem", "OEM"), used_srk_id: Range(0, 3), srk_revoke_mask: Range(0, 15)):
    let(s={"none": 0, "nxp": 1, "oem": 2, "OEM": 2}[srk_set])
    ensures(self.flags == s + used_srk_id * 16 + srk_revoke_mask * 256, label="srk-set-used-id-revoke-mask-in-their-fields")
    modifies(self.flags)
    sample_with(lambda rnd: {"self": _mk(rnd), "srk_set": rnd.choice(["none", "nxp", "oem"]), "used_srk_id": rnd.randrange(4), "srk_revoke_mask": rnd.randrange(16)})


@contract("spsdk.image.ahab.ahab_container:AHABContainerBase.flag_used_srk_id")
def _(self: CONT) -> int:
    returns(self.flags // 16 % 4, label="bits-5-4")
    pure()
    sample_with(lambda rnd: {"self": _mk(rnd)})


@contract("spsdk.image.ahab.ahab_container:AHABContainerBase.flag_srk_revoke_keys")
def _(self: CONT) -> int:
    returns(self.flags // 256 % 16, label="bits-11-8")
    pure()
    sample_with(lambda rnd: {"self": _mk(rnd)})


@lemma("ahab-flag-readers-invert-set_flags")
def _(s: Range(0, 2), used: Range(0, 3), mask: Range(0, 15)):
    let(f=s + used * 16 + mask * 256)
    ensures(f % 4 == s and f // 16 % 4 == used and f // 256 % 16 == mask, label="fields-are-disjoint")


# ---- verifier range records: "a valid image is never reported as erroneous, an out-of-range value always is" ---------------------------
from spsdk.utils.verifier import Verifier, VerifierRecord, VerifierResult  # noqa: E402

inline("spsdk.utils.verifier:Verifier.add_record")
concrete_ok("spsdk.utils.verifier:VerifierRecord")


@assumed("spsdk.utils.verifier:VerifierRecord.__init__", reason="dataclass-generated constructor (no source): stores its arguments")
def _(self: Opaque(), name: Opaque(), result: Opaque(), value: Opaque(), important: Opaque(), raw: Opaque()):
    pass


@contract("spsdk.utils.verifier:Verifier.add_record_bit_range")
def _(self: Obj(Verifier, records=ListOf(Opaque(), 0)), name: Const("SW version"), value: Optional[int], bit_range: OneOf(8, 16, 32), important: Const(True)):
    ensures(len(self.records) == 1, label="one-record")
    ensures((self.records[0].result == VerifierResult.ERROR) == (value is None or value < 0 or value >= 2 ** bit_range), label="error-iff-out-of-range")
    modifies(self.records)
    sample_with(lambda rnd: {"self": Verifier("t"), "name": "SW version", "value": rnd.choice([None, -1, 0, 255, 256, 65535, 65536, 1 << 32]),
                             "bit_range": rnd.choice([8, 16, 32]), "important": True})


# ---- image array entry: the hash algorithm an entry declares is the one its hash is computed with -----------------------------------
from spsdk.crypto.hash import EnumHashAlgorithm  # noqa: E402
from spsdk.image.ahab.ahab_data import AHABSignHashAlgorithmV1, AHABSignHashAlgorithmV2  # noqa: E402
from spsdk.image.ahab.ahab_iae import ImageArrayEntry, ImageArrayEntryV2  # noqa: E402

concrete_ok("spsdk.utils.spsdk_enum:SpsdkEnum.from_tag", "spsdk.utils.spsdk_enum:SpsdkEnum.from_label", "spsdk.utils.spsdk_enum:SpsdkEnum.from_attr")
DECLARED = {0: EnumHashAlgorithm.SHA256, 1: EnumHashAlgorithm.SHA384, 2: EnumHashAlgorithm.SHA512, 3: EnumHashAlgorithm.SM3}
_IAE_FLAGS = [(t << 8) | lo for t in range(4) for lo in (0, 0x7F, 0xF80000FF)]


@contract("spsdk.image.ahab.ahab_iae:ImageArrayEntry.get_hash_from_flags")
def _(self: Union[Obj(ImageArrayEntry), Obj(ImageArrayEntryV2)], flags: OneOf(*_IAE_FLAGS)) -> Opaque():
    # the four hash tags SPSDK can compute (SHA-256/384/512, SM3; the SHA-3 tags of container version 2 have no generic algorithm), the
    # other bits of the flag word at both extremes
    returns(DECLARED[flags // 256 % 8], label="hash-of-the-declared-algorithm")
    pure()
    sample_with(lambda rnd: {"self": object.__new__(rnd.choice([ImageArrayEntryV2, ImageArrayEntry])), "flags": rnd.choice(_IAE_FLAGS)})


@contract("spsdk.image.ahab.ahab_iae:ImageArrayEntry.create_flags")
def _(cls: OneOf(ImageArrayEntry, ImageArrayEntryV2), image_type: Range(0, 15), core_id: Range(0, 15),
      hash_type: OneOf(AHABSignHashAlgorithmV1.SHA256, AHABSignHashAlgorithmV1.SHA384, AHABSignHashAlgorithmV1.SHA512, AHABSignHashAlgorithmV1.SM3),
      is_encrypted: bool, boot_flags: Range(0, 0x7FFF)) -> int:
    returns(image_type + core_id * 16 + hash_type.tag * 256 + (1 if is_encrypted else 0) * 2 ** cls.FLAGS_IS_ENCRYPTED_OFFSET
            + boot_flags * 2 ** cls.FLAGS_BOOT_FLAGS_OFFSET, label="type-core-hash-encrypted-bootflags-in-their-fields")
    pure()


# ---- SRK record: the two 16-bit parameter lengths at offset 8 (first = RSA modulus / ECC X, second = RSA exponent / ECC Y) -----------------
from spsdk.image.ahab.ahab_srk import SRKRecordBase  # noqa: E402

# from the container format: key-size code -> (length of the first crypto parameter, length of the second), the parameters themselves follow
# the record header in this order (modulus || exponent, X || Y, raw key)
_SRK_PARAM_LEN = {0x1: (32, 32), 0x2: (48, 48), 0x3: (66, 66), 0x5: (2048 // 8, 4), 0x6: (3072 // 8, 4), 0x7: (4096 // 8, 4), 0x8: (32, 32),
                  0x9: (1952, 0), 0xA: (2592, 0)}


@contract("spsdk.image.ahab.ahab_srk:SRKRecordBase.parameter_lengths")
def _(self: SubObj(SRKRecordBase, key_size=OneOf(*sorted(_SRK_PARAM_LEN)))) -> bytes:
    returns(_SRK_PARAM_LEN[self.key_size][0].to_bytes(2, "little") + _SRK_PARAM_LEN[self.key_size][1].to_bytes(2, "little"),
            label="first-parameter-length-then-second-as-two-le16")
    pure()
    sample_with(lambda rnd: {"self": (lambda o, k: (setattr(o, "key_size", k), o)[1])(object.__new__(SRKRecordBase), rnd.choice(sorted(_SRK_PARAM_LEN)))})


@contract("spsdk.image.ahab.ahab_srk:SRKRecordBase._crypto_params_length")
def _(cls: Const(SRKRecordBase), parameter_lengths: Bytes(lo=4, hi=8)) -> int:
    returns(parameter_lengths[0] + 256 * parameter_lengths[1] + parameter_lengths[2] + 256 * parameter_lengths[3], label="sum-of-the-two-le16-lengths")
    pure()


# ---- signature block: the offsets of its parts never collide ----------------------------------------------------------------------------
from spsdk.image.ahab.ahab_sign_block import SignatureBlock  # noqa: E402
from specs.ahab import AbsPart  # noqa: E402

inline("specs.ahab:AbsPart.__len__", "specs.ahab:AbsPart.update_fields")
concrete_ok("spsdk.image.ahab.ahab_sign_block:SignatureBlock.format", "spsdk.image.ahab.ahab_abstract_interfaces:HeaderContainer.format",
            "spsdk.image.ahab.ahab_abstract_interfaces:Container.format")
PART = Optional[Obj(AbsPart, _g_len=Range(1, 1 << 16))]
SIGBLK = Obj(SignatureBlock, srk_assets=PART, signature=PART, certificate=PART, blob=PART, _srk_assets_offset=int, _certificate_offset=int, _blob_offset=int,
             signature_offset=int, length=int)


def plen(p):
    return p._g_len if p is not None else 0


@contract("spsdk.image.ahab.ahab_sign_block:SignatureBlock.update_fields")
def _(self: SIGBLK):
    # parts in file order: header (16 bytes), SRK assets, signature, certificate, blob - each present part starts 8-byte aligned at or behind the
    # end of the one before it, an absent part has offset 0, and the block length is the end of the last part
    let(srk=plen(self.srk_assets), sig=plen(self.signature), crt=plen(self.certificate), blb=plen(self.blob))
    ensures((self._srk_assets_offset == 0) == (srk == 0) and (self.signature_offset == 0) == (sig == 0) and (self._certificate_offset == 0) == (crt == 0)
            and (self._blob_offset == 0) == (blb == 0), label="absent-parts-have-offset-zero")
    ensures(self._srk_assets_offset % 8 == 0 and self.signature_offset % 8 == 0 and self._certificate_offset % 8 == 0 and self._blob_offset % 8 == 0,
            label="offsets-are-8-byte-aligned")
    ensures(implies(srk > 0, self._srk_assets_offset >= 16), label="srk-assets-behind-the-header")
    ensures(implies(sig > 0, self.signature_offset >= 16 and self.signature_offset >= self._srk_assets_offset + srk), label="signature-behind-the-srk-assets")
    ensures(implies(crt > 0, self._certificate_offset >= 16 and self._certificate_offset >= self._srk_assets_offset + srk
                    and self._certificate_offset >= self.signature_offset + sig), label="certificate-behind-the-signature")
    ensures(implies(blb > 0, self._blob_offset >= 16 and self._blob_offset >= self._srk_assets_offset + srk and self._blob_offset >= self.signature_offset + sig
                    and self._blob_offset >= self._certificate_offset + crt), label="blob-behind-the-certificate")
    ensures(self.length >= 16 and self.length >= self._srk_assets_offset + srk and self.length >= self.signature_offset + sig
            and self.length >= self._certificate_offset + crt and self.length >= self._blob_offset + blb, label="block-length-covers-every-part")
    modifies(self._srk_assets_offset, self.signature_offset, self._certificate_offset, self._blob_offset, self.length)
    sample_with(lambda rnd: {"self": _mk_sigblk(rnd)})


def _mk_sigblk(rnd):
    b = object.__new__(SignatureBlock)
    for name in ("srk_assets", "signature", "certificate", "blob"):
        setattr(b, name, AbsPart(rnd.choice([1, 8, 68, 100, 512])) if rnd.random() < 0.6 else None)
    b._srk_assets_offset = b._certificate_offset = b._blob_offset = b.signature_offset = 0
    b.length = -1
    return b


# ---- container header length: header + image array entries + signature block (if any) ------------------------------------------------------
from spsdk.image.ahab.ahab_container import AHABContainer  # noqa: E402
from spsdk.image.ahab.ahab_iae import ImageArrayEntry as _IAE  # noqa: E402

concrete_ok("spsdk.image.ahab.ahab_abstract_interfaces:Container.fixed_length", "spsdk.image.ahab.ahab_container:AHABContainerBase.format",
            "spsdk.image.ahab.ahab_iae:ImageArrayEntry.format")


def CONTAINER(k):
    return Obj(AHABContainer, image_array=ListOf(Obj(_IAE), k), signature_block=Optional[Obj(AbsPart, _g_len=Range(16, 1 << 16))], IAE_TYPE=Const(_IAE))


@contract("spsdk.image.ahab.ahab_container:AHABContainer.header_length")
def _(self: Union[CONTAINER(0), CONTAINER(1), CONTAINER(3)]) -> int:
    returns(16 + 128 * len(self.image_array) + (self.signature_block._g_len if self.signature_block is not None else 0),
            label="header-plus-entries-plus-signature-block-if-any")
    pure()
    sample_with(lambda rnd: {"self": _mk_container(rnd)})


def _mk_container(rnd):
    c = object.__new__(AHABContainer)
    c.image_array = [object() for _ in range(rnd.choice([0, 1, 3]))]
    c.signature_block = AbsPart(rnd.choice([16, 100, 344])) if rnd.random() < 0.6 else None
    return c


# ---- image array entry: meta data word and the remaining flag readers invert their builders --------------------------------------------------
IAE_OBJ = Union[Obj(ImageArrayEntry, flags=U32, image_meta_data=U32), Obj(ImageArrayEntryV2, flags=U32, image_meta_data=U32)]


@contract("spsdk.image.ahab.ahab_iae:ImageArrayEntry.create_meta")
def _(start_cpu_id: Range(0, 1023), mu_cpu_id: Range(0, 1023), start_partition_id: Range(0, 255)) -> int:
    returns(start_cpu_id + mu_cpu_id * 1024 + start_partition_id * 1048576, label="cpu-mu-partition-in-their-fields")
    pure()


@contract("spsdk.image.ahab.ahab_iae:ImageArrayEntry.metadata_start_cpu_id")
def _(self: IAE_OBJ) -> int:
    returns(self.image_meta_data % 1024, label="bits-9-0")
    pure()
    sample_with(lambda rnd: {"self": _mk_iae(rnd)})


@contract("spsdk.image.ahab.ahab_iae:ImageArrayEntry.metadata_mu_cpu_id")
def _(self: IAE_OBJ) -> int:
    returns(self.image_meta_data // 1024 % 1024, label="bits-19-10")
    pure()
    sample_with(lambda rnd: {"self": _mk_iae(rnd)})


@contract("spsdk.image.ahab.ahab_iae:ImageArrayEntry.metadata_start_partition_id")
def _(self: IAE_OBJ) -> int:
    returns(self.image_meta_data // 1048576 % 256, label="bits-27-20")
    pure()
    sample_with(lambda rnd: {"self": _mk_iae(rnd)})


@contract("spsdk.image.ahab.ahab_iae:ImageArrayEntry.flags_is_encrypted")
def _(self: IAE_OBJ) -> bool:
    returns((self.flags // (2 ** 12 if typed(self, ImageArrayEntryV2) else 2 ** 11)) % 2 == 1, label="encrypted-bit-of-the-container-version")
    pure()
    sample_with(lambda rnd: {"self": _mk_iae(rnd)})


@contract("spsdk.image.ahab.ahab_iae:ImageArrayEntry.flags_boot_flags")
def _(self: IAE_OBJ) -> int:
    returns(self.flags // 65536 % 32768, label="bits-30-16")
    pure()
    sample_with(lambda rnd: {"self": _mk_iae(rnd)})


def _mk_iae(rnd):
    o = object.__new__(rnd.choice([ImageArrayEntry, ImageArrayEntryV2]))
    o.flags, o.image_meta_data = rnd.getrandbits(32), rnd.getrandbits(32)
    return o


# ---- image array entry: the 128-byte record as the ROM reads it -------------------------------------------------------------------------------------
from struct import unpack_from as _unpf  # noqa: E402

inline("spsdk.image.ahab.ahab_iae:ImageArrayEntry.format", "spsdk.image.ahab.ahab_abstract_interfaces:Container.format",
       "spsdk.image.ahab.ahab_abstract_interfaces:Container.fixed_length")


def IAE(hash_len):
    return Obj(ImageArrayEntry, _image_offset=U32, image_size=U32, load_address=U64, entry_point=U64, flags=U32, image_meta_data=U32,
               image_hash=Bytes(hash_len), image_iv=Bytes(32))


def _mk_iae_rec(rnd):
    e = object.__new__(ImageArrayEntry)
    e._image_offset, e.image_size, e.load_address, e.entry_point = rnd.getrandbits(32), rnd.getrandbits(32), rnd.getrandbits(64), rnd.getrandbits(64)
    e.flags, e.image_meta_data = rnd.getrandbits(32), rnd.getrandbits(32)
    e.image_hash = bytes(rnd.getrandbits(8) for _ in range(rnd.choice([32, 48, 64])))
    e.image_iv = bytes(rnd.getrandbits(8) for _ in range(32))
    return e


@contract("spsdk.image.ahab.ahab_iae:ImageArrayEntry.export")
def _(self: Union[IAE(32), IAE(48), IAE(64)]) -> bytes:
    ensures(len(result) == 128, label="record-size")
    ensures(result[0:4] == self._image_offset.to_bytes(4, "little") and result[4:8] == self.image_size.to_bytes(4, "little"), label="offset-and-size")
    ensures(result[8:16] == self.load_address.to_bytes(8, "little") and result[16:24] == self.entry_point.to_bytes(8, "little"), label="load-address-and-entry-point")
    ensures(result[24:28] == self.flags.to_bytes(4, "little") and result[28:32] == self.image_meta_data.to_bytes(4, "little"), label="flags-and-meta-data")
    ensures(result[32: 32 + len(self.image_hash)] == self.image_hash and forall(32 + len(self.image_hash), 96, lambda k: result[k] == 0),
            label="hash-left-aligned-zero-padded-to-64")
    ensures(result[96:128] == self.image_iv, label="iv-behind-the-hash")
    pure()
    sample_with(lambda rnd: {"self": _mk_iae_rec(rnd)})


# ---- signature block parts: signature container and DEK blob as they are laid down --------------------------------------------------------------------
from spsdk.image.ahab.ahab_blob import AhabBlob  # noqa: E402
from spsdk.ele.ele_constants import KeyBlobEncryptionAlgorithm  # noqa: E402
from spsdk.image.ahab.ahab_signature import ContainerSignature  # noqa: E402

inline("spsdk.image.ahab.ahab_signature:ContainerSignature.format", "spsdk.image.ahab.ahab_signature:ContainerSignature.__len__",
       "spsdk.image.ahab.ahab_abstract_interfaces:HeaderContainer.format", "spsdk.image.ahab.ahab_abstract_interfaces:Container.__len__",
       "spsdk.image.ahab.ahab_blob:AhabBlob.format")


def _mk_sig(rnd):
    s = ContainerSignature(signature_data=bytes(rnd.getrandbits(8) for _ in range(rnd.choice([0, 64, 96, 132, 256, 512]))))
    return s


@contract("spsdk.image.ahab.ahab_signature:ContainerSignature.export")
def _(self: Obj(ContainerSignature, tag=Const(0xD8), version=Const(0), length=U16, _signature_data=Bytes(lo=0, hi=1024), signature_provider=Const(None))) -> bytes:
    let(n=len(self._signature_data))
    ensures(implies(n == 0, result == b""), label="no-signature-no-container")
    ensures(implies(n > 0, len(result) == 8 + n and result[0] == 0 and result[1:3] == self.length.to_bytes(2, "little") and result[3] == 0xD8
                    and result[4:8] == bytes(4) and result[8:] == self._signature_data), label="version-length-tag-reserved-then-the-signature")
    pure()
    sample_with(lambda rnd: {"self": _mk_sig(rnd)})


@lemma("signature-container-announces-its-own-length")
def _(sig: Union[Bytes(64), Bytes(96), Bytes(132), Bytes(256), Bytes(384), Bytes(512)]):
    let(raw=ContainerSignature(signature_data=sig).export())
    ensures(int.from_bytes(raw[1:3], "little") == len(raw) and len(raw) == 8 + len(sig), label="length-field-is-header-plus-signature")


def _mk_blob(rnd):
    size = rnd.choice([128, 192, 256])
    return AhabBlob(flags=rnd.choice([0x80, 0x01, 0x81]), size=size, mode=rnd.getrandbits(8), dek_keyblob=bytes(rnd.getrandbits(8) for _ in range(size // 8 + 48)))


@contract("spsdk.image.ahab.ahab_blob:AhabBlob.export")
def _(self: Obj(AhabBlob, tag=Const(0x81), version=Const(0), length=U16, flags=U8, _size=OneOf(128, 192, 256), mode=U8,
                algorithm=OneOf(*list(KeyBlobEncryptionAlgorithm)), dek_keyblob=Bytes(lo=0, hi=128))) -> bytes:
    ensures(len(result) == 8 + len(self.dek_keyblob), label="head-then-wrapped-key")
    ensures(result[0] == 0 and result[1:3] == self.length.to_bytes(2, "little") and result[3] == 0x81, label="version-length-tag")
    ensures(result[4] == self.flags and result[5] == self._size // 8 and result[6] == self.algorithm.tag and result[7] == self.mode, label="flags-size-algorithm-mode")
    ensures(result[8:] == self.dek_keyblob, label="wrapped-key-as-given")
    pure()
    sample_with(lambda rnd: {"self": _mk_blob(rnd)})


inline("spsdk.image.ahab.ahab_blob:AhabBlob.__init__", "spsdk.image.ahab.ahab_abstract_interfaces:HeaderContainer.__init__",
       "spsdk.image.ahab.ahab_blob:AhabBlob.compute_keyblob_size", "spsdk.image.ahab.ahab_signature:ContainerSignature.__init__")


@lemma("dek-blob-announces-header-plus-wrapped-key")
def _(size: OneOf(128, 192, 256), mode: U8):
    # the wrapped key of a size-bit DEK has size/8 + 48 bytes (compute_keyblob_size); the length field covers the 8-byte head as well
    let(b=AhabBlob(size=size, mode=mode))
    ensures(b.length == 8 + AhabBlob.compute_keyblob_size(size), label="length-field-is-head-plus-keyblob-size")


# ---- SRK record and SRK table: what the ROM hashes to compare with the fuses (C03: AHAB SRK table path) ----------------------------------------------
from spsdk.image.ahab.ahab_srk import SRKRecord, SRKTable  # noqa: E402
from spsdk.image.ahab.ahab_data import AHABSignHashAlgorithmV1  # noqa: E402,F811
from specs.crypto import HASH  # noqa: E402

inline("spsdk.image.ahab.ahab_srk:SRKRecordBase.format", "spsdk.image.ahab.ahab_srk:SRKRecordBase.__len__", "spsdk.image.ahab.ahab_srk:SRKTable.__len__",
       "spsdk.image.ahab.ahab_abstract_interfaces:HeaderContainerInverted.format")
_HASH_TAGS = OneOf(*list(SRKRecord.HASH_ALGORITHM_ENUM))


def SRKREC(ks, fixed=False):
    # in a table the signing / hash algorithm codes of the records are fixed to one combination (they are bytes copied through; every combination
    # is covered by the record's own contract)
    return Obj(SRKRecord, tag=Const(0xE1), length=U16, version=OneOf(*SRKRecord.VERSION) if not fixed else Const(SRKRecord.VERSION[0]),
               hash_algorithm=_HASH_TAGS if not fixed else Const(list(SRKRecord.HASH_ALGORITHM_ENUM)[0]), key_size=Const(ks), srk_flags=U8,
               crypto_params=Bytes(sum(_SRK_PARAM_LEN[ks])))


def _mk_srk_rec(rnd):
    ks = rnd.choice([1, 2, 3, 5])
    r = SRKRecord(hash_type=rnd.choice(list(SRKRecord.HASH_ALGORITHM_ENUM)), key_size=ks, srk_flags=rnd.choice([0, 0x80]),
                  crypto_params=bytes(rnd.getrandbits(8) for _ in range(sum(_SRK_PARAM_LEN[ks]))))
    r.update_fields()
    return r


def srk_record_bytes(r):
    return (bytes([r.tag]) + r.length.to_bytes(2, "little") + bytes([r.version, r.hash_algorithm.tag, r.key_size, 0, r.srk_flags])
            + _SRK_PARAM_LEN[r.key_size][0].to_bytes(2, "little") + _SRK_PARAM_LEN[r.key_size][1].to_bytes(2, "little") + r.crypto_params)


@contract("spsdk.image.ahab.ahab_srk:SRKRecordBase.export")
def _(self: Union[SRKREC(1), SRKREC(2), SRKREC(3), SRKREC(5), SRKREC(6), SRKREC(7)]) -> bytes:
    returns(srk_record_bytes(self), label="tag-length-algorithm-hash-keysize-flags-parameter-lengths-then-the-key-material")
    pure()
    sample_with(lambda rnd: {"self": _mk_srk_rec(rnd)})


def SRKTAB(ks):
    return Obj(SRKTable, tag=Const(0xD7), version=Const(0x42), length=U16, srk_records=ListOf(SRKREC(ks, True), 4))


def _mk_srk_table(rnd):
    t = SRKTable([_mk_srk_rec(rnd) for _ in range(4)])
    ks = rnd.choice([1, 2, 5])
    for r in t.srk_records:
        r.key_size, r.crypto_params, r.length = ks, bytes(rnd.getrandbits(8) for _ in range(sum(_SRK_PARAM_LEN[ks]))), -1
    t.update_fields()
    return t


def srk_table_bytes(t):
    out = bytes([t.tag]) + t.length.to_bytes(2, "little") + bytes([t.version])
    for r in t.srk_records:
        out = out + srk_record_bytes(r)
    return out


@contract("spsdk.image.ahab.ahab_srk:SRKTable.export")
def _(self: Union[SRKTAB(1), SRKTAB(2), SRKTAB(5)]) -> bytes:
    returns(srk_table_bytes(self), label="table-head-then-the-four-records-in-key-order")
    pure()
    sample_with(lambda rnd: {"self": _mk_srk_table(rnd)})


@contract("spsdk.image.ahab.ahab_srk:SRKTable.compute_srk_hash")
def _(self: Union[SRKTAB(1), SRKTAB(2), SRKTAB(5)], srk_id: Const(0)) -> bytes:
    # the value burnt into the fuses depends on the ordered records only: the digest of the exported table, whichever key signs
    returns(HASH(SRKTable.SRK_HASH_ALGORITHM.label, srk_table_bytes(self)), label="fuse-value-is-the-digest-of-the-exported-table")
    pure()
    sample_with(lambda rnd: {"self": _mk_srk_table(rnd), "srk_id": 0})
