"""C07 — HAB image, the arithmetic core only: where the CSF goes and what the IVT / boot data say about it
(spsdk/image/hab/segments.py).  The CMS / X.509 / AES-CCM half of the property is external code: bounded only (bounded/C07.py).

Decided here for all start addresses, IVT offsets, initial load sizes, application lengths and flags:
  * the IVT written by IvtHabSegment.load_from_config has self = start + ivt offset, boot data right behind the IVT, DCD behind
    the boot data iff there is one, and csf = self + CsfHabSegment.align_offset(initial load size + application length) - ivt offset
    for authenticated/encrypted images, 0 otherwise — the very expression CsfHabSegment.load_from_config (and through it
    BdtHabSegment.load_from_config) uses for the real placement; align_offset is inlined, so any harmless change of its formula
    that both sites share keeps verifying, while an IVT that computes the pointer differently does not;
  * AppHabSegment.load_from_config puts the application at initial load size, pads with zeros to 16 only when authenticated;
  * lemma: whatever align_offset computes is page aligned in the container and lies at or behind the padded application (no overlap),
    (minimality is not demanded: the property does not).  (CsfHabSegment.load_from_config itself is not under contract: bounded.)
"""
from vf.api import *  # noqa
from spsdk.image.hab.hab_config import HabConfig, OptionsConfig
from spsdk.image.hab.segments import AppHabSegment, BdtHabSegment, CsfHabSegment, IvtHabSegment
from spsdk.utils.images import BinaryImage

inline("spsdk.image.segments:SegIVT2.__init__", "spsdk.image.segments:SegBDT.__init__", "spsdk.image.hab.segments:BdtHabSegment.__init__", "spsdk.image.segments:BaseSegment.__init__", "spsdk.image.header:Header.__init__", "spsdk.image.hab.segments:HabSegmentBase.__init__",
       "spsdk.image.hab.segments:IvtHabSegment.__init__", "spsdk.image.hab.segments:AppHabSegment.__init__",
       "spsdk.image.hab.hab_config:OptionsConfig.get_ivt_offset", "spsdk.image.hab.hab_config:OptionsConfig.get_initial_load_size",
       "spsdk.image.segments:SegIVT2.size", "spsdk.image.hab.segments:IvtHabSegment.get_entrypoint_address",
       "spsdk.image.hab.segments:AppHabSegment.size", "spsdk.image.hab.segments:CsfHabSegment.align_offset")

OPTS = Obj(OptionsConfig, flags=Range(0, 15), start_address=U32, ivt_offset=Range(0, 0x2000), initial_load_size=Range(0, 0x8000),
           entrypoint_address=U32, dcd_file_path=OneOf(None, "dcd.bin"))
CFG = Obj(HabConfig, options=OPTS, app_image=Obj(BinaryImage, offset=int, _g_len=Nat, _g_bytes=bytes, _g_invalid=bool, name=Const("child"),
                                                 execution_start_address=Const(None)))


def _sample_cfg(rnd, cls):
    n = rnd.choice([1, 15, 16, 17, 0xFF1, 0xFF8, 0x1000, rnd.randrange(1, 0x3000)])
    img = BinaryImage("child", binary=bytes(rnd.getrandbits(8) for _ in range(n)))
    img._g_len, img._g_bytes, img._g_invalid = n, img.binary, False   # ghost view of the real image, for the clauses
    ivt_off, ils = rnd.choice([(0, 0x2000), (0x400, 0x1000), (0x1000, 0x2000), (0, 0)])
    opts = OptionsConfig(flags=rnd.choice([0, 8, 12]), start_address=rnd.choice([0x60000000, 0x20200000, 0x1000]), ivt_offset=ivt_off,
                         initial_load_size=ils, entrypoint_address=rnd.getrandbits(32), dcd_file_path=rnd.choice([None, "dcd.bin"]))
    return {"cls": cls, "config": HabConfig(app_image=img, options=opts, commands=[]), "search_paths": None}


@contract("spsdk.image.hab.segments:IvtHabSegment.load_from_config", replay=False)
def _(cls: Const(IvtHabSegment), config: CFG, search_paths: OneOf(None)) -> Opaque():
    requires(not config.app_image._g_invalid and len(config.app_image._g_bytes) == config.app_image._g_len)
    let(ivt=config.options.start_address + config.options.ivt_offset)
    ensures(result.segment.ivt_address == ivt, label="self-pointer-is-start-plus-ivt-offset")
    ensures(result.segment.bdt_address == ivt + 32, label="boot-data-right-behind-the-ivt")
    ensures(result.segment.dcd_address == (ivt + 32 + 32 if config.options.dcd_file_path is not None else 0), label="dcd-pointer")
    ensures(result.segment.csf_address == (ivt + CsfHabSegment.align_offset(config.options.initial_load_size + config.app_image._g_len) - config.options.ivt_offset
                                           if config.options.flags >= 8 else 0), label="csf-pointer-is-where-the-csf-is-placed")
    ensures(result.segment.app_address == config.options.entrypoint_address, label="entry-point")
    ensures(result.offset == 0)
    pure()
    sample_with(lambda rnd: _sample_cfg(rnd, IvtHabSegment))


@contract("spsdk.image.hab.segments:AppHabSegment.load_from_config", replay=False)
def _(cls: Const(AppHabSegment), config: CFG, search_paths: OneOf(None)) -> Obj(AppHabSegment, offset=int, binary=bytes):
    requires(not config.app_image._g_invalid and len(config.app_image._g_bytes) == config.app_image._g_len)
    let(n=config.app_image._g_len)
    ensures(result.offset == config.options.initial_load_size - config.options.ivt_offset, label="application-at-initial-load-size")
    ensures(len(result.binary) == (n if config.options.flags < 8 else (n + 15) // 16 * 16), label="padded-to-16-only-when-authenticated")
    ensures(result.binary[:n] == config.app_image._g_bytes, label="application-bytes-kept")
    ensures(forall(n, len(result.binary), lambda k: result.binary[k] == 0), label="padding-is-zero")
    pure()
    sample_with(lambda rnd: _sample_cfg(rnd, AppHabSegment))


@lemma("csf-lies-behind-the-padded-application-and-ivt-points-at-it")
def _(ils: Nat, ivt_offset: Nat, n: Nat):
    # placement of the application segment (contract above) and of the CSF (csf_place, used by IvtHabSegment above and - the same
    # expression, align_offset(ils + len) - ivt_offset - by CsfHabSegment/BdtHabSegment.load_from_config) for 16-aligned load sizes
    requires(ils % 16 == 0 and ivt_offset <= ils)
    let(app_off=ils - ivt_offset, app_size=(n + 15) // 16 * 16, csf_off=CsfHabSegment.align_offset(ils + n) - ivt_offset)
    ensures(app_off + app_size <= csf_off, label="no-overlap")
    ensures((ivt_offset + csf_off) % 0x1000 == 0, label="csf-page-aligned-in-the-container")


PLAIN_OPTS = Obj(OptionsConfig, flags=Range(0, 7), start_address=U32, ivt_offset=Range(0, 0x2000), initial_load_size=Range(0, 0x8000),
                 entrypoint_address=U32, dcd_file_path=OneOf(None, "dcd.bin"))
PLAIN_CFG = Obj(HabConfig, options=PLAIN_OPTS, app_image=Obj(BinaryImage, offset=int, _g_len=Nat, _g_bytes=bytes, _g_invalid=bool, name=Const("child"),
                                                             execution_start_address=Const(None)))


@contract("spsdk.image.hab.segments:BdtHabSegment.load_from_config", replay=False)
def _(cls: Const(BdtHabSegment), config: PLAIN_CFG, search_paths: OneOf(None)) -> Opaque():
    # plain (not authenticated) images: the boot data describe start .. end of the application
    requires(not config.app_image._g_invalid and len(config.app_image._g_bytes) == config.app_image._g_len)
    requires(config.options.ivt_offset <= config.options.initial_load_size)
    ensures(result.segment.app_start == config.options.start_address, label="boot-data-start-is-the-start-address")
    ensures(result.segment.app_length == config.options.initial_load_size + config.app_image._g_len, label="boot-data-length-is-the-real-end-of-the-image")
    ensures(result.offset == 32, label="boot-data-right-behind-the-ivt")
    pure()
    sample_with(lambda rnd: (lambda d: (d["config"].options.__setattr__("flags", 0), d)[1])(_sample_cfg(rnd, BdtHabSegment)))


# ----------------------------------------------------------------------------------------------------------------------
# IVT / boot data binary layout (spsdk/image/segments.py): what the ROM reads is what the object says, and parse inverts export
# ----------------------------------------------------------------------------------------------------------------------
from spsdk.exceptions import SPSDKError
from spsdk.image.header import Header
from spsdk.image.segments import SegBDT, SegIVT2

inline("spsdk.image.segments:SegIVT2.validate", "spsdk.image.segments:SegIVT2.parse", "spsdk.image.segments:SegBDT.parse", "spsdk.image.segments:SegBDT.plugin", "spsdk.image.header:Header.export", "spsdk.image.header:Header.parse", "spsdk.image.header:Header.size",
       "spsdk.image.header:Header.tag", "spsdk.image.segments:SegIVT2.version", "spsdk.image.segments:BaseSegment._padding_export",
       "spsdk.image.segments:BaseSegment.padding_len")

IVT = Obj(SegIVT2, _header=Obj(Header, _tag=Const(0xD1), param=Range(0x40, 0x4F), length=Const(32)), app_address=U32, rs1=U32, dcd_address=U32,
          bdt_address=U32, ivt_address=U32, csf_address=U32, rs2=U32, padding=Range(0, 64))


def ivt_invalid(s):
    return (s.ivt_address == 0 or s.bdt_address == 0 or s.bdt_address < s.ivt_address or (s.dcd_address != 0 and s.dcd_address < s.ivt_address)
            or (s.csf_address != 0 and s.csf_address < s.ivt_address) or s.padding > 0)


def le32(v):
    return v.to_bytes(4, "little")


@contract("spsdk.image.segments:SegIVT2.export")
def _(self: IVT) -> bytes:
    raises(SPSDKError, ivt_invalid(self), label="inconsistent-pointers-are-rejected")
    returns(bytes([0xD1, 0, 32, self._header.param]) + le32(self.app_address) + le32(self.rs1) + le32(self.dcd_address) + le32(self.bdt_address)
            + le32(self.ivt_address) + le32(self.csf_address) + le32(self.rs2), label="ivt-words-as-the-rom-reads-them")
    pure()
    sample_with(lambda rnd: {"self": _mk_ivt(rnd)})


def _mk_ivt(rnd):
    s = SegIVT2(rnd.choice([0x40, 0x41, 0x43]))
    base = rnd.choice([0, 0x1000, 0x60001000, rnd.getrandbits(32)])
    s.ivt_address, s.bdt_address = base, rnd.choice([base + 32, base, 0, rnd.getrandbits(32)])
    s.app_address, s.dcd_address, s.csf_address = rnd.getrandbits(32), rnd.choice([0, base + 64, 1]), rnd.choice([0, base + 0x2000, 5])
    return s


@lemma("ivt-parse-inverts-export")
def _(ver: Range(0x40, 0x4F), app: U32, dcd: U32, bdt: U32, ivt: U32, csf: U32):
    requires(ivt != 0 and bdt == ivt + 32 and (dcd == 0 or dcd >= ivt) and (csf == 0 or csf >= ivt))
    let(data=bytes([0xD1, 0, 32, ver]) + le32(app) + le32(0) + le32(dcd) + le32(bdt) + le32(ivt) + le32(csf) + le32(0))
    let(back=SegIVT2.parse(data))
    ensures(back.app_address == app and back.dcd_address == dcd and back.bdt_address == bdt and back.ivt_address == ivt and back.csf_address == csf
            and back.version == ver and back.padding == 0, label="every-pointer-comes-back")


@contract("spsdk.image.segments:SegBDT.export")
def _(self: Obj(SegBDT, app_start=U32, app_length=U32, _plugin=Range(0, 2), padding=OneOf(0, 20))) -> bytes:
    returns(le32(self.app_start) + le32(self.app_length) + le32(self._plugin) + bytes(self.padding), label="start-length-plugin-then-zero-padding")
    pure()
    sample_with(lambda rnd: {"self": (lambda b: (setattr(b, "padding", rnd.choice([0, 20])), b)[1])(SegBDT(rnd.getrandbits(32), rnd.getrandbits(32), rnd.randrange(3)))})


@lemma("boot-data-parse-inverts-export")
def _(start: U32, length: U32, plugin: Range(0, 2)):
    let(back=SegBDT.parse(le32(start) + le32(length) + le32(plugin) + bytes(20)))
    ensures(back.app_start == start and back.app_length == length and back.plugin == plugin, label="start-length-plugin-come-back")


# ----------------------------------------------------------------------------------------------------------------------
# SRK table items for ECC keys (spsdk/image/secret.py): fixed-width coordinates, and parse inverts export for every curve
# ----------------------------------------------------------------------------------------------------------------------
from spsdk.image.secret import SrkItemEcc  # noqa: E402

inline("spsdk.image.secret:SrkItemEcc.__init__", "spsdk.image.secret:SrkItemEcc.flag", "spsdk.crypto.keys:get_ecc_curve", "spsdk.image.secret:SrkItemEcc.parse")
_CURVE_ID = {256: 0x4B, 384: 0x4D, 521: 0x4E}


def SRKECC(bits):
    cs = (bits + 7) // 8
    return Obj(SrkItemEcc, _header=Obj(Header, _tag=Const(0xE1), param=Const(0x27), length=Const(4 + 8 + 2 * cs)), x_coordinate=Range(0, (1 << bits) - 1),
               y_coordinate=Range(0, (1 << bits) - 1), key_size=Const(bits), coordinate_size=Const(cs), _flag=OneOf(0, 0x80))


def srk_ecc_bytes(bits, flag, x, y):
    cs = (bits + 7) // 8
    return (bytes([0xE1]) + (12 + 2 * cs).to_bytes(2, "big") + bytes([0x27, 0, 0, 0, flag, _CURVE_ID[bits], 0]) + bits.to_bytes(2, "big")
            + x.to_bytes(cs, "big") + y.to_bytes(cs, "big"))


@contract("spsdk.image.secret:SrkItemEcc.export")
def _(self: Union[SRKECC(256), SRKECC(384), SRKECC(521)]) -> bytes:
    returns(srk_ecc_bytes(self.key_size, self._flag, self.x_coordinate, self.y_coordinate), label="header-flag-curve-keysize-then-fixed-width-x-y")
    pure()
    sample_with(lambda rnd: {"self": (lambda b: SrkItemEcc(b, rnd.getrandbits(b - rnd.choice([0, 9, 17])), rnd.getrandbits(b), rnd.choice([0, 0x80])))(rnd.choice([256, 384, 521]))})


@lemma("srk-ecc-item-parse-inverts-export-for-every-curve")
def _(bits: OneOf(256, 384, 521), flag: OneOf(0, 0x80), x: Nat, y: Nat):
    requires(x < 2 ** bits and y < 2 ** bits)
    let(back=SrkItemEcc.parse(srk_ecc_bytes(bits, flag, x, y)))
    ensures(back.x_coordinate == x and back.y_coordinate == y and back.key_size == bits and back.flag == flag, label="coordinates-keysize-flag-come-back")


from spsdk.image.secret import SrkItemRSA  # noqa: E402

inline("spsdk.image.secret:SrkItemRSA.__init__", "spsdk.image.secret:SrkItemRSA.flag", "spsdk.image.secret:SrkItemRSA.parse")


def SRKRSA(nbytes, ebytes):
    return Obj(SrkItemRSA, _header=Obj(Header, _tag=Const(0xE1), param=Const(0x21), length=Const(4 + 8 + nbytes + ebytes)), modulus=Bytes(nbytes), exponent=Bytes(ebytes),
               _flag=OneOf(0, 0x80))


def srk_rsa_bytes(flag, modulus, exponent):
    return (bytes([0xE1]) + (12 + len(modulus) + len(exponent)).to_bytes(2, "big") + bytes([0x21, 0, 0, 0, flag]) + len(modulus).to_bytes(2, "big")
            + len(exponent).to_bytes(2, "big") + modulus + exponent)


@contract("spsdk.image.secret:SrkItemRSA.export")
def _(self: Union[SRKRSA(256, 3), SRKRSA(384, 3), SRKRSA(512, 3), SRKRSA(256, 4), SRKRSA(128, 1)]) -> bytes:
    returns(srk_rsa_bytes(self._flag, self.modulus, self.exponent), label="header-flag-lengths-then-modulus-exponent")
    pure()
    sample_with(lambda rnd: {"self": SrkItemRSA(bytes(rnd.getrandbits(8) for _ in range(rnd.choice([128, 256, 384, 512]))), rnd.choice([b"\x01\x00\x01", b"\x03"]),
                                                rnd.choice([0, 0x80]))})


@lemma("srk-rsa-item-parse-inverts-export")
def _(flag: OneOf(0, 0x80), modulus: Union[Bytes(256), Bytes(384), Bytes(512)], exponent: Union[Bytes(3), Bytes(4)]):
    let(back=SrkItemRSA.parse(srk_rsa_bytes(flag, modulus, exponent)))
    ensures(back.modulus == modulus and back.exponent == exponent and back.flag == flag, label="modulus-exponent-flag-come-back")


# ----------------------------------------------------------------------------------------------------------------------
# XMCD block inside a HAB image (spsdk/image/segments.py): header byte layout, size, and parse inverts export
# ----------------------------------------------------------------------------------------------------------------------
from spsdk.image.segments import SegXMCD, XMCDHeader  # noqa: E402

inline("spsdk.image.segments:XMCDHeader.__init__", "spsdk.image.segments:XMCDHeader.parse", "spsdk.image.segments:XMCDHeader.config_data_size")
XHDR = Obj(XMCDHeader, tag=Const(0x0C), version=Const(0), interface=OneOf(0, 1), instance=Range(0, 15), block_type=OneOf(0, 1), block_size=Range(4, 4095))


@contract("spsdk.image.segments:XMCDHeader.export")
def _(self: XHDR) -> bytes:
    # byte 0: size bits 7..0; byte 1: block type << 4 | size bits 11..8; byte 2: interface << 4 | instance; byte 3: tag << 4 | version
    returns(bytes([self.block_size % 256, self.block_type * 16 + self.block_size // 256, self.interface * 16 + self.instance, 0xC0]),
            label="size-type-interface-instance-tag-in-their-nibbles")
    pure()
    sample_with(lambda rnd: {"self": XMCDHeader(rnd.randrange(2), rnd.randrange(16), rnd.randrange(2), rnd.choice([4, 12, 260, 516]))})


@lemma("xmcd-header-parse-inverts-export")
def _(interface: OneOf(0, 1), instance: Range(0, 15), block_type: OneOf(0, 1), block_size: Range(4, 4095)):
    let(back=XMCDHeader.parse(XMCDHeader(interface, instance, block_type, block_size).export()))
    ensures(back.interface == interface and back.instance == instance and back.block_type == block_type and back.block_size == block_size,
            label="interface-instance-type-size-come-back")


@contract("spsdk.image.segments:SegXMCD.size")
def _(self: Obj(SegXMCD, header=XHDR, config_data=Bytes(lo=0, hi=4091), padding=Const(0))) -> int:
    returns(4 + len(self.config_data), label="size-is-the-length-of-the-export")
    pure()
    sample_with(lambda rnd: {"self": SegXMCD(XMCDHeader(), bytes(rnd.randrange(0, 300)))})


# ----------------------------------------------------------------------------------------------------------------------
# CSF Authenticate Data command (spsdk/image/commands.py): the block list in the command is the one that was given
# ----------------------------------------------------------------------------------------------------------------------
from spsdk.image.commands import CmdAuthData, EnumAuthDat, EnumCertFormat, EnumEngine  # noqa: E402
from spsdk.image.header import CmdHeader as CsfCmdHeader  # noqa: E402

inline("spsdk.image.commands:CmdBase.export", "spsdk.image.commands:CmdBase.size", "spsdk.image.commands:CmdAuthData.key_index",
       "spsdk.image.commands:CmdAuthData.engine", "spsdk.image.header:CmdHeader.tag")
_FMT = OneOf(EnumCertFormat.CMS, EnumCertFormat.AEAD)
_ENG = OneOf(EnumEngine.ANY, EnumEngine.CAAM, EnumEngine.DCP)


def AUTDAT(k):
    return Obj(CmdAuthData, _header=Obj(CsfCmdHeader, _tag=Const(0xCA), param=OneOf(0, 1), length=Const(12 + 8 * k)), _key_index=Range(0, 5), sig_format=_FMT,
               _engine=_ENG, engine_cfg=U8, location=U32, _blocks=ListOf(ListOf(U32, 2), k))


def _mk_aut(rnd):
    c = CmdAuthData(rnd.choice(list(EnumAuthDat)), rnd.randrange(6), rnd.choice([EnumCertFormat.CMS, EnumCertFormat.AEAD]),
                    rnd.choice([EnumEngine.ANY, EnumEngine.CAAM, EnumEngine.DCP]), rnd.getrandbits(8), rnd.getrandbits(32))
    for _ in range(rnd.randrange(0, 4)):
        c.append(rnd.getrandbits(32), rnd.getrandbits(32))
    return c


@contract("spsdk.image.commands:CmdAuthData.append")
def _(self: Union[AUTDAT(0), AUTDAT(1), AUTDAT(2)], start_address: U32, size: U32):
    ensures(len(self._blocks) == old(len(self._blocks)) + 1 and self._blocks[len(self._blocks) - 1][0] == start_address
            and self._blocks[len(self._blocks) - 1][1] == size, label="block-appended-as-given")
    ensures(self._header.length == 12 + 8 * len(self._blocks), label="command-length-follows-the-block-count")
    modifies(self._blocks, self._header.length)
    sample_with(lambda rnd: {"self": _mk_aut(rnd), "start_address": rnd.getrandbits(32), "size": rnd.getrandbits(32)})


@contract("spsdk.image.commands:CmdAuthData.export")
def _(self: Union[AUTDAT(0), AUTDAT(1), AUTDAT(2), AUTDAT(3)]) -> bytes:
    let(k=len(self._blocks))
    ensures(len(result) == 12 + 8 * k, label="header-parameters-then-8-bytes-per-block")
    ensures(result[0] == 0xCA and result[1] * 256 + result[2] == 12 + 8 * k and result[3] == self._header.param, label="tag-length-flags")
    ensures(result[4] == self._key_index and result[5] == self.sig_format.tag and result[6] == self._engine.tag and result[7] == self.engine_cfg
            and int.from_bytes(result[8:12], "big") == self.location, label="key-format-engine-config-location")
    ensures(all(int.from_bytes(result[12 + 8 * i: 16 + 8 * i], "big") == self._blocks[i][0] and int.from_bytes(result[16 + 8 * i: 20 + 8 * i], "big") == self._blocks[i][1]
                for i in range(k)), label="blocks-address-then-size-big-endian-in-order")
    modifies(self._header.length)
    sample_with(lambda rnd: {"self": _mk_aut(rnd)})


# ---- MAC structure of an encrypted image (nonce || MAC the ROM feeds to AES-CCM) -----------------------------------------------------------
from spsdk.image.secret import MAC  # noqa: E402

inline("spsdk.image.secret:MAC.size", "spsdk.image.secret:MAC._validate_data", "spsdk.image.secret:MAC.data", "spsdk.image.secret:MAC.__init__",
       "spsdk.image.secret:BaseSecretClass.__init__", "spsdk.image.secret:MAC.parse", "spsdk.image.secret:BaseSecretClass.version")


def MACOBJ():
    return Obj(MAC, _header=Obj(Header, _tag=Const(0xAC), param=Range(0x40, 0x45), length=Range(4, 65535)), nonce_len=Range(0, 13), mac_len=Range(4, 16), _data=Bytes(lo=0, hi=32))


@contract("spsdk.image.secret:MAC.export")
def _(self: MACOBJ()) -> bytes:
    raises(SPSDKError, len(self._data) != self.nonce_len + self.mac_len, label="data-must-be-nonce-plus-mac")
    returns(bytes([0xAC]) + (8 + self.nonce_len + self.mac_len).to_bytes(2, "big") + bytes([self._header.param, 0, self.nonce_len, 0, self.mac_len]) + self._data,
            label="tag-length-version-noncelen-maclen-then-nonce-mac")
    modifies(self._header.length)
    sample_with(lambda rnd: (lambda n, m: {"self": MAC(0x40 + rnd.randrange(4), n, m, bytes(rnd.getrandbits(8) for _ in range(n + m)))})(rnd.choice([11, 12, 13]), rnd.choice([4, 8, 16])))


@lemma("mac-structure-parse-inverts-export")
def _(version: Range(0x40, 0x45), nonce: Union[Bytes(11), Bytes(12), Bytes(13)], mac: Union[Bytes(4), Bytes(6), Bytes(16)]):
    let(back=MAC.parse(bytes([0xAC]) + (8 + len(nonce) + len(mac)).to_bytes(2, "big") + bytes([version, 0, len(nonce), 0, len(mac)]) + nonce + mac + bytes(7)))
    ensures(back.nonce_len == len(nonce) and back.mac_len == len(mac) and back._data == nonce + mac and back._header.param == version, label="nonce-and-mac-come-back")


# ---- CSF Install Key / NOP commands: what the ROM reads is what was asked for, and parse inverts export -------------------------------------------------
from spsdk.image.commands import CmdInstallKey, CmdNop as CsfCmdNop, EnumInsKey  # noqa: E402
from spsdk.image.secret import EnumAlgorithm  # noqa: E402
from struct import unpack_from as _unp7  # noqa: E402

inline("spsdk.image.commands:CmdInstallKey.__init__", "spsdk.image.commands:CmdInstallKey.flags", "spsdk.image.commands:CmdInstallKey.certificate_format",
       "spsdk.image.commands:CmdInstallKey.hash_algorithm", "spsdk.image.commands:CmdInstallKey.source_index", "spsdk.image.commands:CmdInstallKey.target_index",
       "spsdk.image.commands:CmdInstallKey.cmd_data_location", "spsdk.image.commands:CmdInstallKey.export", "spsdk.image.commands:CmdInstallKey.parse",
       "spsdk.image.commands:CmdBase.__init__", "spsdk.image.header:CmdHeader.__init__", "spsdk.image.header:Header.__init__", "spsdk.image.header:CmdHeader.parse",
       "spsdk.utils.spsdk_enum:SpsdkEnum.from_tag", "spsdk.image.commands:CmdNop.__init__", "spsdk.image.commands:CmdNop.parse")
concrete_ok("spsdk.utils.spsdk_enum:SpsdkEnum.tags")


@lemma("install-key-command-reaches-the-rom-as-given-and-parses-back")
def _(flags: OneOf(EnumInsKey.CLR, EnumInsKey.ABS, EnumInsKey.CSF), fmt: OneOf(EnumCertFormat.SRK, EnumCertFormat.X509, EnumCertFormat.CMS, EnumCertFormat.BLOB),
      alg: OneOf(EnumAlgorithm.ANY, EnumAlgorithm.SHA256), src: OneOf(0, 2, 3), tgt: Range(0, 5), location: U32):
    # source indices 0, 2, 3 are legal for every key format (1 only for SRK, 4 and 5 only for the others: the constructor rejects the rest)
    let(raw=CmdInstallKey(flags, fmt, alg, src, tgt, location).export())
    ensures(len(raw) == 12 and raw[0] == 0xBE and raw[1] * 256 + raw[2] == 12 and raw[3] == flags.tag, label="tag-length-flags")
    ensures(_unp7(">4BL", raw, 4) == (fmt.tag, alg.tag, src, tgt, location), label="protocol-algorithm-source-target-location")
    let(back=CmdInstallKey.parse(raw))
    ensures(back.flags == flags and back.certificate_format == fmt and back.hash_algorithm == alg and back.source_index == src and back.target_index == tgt
            and back.cmd_data_location == location, label="parse-inverts-export")


@lemma("csf-nop-is-a-bare-header")
def _(param: U8):
    let(raw=CsfCmdNop(param).export())
    ensures(raw == bytes([0xC0, 0, 4, param]), label="tag-length-parameter")
    ensures(CsfCmdNop.parse(raw).export() == raw, label="parse-inverts-export")
