"""C19 — BD command files mean what they say (spsdk/sbfile/sb2/sly_bd_parser.py, sb_21_helper.py).

Structural induction over derivations: every grammar action is a unit; if each action returns the value the language
semantics prescribe for its production given its children's values, every program evaluates correctly (A-sly: sly builds
the LALR automaton denoted by the grammar strings and `precedence`, and calls exactly the action of each reduced production).
Actions share method names, so they are located by production string: `Class.method@<production>`.
"""
from vf.api import *  # noqa
from spsdk.exceptions import SPSDKError
from spsdk.sbfile.sb2.sly_bd_parser import BDParser
from spsdk.sbfile.sb2.sb_21_helper import SB21Helper
from spsdk.sbfile.sb2.commands import CmdFill
from specs.bd import Tok

P = "spsdk.sbfile.sb2.sly_bd_parser:BDParser."
ARITH_OPS = ("+", "-", "*", "/", "%", "<<", ">>", "&", "|", "^")
SELF = Obj(BDParser, _input=Const("x = 1;"), _parse_error=bool)
inline("spsdk.sbfile.sb2.sly_bd_parser:BDParser.error")


def binop_tok(ops, kind="expr"):
    return Obj(Tok, _order=Const((kind + "0", "op", kind + "1")), op=OneOf(*ops), **{kind + "0": int, kind + "1": int})


def bd_arith(op, a, b):
    """Ordinary integer arithmetic of the BD language ('/' is integer division)."""
    return (a + b if op == "+" else a - b if op == "-" else a * b if op == "*" else a // b if op == "/" else a % b if op == "%"
            else a * 2 ** b if op == "<<" else a // 2 ** b if op == ">>" else None)


@contract(P + "expr@expr PLUS expr")
def _(self: SELF, token: binop_tok(("+", "-", "*", "/", "%"))) -> int:
    requires(implies(token.op in ("/", "%"), token.expr1 > 0))      # division by zero / negative divisors: outside the documented subset
    returns(bd_arith(token.op, token.expr0, token.expr1), label="ordinary-arithmetic")
    pure()
    sample_with(lambda rnd: {"self": _parser(), "token": Tok(("expr0", "op", "expr1"), expr0=rnd.randrange(-50, 1000), op=rnd.choice(["+", "-", "*", "/", "%"]),
                                                           expr1=rnd.randrange(1, 60))})


@contract(P + "expr@expr LSHIFT expr")
def _(self: SELF, token: Obj(Tok, _order=Const(("expr0", "op", "expr1")), op=OneOf("<<", ">>"), expr0=Nat, expr1=OneOf(0, 1, 4, 8, 12, 31))) -> int:
    returns(bd_arith(token.op, token.expr0, token.expr1), label="shifts")
    pure()
    sample_with(lambda rnd: {"self": _parser(), "token": Tok(("expr0", "op", "expr1"), expr0=rnd.randrange(0, 1 << 20), op=rnd.choice(["<<", ">>"]),
                                                           expr1=rnd.choice([0, 1, 4, 8, 12, 31]))})


@contract(P + "expr@expr AND expr")
def _(self: SELF, token: Obj(Tok, _order=Const(("expr0", "op", "expr1")), op=OneOf("&", "|", "^"), expr0=U32, expr1=U32)) -> int:
    # the right bitwise operator is applied to the two operands, in order (the operators themselves are Python's: A-enc)
    returns(token.expr0 & token.expr1 if token.op == "&" else token.expr0 | token.expr1 if token.op == "|" else token.expr0 ^ token.expr1,
            label="bitwise")
    pure()
    sample_with(lambda rnd: {"self": _parser(), "token": Tok(("expr0", "op", "expr1"), expr0=rnd.getrandbits(32), op=rnd.choice(["&", "|", "^"]),
                                                           expr1=rnd.getrandbits(32))})


@contract(P + "expr@expr PERIOD INT_SIZE")
def _(self: SELF, token: Obj(Tok, _order=Const(("expr", "op", "INT_SIZE")), op=Const("."), expr=int, INT_SIZE=OneOf("w", "h", "b"))) -> int:
    # word / half-word / byte (elftosb: w = 32 bits, h = 16 bits, b = 8 bits)
    returns(token.expr % (2 ** 32 if token.INT_SIZE == "w" else 2 ** 16 if token.INT_SIZE == "h" else 2 ** 8), label="size-suffix-truncates")
    pure()
    sample_with(lambda rnd: {"self": _parser(), "token": Tok(("expr", "op", "INT_SIZE"), expr=rnd.getrandbits(40), op=".", INT_SIZE=rnd.choice("whb"))})


@contract(P + "expr@LPAREN expr RPAREN")
def _(self: SELF, token: Obj(Tok, _order=Const(("LPAREN", "expr", "RPAREN")), LPAREN=Const("("), expr=int, RPAREN=Const(")"))) -> int:
    returns(token.expr, label="parentheses")
    pure()
    sample_with(lambda rnd: {"self": _parser(), "token": Tok(("LPAREN", "expr", "RPAREN"), LPAREN="(", expr=rnd.randrange(-9, 99), RPAREN=")")})


@contract(P + "unary_expr@PLUS expr")
def _(self: SELF, token: Obj(Tok, _order=Const(("sign", "expr")), sign=OneOf("+", "-"), expr=int)) -> int:
    returns(-token.expr if token.sign == "-" else token.expr, label="unary-sign")
    pure()
    sample_with(lambda rnd: {"self": _parser(), "token": Tok(("sign", "expr"), sign=rnd.choice("+-"), expr=rnd.randrange(-9, 99))})


CMP_OPS = ("<", "<=", ">", ">=", "==", "!=")


@contract(P + "bool_expr@bool_expr LT bool_expr")
def _(self: SELF, token: binop_tok(CMP_OPS, "bool_expr")) -> bool:
    let(a=token.bool_expr0, b=token.bool_expr1, op=token.op)
    returns(a < b if op == "<" else a <= b if op == "<=" else a > b if op == ">" else a >= b if op == ">=" else a == b if op == "==" else a != b,
            label="comparison")
    pure()
    sample_with(lambda rnd: {"self": _parser(), "token": Tok(("bool_expr0", "op", "bool_expr1"), bool_expr0=rnd.randrange(0, 5), op=rnd.choice(CMP_OPS),
                                                           bool_expr1=rnd.randrange(0, 5))})


@contract(P + "bool_expr@bool_expr LAND bool_expr")
def _(self: SELF, token: Obj(Tok, _order=Const(("bool_expr0", "op", "bool_expr1")), op=OneOf("&&", "||"), bool_expr0=Union[bool, int], bool_expr1=Union[bool, int])) -> int:
    # operands are C-like truth values: a boolean expression may be any integer constant expression (non-zero = true)
    let(a=token.bool_expr0 != 0, b=token.bool_expr1 != 0)
    ensures((result != 0) == ((a and b) if token.op == "&&" else (a or b)), label="logical-on-truth-values")
    pure()
    sample_with(lambda rnd: {"self": _parser(), "token": Tok(("bool_expr0", "op", "bool_expr1"), bool_expr0=rnd.choice([False, True, 0, 1, 2, 4, 6]), op=rnd.choice(["&&", "||"]),
                                                           bool_expr1=rnd.choice([False, True, 0, 1, 3]))})


@contract(P + "bool_expr@LNOT bool_expr")
def _(self: SELF, token: Obj(Tok, _order=Const(("LNOT", "bool_expr")), LNOT=Const("!"), bool_expr=bool)) -> bool:
    returns(not token.bool_expr, label="logical-not")
    pure()
    sample_with(lambda rnd: {"self": _parser(), "token": Tok(("LNOT", "bool_expr"), LNOT="!", bool_expr=rnd.random() < .5)})


@contract(P + "address_or_range@int_const_expr RANGE int_const_expr")
def _(self: SELF, token: Obj(Tok, _order=Const(("int_const_expr0", "RANGE", "int_const_expr1")), RANGE=Const(".."), int_const_expr0=int,
                             int_const_expr1=int)) -> Opaque():
    ensures(result["address"] == token.int_const_expr0 and result["length"] == token.int_const_expr1 - token.int_const_expr0,
            label="range-start-and-length")
    pure()
    sample_with(lambda rnd: {"self": _parser(), "token": Tok(("int_const_expr0", "RANGE", "int_const_expr1"), RANGE="..", int_const_expr0=rnd.randrange(0, 999),
                                                           int_const_expr1=rnd.randrange(999, 9999))})


# ---- constructs SPSDK does not support are refused, never mis-translated -----------------------------------------------------
def _refused(production, order, **named):
    types = {k: Const(v) for k, v in named.items()}
    tok = Obj(Tok, _order=Const(tuple(order)), lineno=Const(-1), **types)
    return tok


@contract(P + "expr@SIZEOF LPAREN IDENT RPAREN")
def _(self: SELF, token: _refused("sizeof", ("SIZEOF", "LPAREN", "IDENT", "RPAREN"), SIZEOF="sizeof", LPAREN="(", IDENT="a", RPAREN=")")):
    raises(SPSDKError, True, label="sizeof-refused")
    modifies(self._parse_error)
    sample_with(lambda rnd: {"self": _parser(), "token": Tok(("SIZEOF", "LPAREN", "IDENT", "RPAREN"), SIZEOF="sizeof", LPAREN="(", IDENT="a", RPAREN=")")})


@contract(P + "if_stmt@IF bool_expr LBRACE statement RBRACE else_stmt")
def _(self: SELF, token: Obj(Tok, _order=Const(("IF", "bool_expr")), lineno=Const(-1), IF=Const("if"), bool_expr=bool, statement=Const([]), else_stmt=Const([]))):
    raises(SPSDKError, True, label="if-else-refused")
    modifies(self._parse_error)
    sample_with(lambda rnd: {"self": _parser(), "token": Tok(("IF", "bool_expr"), IF="if", bool_expr=True, statement=[], else_stmt=[])})


def _parser():
    p = object.__new__(BDParser)
    p._input = "x = 1;"
    p._parse_error = False
    p._variables = []
    return p


# ---- precedence table (data obligation; A-sly gives it its meaning) ------------------------------------------------------------
@lemma("precedence-table-is-the-documented-C-like-table")
def _():
    let(t=BDParser.precedence)
    # loosest to tightest: || , && , | , ^ , & , == != , relational , shifts , + - , * / % , unary
    ensures(t[0] == ("left", "LOR") and t[1] == ("left", "LAND") and t[2] == ("left", "OR") and t[3] == ("left", "XOR")
            and t[4] == ("left", "AND"), label="logical-and-bitwise-levels")
    ensures(t[5] == ("left", "EQ", "NE") and t[6] == ("left", "GT", "GE", "LT", "LE"), label="comparison-levels")
    ensures(t[7] == ("left", "LSHIFT", "RSHIFT") and t[8] == ("left", "PLUS", "MINUS") and t[9] == ("left", "TIMES", "DIVIDE", "MOD"),
            label="shift-additive-multiplicative-levels")
    ensures(t[10] == ("right", "SIZEOF") and t[11] == ("right", "LNOT", "NOT") and len(t) == 12, label="unary-levels")


# ---- statement -> command -------------------------------------------------------------------------------------------------------
inline("spsdk.sbfile.sb2.commands:CmdFill.__init__", "spsdk.sbfile.sb2.commands:CmdBaseClass.__init__", "spsdk.sbfile.sb2.commands:CmdHeader.__init__",
       "spsdk.sbfile.sb2.commands:CmdFill.address")
PATTERNS = OneOf(0, 0x55, 0x1122, 0x11223344, 0xA1B2C3)


def replicated(pattern):
    """A 1-, 2- or 4-byte pattern as written, replicated to a 32-bit word (3-byte values count as words)."""
    return (pattern * 0x01010101 if pattern < 256 else pattern * 0x00010001 if pattern < 65536 else pattern)


@contract("spsdk.sbfile.sb2.sb_21_helper:SB21Helper._fill_memory")
def _(self: Obj(SB21Helper, zero_filling=bool),
      cmd_args: Union[DictOf(address=U32, pattern=PATTERNS), DictOf(address=U32, pattern=PATTERNS, length=Range(1, 1 << 24))]) -> Opaque():
    raises(SPSDKError, "length" in cmd_args and cmd_args["length"] % 4 != 0, label="length-multiple-of-4")
    ensures(typed(result, CmdFill), label="one-fill-command")
    ensures(result._header.address == cmd_args["address"], label="address")
    ensures(result._header.count == (cmd_args["length"] if "length" in cmd_args else 4), label="whole-range-is-filled")
    ensures(result._header.data == replicated(cmd_args["pattern"]), label="pattern-as-written")
    pure()


# ---- load statement with a memory option: the command carries the memory the statement names, for file data as well as for blobs ------------
from spsdk.sbfile.sb2.commands import CmdLoad  # noqa: E402
from spsdk.utils.misc import load_binary  # noqa: E402

inline("spsdk.sbfile.sb2.commands:CmdLoad.__init__", "spsdk.sbfile.sb2.commands:CmdLoad.address", "spsdk.sbfile.sb2.commands:CmdLoad.flags",
       "spsdk.sbfile.sb2.commands:get_device_id", "spsdk.sbfile.sb2.commands:get_group_id", "spsdk.sbfile.sb2.sb_21_helper:SB21Helper.get_mem_id")


@contract("spsdk.sbfile.sb2.sb_21_helper:SB21Helper._load", replay=False)
def _(self: Obj(SB21Helper, zero_filling=bool, search_paths=Const(None)),
      cmd_args: Union[DictOf(address=U32, file=Const("app.bin")), DictOf(address=U32, file=Const("app.bin"), load_opt=OneOf(0x110, 0x120, 0x900, 9, 1))]) -> Opaque():
    # memory id as written in the BD file: device id = bits 7..0, group = bits 11..8; the ROM reads the device id from bits 15..8 and the group from
    # bits 7..4 of the LOAD command's flags
    let(mem=cmd_args["load_opt"] if "load_opt" in cmd_args else 0)
    ensures(typed(result, CmdLoad) and result._header.address == cmd_args["address"], label="one-load-command-at-the-address")
    ensures(result._header.flags // 256 % 256 == mem % 256 and result._header.flags // 16 % 16 == mem // 256 % 16, label="memory-of-the-statement-in-the-command-flags")
    ensures(result.mem_id == mem, label="memory-id-kept")
    pure()
    sample_with(lambda rnd: _sample_load(rnd))


def _sample_load(rnd):
    import os
    import tempfile

    d = tempfile.mkdtemp(prefix="vf-c19-")
    with open(os.path.join(d, "app.bin"), "wb") as f:
        f.write(bytes(rnd.getrandbits(8) for _ in range(rnd.choice([1, 16, 40]))))
    h = object.__new__(SB21Helper)
    h.zero_filling, h.search_paths = rnd.random() < 0.5, [d]
    args = {"address": rnd.getrandbits(32), "file": "app.bin"}
    if rnd.random() < 0.7:
        args["load_opt"] = rnd.choice([0x110, 0x120, 0x900, 9, 1])
    return {"self": h, "cmd_args": args}
