"""C16 — BinaryImage: composition, validation (spsdk/utils/images.py).

Induction over tree depth is modular: a node's children are *abstract* images known only through the
contracts of __len__/export/validate, expressed with ghost attributes (_g_len, _g_bytes, _g_invalid) that
the contract of each method proves equal to the abstract view of the property for a node whose children
satisfy theirs.  Width: nodes with 0..3 children are instantiated (loops over sub_images are unrolled
completely for each width); wider nodes are covered by the seeded runtime cross-check only (bounded).
"""
from vf.api import *  # noqa
from spsdk.exceptions import SPSDKError, SPSDKValueError, SPSDKOverlapError
from spsdk.utils.images import BinaryImage
from spsdk.utils.misc import BinaryPattern

PAT = Optional[Obj(BinaryPattern, _pattern=OneOf("zeros", "ones", "inc"))]
# an abstract child: any sub-tree, seen through its contracts
ABS = Obj(BinaryImage, offset=int, _g_len=Nat, _g_bytes=bytes, _g_invalid=bool, name=Const("child"))


def NODE(k):
    return Obj(BinaryImage, offset=int, _size=Nat, binary=Optional[bytes], pattern=PAT, alignment=Range(1, None),
               sub_images=ListOf(ABS, k), name=Const("node"), _g_len=Nat, _g_bytes=bytes, _g_invalid=bool)


def NODE_NP(k):
    """Node without fill pattern (the pattern is irrelevant to __len__ / validate)."""
    return Obj(BinaryImage, offset=int, _size=Nat, binary=Optional[bytes], pattern=Const(None), alignment=Range(1, None),
               sub_images=ListOf(ABS, k), name=Const("node"), _g_len=Nat, _g_bytes=bytes, _g_invalid=bool)


ANY_IMG = Union[ABS, NODE(0), NODE(1), NODE(2), NODE(3)]
NODES = Union[NODE(0), NODE(1), NODE(2), NODE(3)]
NODES_NP = Union[NODE_NP(0), NODE_NP(1), NODE_NP(2), NODE_NP(3)]
inline("spsdk.utils.images:BinaryImage.add_image")


def concrete(img):
    return hasattr(img, "sub_images")


def align_up(n, a):
    return (n + a - 1) // a * a


def content_len(img):
    """max(len(binary), max_i(offset_i + len(child_i)))"""
    m = len(img.binary) if img.binary is not None else 0
    for c in img.sub_images:
        m = c.offset + c._g_len if c.offset + c._g_len > m else m
    return m


def spec_len(img):
    """The reported length as the property defines it."""
    return img._size if img._size != 0 else align_up(content_len(img), img.alignment)


def pattern_byte(img, k):
    return 0 if img.pattern is None else (255 if img.pattern._pattern == "ones" else (k % 256 if img.pattern._pattern == "inc" else 0))


def spec_byte(img, k):
    """Byte k of the abstract view: last-listed child covering k, else binary, else fill pattern."""
    v = img.binary[k] if img.binary is not None and k < len(img.binary) else pattern_byte(img, k)
    for c in img.sub_images:
        v = c._g_bytes[k - c.offset] if c.offset <= k and k < c.offset + c._g_len else v
    return v


def wf(img):
    """Representation invariant of a node (children: ghost consistency)."""
    ok = img._size % img.alignment == 0 and (img._size == 0 or img.binary is None or len(img.binary) <= img._size)
    for c in img.sub_images:
        ok = ok and len(c._g_bytes) == c._g_len
    return ok


def sticks_out(img):
    r = False
    for c in img.sub_images:
        r = r or c.offset + c._g_len > spec_len(img)
    return r


def overlap(a, b):
    """Two siblings overlap: their half-open ranges intersect (empty images overlap nothing)."""
    return a._g_len > 0 and b._g_len > 0 and a.offset < b.offset + b._g_len and b.offset < a.offset + a._g_len


def siblings_overlap(img):
    r = False
    for i in range(len(img.sub_images)):
        for j in range(i + 1, len(img.sub_images)):
            r = r or overlap(img.sub_images[i], img.sub_images[j])
    return r


def child_invalid(img):
    r = False
    for c in img.sub_images:
        r = r or c._g_invalid or c.offset < 0
    return r


def spec_invalid(img):
    return img.offset < 0 or child_invalid(img) or sticks_out(img) or siblings_overlap(img)


def empty_child_inside_sibling(img):
    """Input class of known finding C16-KF1: a zero-length child positioned strictly inside a non-empty sibling."""
    r = False
    if concrete(img):
        for a in img.sub_images:
            for b in img.sub_images:
                if a is not b:
                    r = r or (a._g_len == 0 and b._g_len > 0 and b.offset < a.offset and a.offset < b.offset + b._g_len)
        for a in img.sub_images:  # at run time children are real sub-trees: the class is "anywhere in the tree"
            r = r or empty_child_inside_sibling(a)
    return r


def gen_tree(rnd, depth=0, max_children=3):
    """Real BinaryImage trees with the ghost attributes attached bottom-up by the executable abstract view."""
    k = rnd.choice([0, 0, 1, 2, 3]) if depth < 3 else 0
    if max_children > 3 and depth == 0:
        k = rnd.choice([4, 5, 6])
    alignment = rnd.choice([1, 1, 2, 4, 8, 16])
    binary = None
    if rnd.random() < 0.5:
        binary = bytes(rnd.getrandbits(8) for _ in range(rnd.choice([0, 1, 3, 4, 7, 16, 33])))
    pattern = rnd.choice([None, BinaryPattern("zeros"), BinaryPattern("ones"), BinaryPattern("inc")])
    img = BinaryImage("node", size=0, offset=rnd.choice([0, 0, 4, 16, 100]) if depth else rnd.choice([0, 0x1000, -4]),
                      binary=binary, pattern=pattern, alignment=alignment)
    pos = len(binary) if binary else 0
    for _ in range(k):
        c = gen_tree(rnd, depth + 1)
        mode = rnd.random()
        if mode < 0.6:
            c.offset = pos + rnd.choice([0, 0, 1, 4, 13])
        elif mode < 0.8:
            c.offset = rnd.randrange(0, pos + 8)
        else:
            c.offset = rnd.choice([0, 5, pos])
        c.name = "child"
        img.add_image(c)
        pos = max(pos, c.offset + c._g_len)
    if rnd.random() < 0.4:
        need = max([len(binary) if binary else 0] + [c.offset + c._g_len for c in img.sub_images])
        img._size = align_up(need + rnd.choice([0, 0, 3, 16]) - rnd.choice([0, 0, 0, 5]), alignment)
        if img._size < (len(binary) if binary else 0):   # wf at every level: an explicit size never cuts the node's own binary
            img._size = align_up(len(binary) if binary else 0, alignment)
    object.__setattr__(img, "_g_len", spec_len(img))
    object.__setattr__(img, "_g_invalid", bool(spec_invalid(img)))
    n = img._g_len
    object.__setattr__(img, "_g_bytes", bytes(spec_byte(img, kk) for kk in range(n)))
    return img


def realize(kwargs):
    """Counter-models contain abstract children (ghost attributes only): turn each into a real leaf image with the same
    length, bytes and validity, so that the real methods can run on the tree."""
    img = kwargs["self"]
    if hasattr(img, "sub_images"):
        kids = []
        for c in img.sub_images:
            if hasattr(c, "sub_images"):
                kids.append(c)
                continue
            data = bytes(c._g_bytes) if len(c._g_bytes) == c._g_len else bytes(c._g_len)
            r = BinaryImage("child", offset=c.offset, binary=data if data else None)
            if c._g_invalid:
                r.add_image(BinaryImage("bad", offset=c._g_len + 1, binary=b"x"))
                r._size = c._g_len
            for k in ("_g_len", "_g_bytes", "_g_invalid"):
                object.__setattr__(r, k, getattr(c, k))
            r.parent = img
            kids.append(r)
        img.sub_images = kids
        for k, dflt in (("description", None), ("parent", None), ("execution_start_address", None)):
            if not hasattr(img, k):
                object.__setattr__(img, k, dflt)
    return kwargs


def sample_img(rnd):
    return {"self": gen_tree(rnd, max_children=rnd.choice([3, 3, 3, 6]))}


@contract("spsdk.utils.images:BinaryImage.__len__", split=3)
def _(self: ANY_IMG) -> int:
    requires(implies(concrete(self), wf(self) and self._g_len == spec_len(self)))
    returns(self._g_len, label="reported-length")
    ensures(implies(concrete(self), result % self.alignment == 0), label="multiple-of-alignment")
    pure()
    verify_types(self=NODES_NP)
    sample_with(sample_img)
    replay_with(realize)


def offsets_nonneg(img):
    ok = True
    for c in img.sub_images:
        ok = ok and c.offset >= 0
    return ok


@contract("spsdk.utils.images:BinaryImage.export", split=8)
def _(self: ANY_IMG) -> bytes:
    # valid tree (what validate() accepts): children inside the parent, pairwise disjoint, offsets >= 0
    requires(implies(concrete(self), wf(self) and self._g_len == spec_len(self) and offsets_nonneg(self)
                     and not sticks_out(self) and not siblings_overlap(self) and not child_invalid(self)))
    requires(implies(not concrete(self), not self._g_invalid))   # only valid sub-trees are exported
    ensures(implies(not concrete(self), result == self._g_bytes), label="abstract-child")
    ensures(len(result) == self._g_len, label="reported-length")
    ensures(implies(concrete(self), forall(0, self._g_len, lambda k: result[k] == spec_byte(self, k))),
            label="bytes-at-offsets-else-binary-else-pattern")
    pure()
    verify_types(self=NODES)
    sample_with(sample_img)
    replay_with(realize)


@contract("spsdk.utils.images:BinaryImage.validate", split=7)
def _(self: ANY_IMG):
    requires(implies(concrete(self), wf(self) and self._g_len == spec_len(self) and self._g_invalid == spec_invalid(self)))
    raises(SPSDKError, self._g_invalid or self.offset < 0, label="error-iff-sticks-out-or-overlap")
    known_finding("C16-KF1", when=empty_child_inside_sibling(self))
    pure()
    verify_types(self=NODES_NP)
    sample_with(sample_img)
    replay_with(realize)


def CH():
    return Obj(BinaryImage, offset=int)


def is_sorted(lst):
    ok = True
    for i in range(len(lst) - 1):
        ok = ok and lst[i].offset <= lst[i + 1].offset
    return ok


def count_is(lst, x):
    n = 0
    for c in lst:
        if c is x:
            n += 1
    return n


@contract("spsdk.utils.images:BinaryImage.add_image")
def _(self: Union[Obj(BinaryImage, sub_images=ListOf(Opaque(), 0)), Obj(BinaryImage, sub_images=ListOf(Obj(BinaryImage, offset=int), 1)),
                  Obj(BinaryImage, sub_images=ListOf(Obj(BinaryImage, offset=int), 2))],
      image: Obj(BinaryImage, offset=int)):
    requires(is_sorted(self.sub_images))
    ensures(len(self.sub_images) == old(len(self.sub_images)) + 1 and image.parent is self, label="inserted")
    ensures(is_sorted(self.sub_images), label="sorted-by-offset")
    ensures(count_is(self.sub_images, image) == 1, label="present-once")
    ensures([c.offset for c in self.sub_images if c is not image] == old([c.offset for c in self.sub_images]), label="others-kept-in-order")
    ensures(image.offset == old(image.offset), label="offset-kept")
    modifies(self.sub_images, image.parent)
    sample_with(lambda rnd: _sample_add(rnd))


def _sample_add(rnd):
    p = BinaryImage("node")
    offs = sorted(rnd.randrange(0, 50) for _ in range(rnd.choice([0, 1, 2])))
    for o in offs:
        c = BinaryImage("c", offset=o)
        p.sub_images.append(c)
    return {"self": p, "image": BinaryImage("n", offset=rnd.randrange(0, 60))}


@contract("spsdk.utils.images:BinaryImage.append_image")
def _(self: Obj(BinaryImage, sub_images=ListOf(ABS, 1), name=Const("node"), _size=Nat, binary=Optional[bytes],
                alignment=Range(1, None), pattern=Const(None), offset=int, _g_len=Nat, _g_bytes=bytes, _g_invalid=bool),
      image: Obj(BinaryImage, offset=int, _g_len=Nat, _g_bytes=bytes, _g_invalid=bool, name=Const("child"))):
    requires(wf(self) and self._g_len == spec_len(self))
    ensures(image.offset == old(self._g_len), label="offset-is-current-length")
    ensures(image.parent is self and len(self.sub_images) == 2, label="added")
    modifies(self.sub_images, image.parent, image.offset)
    sample_with(lambda rnd: _sample_append(rnd))


def _sample_append(rnd):
    t = gen_tree(rnd, depth=2)
    t.pattern = None
    while len(t.sub_images) != 1:
        t = gen_tree(rnd, depth=0)
        t.pattern = None
    object.__setattr__(t, "_g_len", spec_len(t))
    c = gen_tree(rnd, depth=3)
    c.name = "child"
    return {"self": t, "image": c}


# ---- alignment for erasing: the aligned range starts at or before the image, ends at or behind it, both ends on the boundary, nothing wider than needed ----
ROOT = Obj(BinaryImage, offset=Range(0, 1 << 40), parent=Const(None), _g_len=Range(0, 1 << 32), _g_bytes=bytes, _g_invalid=bool, name=Const("child"))
# the parent is non-empty: `if self.parent:` in absolute_address is the truth value of the parent, i.e. its LENGTH - an empty parent (which can only hold
# empty children) is taken for "no parent"; stated here as the domain of the contract
CHILD = Obj(BinaryImage, offset=Range(0, 1 << 40), parent=Obj(BinaryImage, offset=Range(0, 1 << 40), parent=Const(None), _g_len=Range(1, 1 << 32), _g_bytes=bytes,
                                                                 _g_invalid=bool, name=Const("child")),
            _g_len=Range(0, 1 << 32), _g_bytes=bytes, _g_invalid=bool, name=Const("child"))


def abs_addr(img):
    return img.offset + (img.parent.offset if img.parent is not None else 0)


def _mk_placed(rnd):
    img = BinaryImage("x", binary=bytes(rnd.randrange(1, 40)), offset=rnd.randrange(0, 1 << 20))
    if rnd.random() < 0.5:
        p = BinaryImage("p", offset=rnd.randrange(0, 1 << 20))
        p.add_image(img)
    return img


@contract("spsdk.utils.images:BinaryImage.absolute_address")
def _(self: Union[ROOT, CHILD]) -> int:
    returns(abs_addr(self), label="own-offset-plus-the-parents")
    pure()
    sample_with(lambda rnd: {"self": _mk_placed(rnd)})


@contract("spsdk.utils.images:BinaryImage.aligned_start")
def _(self: Union[ROOT, CHILD], alignment: Range(1, 1 << 20)) -> int:
    returns(abs_addr(self) // alignment * alignment, label="largest-boundary-at-or-before-the-start")
    pure()
    sample_with(lambda rnd: {"self": _mk_placed(rnd), "alignment": rnd.choice([1, 4, 16, 1024, 4096])})


@contract("spsdk.utils.images:BinaryImage.aligned_length")
def _(self: Union[ROOT, CHILD], alignment: Range(1, 1 << 20)) -> int:
    let(start=abs_addr(self) // alignment * alignment, end=abs_addr(self) + self._g_len)
    ensures((start + result) % alignment == 0 and start + result >= end and start + result - end < alignment, label="ends-on-the-first-boundary-at-or-behind-the-end")
    pure()
    sample_with(lambda rnd: {"self": _mk_placed(rnd), "alignment": rnd.choice([1, 4, 16, 1024, 4096])})
