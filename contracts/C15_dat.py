"""C15 — debug authentication response: what is signed binds credential, beacon, (ECC) device UUID and challenge (spsdk/dat/dar_packet.py).

The credential, the challenge and the signature provider are abstract (credential = its exported bytes + its own UUID field; challenge =
device UUID + challenge vector; signer = an uninterpreted function).  Binding is proved as: the signed message is exactly
credential || LE32(beacon) || [device UUID] || challenge, and the response is that prefix (without the challenge) || signature.
"""
from vf.api import *  # noqa
from spsdk.dat.dar_packet import DebugAuthenticateResponse, DebugAuthenticateResponseECC, DebugAuthenticateResponseRSA
from spsdk.exceptions import SPSDKError
from specs.dat import AbsDAC, AbsDC, AbsSigner, SIGN_DCK

DC = Obj(AbsDC, _bytes=Bytes(lo=16, hi=2048), uuid=Bytes(16))
DAC = Obj(AbsDAC, uuid=Bytes(16), challenge=Bytes(32))


def RESP(cls):
    return Obj(cls, debug_credential=DC, auth_beacon=U32, dac=DAC, sign_provider=Obj(AbsSigner))


def _mk(cls, rnd):
    o = object.__new__(cls)
    o.debug_credential = AbsDC(bytes(rnd.getrandbits(8) for _ in range(rnd.choice([16, 100, 700]))), rnd.choice([bytes(16), bytes(range(16))]))
    o.auth_beacon = rnd.getrandbits(32)
    o.dac = AbsDAC(bytes(rnd.getrandbits(8) for _ in range(16)), bytes(rnd.getrandbits(8) for _ in range(32)))
    o.sign_provider = AbsSigner()
    return {"self": o}


def signed_message(self, with_uuid):
    return self.debug_credential._bytes + self.auth_beacon.to_bytes(4, "little") + (self.dac.uuid if with_uuid else b"") + self.dac.challenge


@contract("spsdk.dat.dar_packet:DebugAuthenticateResponse._get_common_data")
def _(self: RESP(DebugAuthenticateResponseRSA)) -> bytes:
    returns(self.debug_credential._bytes + self.auth_beacon.to_bytes(4, "little"), label="credential-then-beacon")
    pure()
    sample_with(lambda rnd: _mk(DebugAuthenticateResponseRSA, rnd))


@contract("spsdk.dat.dar_packet:DebugAuthenticateResponseECC._get_common_data")
def _(self: RESP(DebugAuthenticateResponseECC)) -> bytes:
    # the UUID bound into the response is the *device's* (from the challenge), not the credential's own UUID field
    returns(self.debug_credential._bytes + self.auth_beacon.to_bytes(4, "little") + self.dac.uuid, label="credential-beacon-device-uuid")
    pure()
    sample_with(lambda rnd: _mk(DebugAuthenticateResponseECC, rnd))


@contract("spsdk.dat.dar_packet:DebugAuthenticateResponse._get_data_for_signature")
def _(self: Union[RESP(DebugAuthenticateResponseRSA), RESP(DebugAuthenticateResponseECC)]) -> bytes:
    returns(signed_message(self, typed(self, DebugAuthenticateResponseECC)), label="signed-message-binds-credential-beacon-uuid-challenge")
    pure()
    sample_with(lambda rnd: _mk(rnd.choice([DebugAuthenticateResponseRSA, DebugAuthenticateResponseECC]), rnd))


@contract("spsdk.dat.dar_packet:DebugAuthenticateResponse.export")
def _(self: Union[RESP(DebugAuthenticateResponseRSA), RESP(DebugAuthenticateResponseECC)]) -> bytes:
    let(ecc=typed(self, DebugAuthenticateResponseECC))
    returns(self.debug_credential._bytes + self.auth_beacon.to_bytes(4, "little") + (self.dac.uuid if ecc else b"") + SIGN_DCK(signed_message(self, ecc)),
            label="response-embeds-credential-and-beacon-and-is-signed-over-the-bound-message")
    pure()
    sample_with(lambda rnd: _mk(rnd.choice([DebugAuthenticateResponseRSA, DebugAuthenticateResponseECC]), rnd))


inline("spsdk.dat.dar_packet:DebugAuthenticateResponse._get_signature")


# ---- RoT meta (RSA credentials 1.0 / 1.1): the table the credential carries and its hash are the image tool's RKHT / RKTH -------------
from spsdk.dat.debug_credential import RotMetaRSA  # noqa: E402
from specs.crypto import HASH  # noqa: E402


def ROTM(k):
    return Obj(RotMetaRSA, rot_items=ListOf(Bytes(32), k))


def rkht_table(items):
    """Reference (RKHTv1.export, proved in C03): four 32-byte slots in key order, missing slots zero."""
    out = b""
    for it in items:
        out = out + it
    return out + bytes(32 * (4 - len(items)))


@contract("spsdk.dat.debug_credential:RotMetaRSA.export")
def _(self: Union[ROTM(1), ROTM(2), ROTM(3), ROTM(4)]) -> bytes:
    returns(rkht_table(self.rot_items), label="four-slots-in-key-order-missing-slots-zero")
    ensures(len(result) == 128, label="always-128-bytes")
    pure()
    sample_with(lambda rnd: {"self": RotMetaRSA([bytes(rnd.getrandbits(8) for _ in range(32)) for _ in range(rnd.randrange(1, 5))])})


@contract("spsdk.dat.debug_credential:RotMetaRSA.calculate_hash")
def _(self: Union[ROTM(1), ROTM(2), ROTM(3), ROTM(4)]) -> bytes:
    returns(HASH("sha256", rkht_table(self.rot_items)), label="rot-hash-is-the-image-tools-rkth")
    pure()
    sample_with(lambda rnd: {"self": RotMetaRSA([bytes(rnd.getrandbits(8) for _ in range(32)) for _ in range(rnd.randrange(1, 5))])})


# ---- the RoT entry a debug credential carries for an ECC key is the image tool's root key hash of the same key ---------------------------
# DC side: RotMetaEcc hashes pub_key.export() (raw X || Y, contract in C08); image side: RKHT._calc_key_hash (contract in C03).  The lemma joins
# the two contracts; both callee contracts are re-verified as part of this property.
from spsdk.crypto.crypto_types import SPSDKEncoding  # noqa: E402
from spsdk.crypto.hash import EnumHashAlgorithm, get_hash  # noqa: E402
from spsdk.crypto.keys import EccCurve, PublicKeyEcc  # noqa: E402
from spsdk.utils.crypto.rkht import RKHT  # noqa: E402


def ECCKEY(bits, curve):
    return Obj(PublicKeyEcc, x=Range(0, (1 << bits) - 1), y=Range(0, (1 << bits) - 1), coordinate_size=Const(bits // 8), key_size=Const(bits), curve=Const(curve))


@lemma("dc-rot-entry-equals-the-image-tools-root-key-hash-p256")
def _(key: ECCKEY(256, EccCurve.SECP256R1)):
    ensures(RKHT._calc_key_hash(key, None) == get_hash(key.export(SPSDKEncoding.NXP), EnumHashAlgorithm.SHA256), label="same-hash-also-for-leading-zero-coordinates")


@lemma("dc-rot-entry-equals-the-image-tools-root-key-hash-p384")
def _(key: ECCKEY(384, EccCurve.SECP384R1)):
    ensures(RKHT._calc_key_hash(key, None) == get_hash(key.export(SPSDKEncoding.NXP), EnumHashAlgorithm.SHA384), label="same-hash-also-for-leading-zero-coordinates")


# ---- RoT meta flags of ECC credentials: used root index and count in their nibbles, parse inverts export -----------------------------------
from spsdk.dat.debug_credential import RotMetaFlags  # noqa: E402
from spsdk.exceptions import SPSDKValueError  # noqa: E402

inline("spsdk.dat.debug_credential:RotMetaFlags.__init__", "spsdk.dat.debug_credential:RotMetaFlags.validate", "spsdk.dat.debug_credential:RotMetaFlags.parse")


@contract("spsdk.dat.debug_credential:RotMetaFlags.export")
def _(self: Obj(RotMetaFlags, used_root_cert=Range(0, 3), cnt_root_cert=Range(1, 4))) -> bytes:
    returns((2 ** 31 + self.used_root_cert * 256 + self.cnt_root_cert * 16).to_bytes(4, "little"), label="bit31-used-index-count")
    pure()
    sample_with(lambda rnd: (lambda n: {"self": RotMetaFlags(rnd.randrange(n), n)})(rnd.randrange(1, 5)))


@lemma("rot-meta-flags-parse-inverts-export")
def _(used: Range(0, 3), cnt: Range(1, 4)):
    requires(used < cnt)
    let(back=RotMetaFlags.parse((2 ** 31 + used * 256 + cnt * 16).to_bytes(4, "little")))
    ensures(back.used_root_cert == used and back.cnt_root_cert == cnt, label="index-and-count-come-back")


# ---- ECC debug credential: the signature is over exactly the bytes in front of it; every field sits where the device reads it ----------------
from spsdk.dat.debug_credential import DebugCredentialCertificateEcc  # noqa: E402
from specs.dat import AbsRotMeta, AbsVersion  # noqa: E402

inline("spsdk.dat.debug_credential:DebugCredentialCertificateEcc.get_data_format", "spsdk.dat.debug_credential:DebugCredentialCertificateEcc.export_rot_pub",
       "spsdk.dat.debug_credential:DebugCredentialCertificateEcc.export_dck_pub", "specs.dat:AbsRotMeta.export", "specs.dat:AbsRotMeta.__len__")


def DCECC(meta_len):
    return Obj(DebugCredentialCertificateEcc, version=Obj(AbsVersion, major=OneOf(2), minor=OneOf(0, 1, 2)), socc=U32, uuid=Bytes(16), cc_socu=U32, cc_vu=U32,
               cc_beacon=U32, rot_meta=Obj(AbsRotMeta, _bytes=Bytes(meta_len)), rot_pub=ECCKEY(256, EccCurve.SECP256R1), dck_pub=ECCKEY(256, EccCurve.SECP256R1),
               signature=Bytes(64))


def dc_ecc_body(dc):
    return (dc.version.major.to_bytes(2, "little") + dc.version.minor.to_bytes(2, "little") + dc.socc.to_bytes(4, "little") + dc.uuid
            + dc.cc_socu.to_bytes(4, "little") + dc.cc_vu.to_bytes(4, "little") + dc.cc_beacon.to_bytes(4, "little") + dc.rot_meta._bytes
            + dc.rot_pub.x.to_bytes(32, "big") + dc.rot_pub.y.to_bytes(32, "big") + dc.dck_pub.x.to_bytes(32, "big") + dc.dck_pub.y.to_bytes(32, "big"))


@contract("spsdk.dat.debug_credential:DebugCredentialCertificateEcc._get_data_to_sign", replay=False)
def _(self: Union[DCECC(4), DCECC(132)]) -> bytes:
    returns(dc_ecc_body(self), label="version-socc-uuid-constraints-rotmeta-rotkey-dck-in-this-order")
    pure()
    sample_with(lambda rnd: {"self": _mk_dc_ecc(rnd)})


@contract("spsdk.dat.debug_credential:DebugCredentialCertificateEcc.export", replay=False)
def _(self: Union[DCECC(4), DCECC(132)]) -> bytes:
    returns(dc_ecc_body(self) + self.signature, label="signed-bytes-then-the-signature")
    pure()
    sample_with(lambda rnd: {"self": _mk_dc_ecc(rnd)})


_DC_KEYS = []


def _mk_dc_ecc(rnd):
    from spsdk.crypto.keys import PrivateKeyEcc

    while len(_DC_KEYS) < 4:
        _DC_KEYS.append(PrivateKeyEcc.generate_key(EccCurve.SECP256R1).get_public_key())
    dc = object.__new__(DebugCredentialCertificateEcc)
    dc.version, dc.socc, dc.uuid = AbsVersion(2, rnd.randrange(3)), rnd.getrandbits(32), bytes(rnd.getrandbits(8) for _ in range(16))
    dc.cc_socu, dc.cc_vu, dc.cc_beacon = rnd.getrandbits(32), rnd.getrandbits(32), rnd.getrandbits(32)
    dc.rot_meta = AbsRotMeta(bytes(rnd.getrandbits(8) for _ in range(rnd.choice([4, 132]))))
    dc.rot_pub, dc.dck_pub = rnd.choice(_DC_KEYS), rnd.choice(_DC_KEYS)
    dc.signature = bytes(rnd.getrandbits(8) for _ in range(64))
    return dc


# ---- EdgeLock-Enclave debug credential (v1 container families): signed bytes = exported bytes in front of the signature, no RoT public key inside --------
from spsdk.dat.debug_credential import DebugCredentialEdgeLockEnclave  # noqa: E402

inline("spsdk.dat.debug_credential:DebugCredentialEdgeLockEnclave.get_data_format")


def DCELE(meta_len):
    return Obj(DebugCredentialEdgeLockEnclave, version=Obj(AbsVersion, major=OneOf(2), minor=OneOf(0, 1, 2)), socc=U32, uuid=Bytes(16), cc_socu=U32, cc_vu=U32,
               cc_beacon=U32, rot_meta=Obj(AbsRotMeta, _bytes=Bytes(meta_len)), rot_pub=ECCKEY(256, EccCurve.SECP256R1), dck_pub=ECCKEY(256, EccCurve.SECP256R1),
               signature=Bytes(64))


def dc_ele_body(dc):
    return (dc.version.major.to_bytes(2, "little") + dc.version.minor.to_bytes(2, "little") + dc.socc.to_bytes(4, "little") + dc.uuid
            + dc.cc_socu.to_bytes(4, "little") + dc.cc_vu.to_bytes(4, "little") + dc.cc_beacon.to_bytes(4, "little") + dc.rot_meta._bytes
            + dc.dck_pub.x.to_bytes(32, "big") + dc.dck_pub.y.to_bytes(32, "big"))


def _mk_dc_ele(rnd):
    dc = _mk_dc_ecc(rnd)
    dc.__class__ = DebugCredentialEdgeLockEnclave
    return dc


@contract("spsdk.dat.debug_credential:DebugCredentialEdgeLockEnclave._get_data_to_sign", replay=False)
def _(self: Union[DCELE(4), DCELE(132)]) -> bytes:
    returns(dc_ele_body(self), label="version-socc-uuid-socu-vu-beacon-rotmeta-dck-in-this-order")
    pure()
    sample_with(lambda rnd: {"self": _mk_dc_ele(rnd)})


@contract("spsdk.dat.debug_credential:DebugCredentialEdgeLockEnclave.export", replay=False)
def _(self: Union[DCELE(4), DCELE(132)]) -> bytes:
    returns(dc_ele_body(self) + self.signature, label="signed-bytes-then-the-signature")
    pure()
    sample_with(lambda rnd: {"self": _mk_dc_ele(rnd)})


# ---- debug authentication challenge: the fields in the order the device sends them (what the response is checked against) ----------------------------
from spsdk.dat.dac_packet import DebugAuthenticationChallenge  # noqa: E402


def DACOBJ(hl):
    return Obj(DebugAuthenticationChallenge, version=Obj(AbsVersion, major=OneOf(1, 2), minor=OneOf(0, 1, 2)), socc=U32, uuid=Bytes(16), rotid_rkh_revocation=U32,
               rotid_rkth_hash=Bytes(hl), cc_soc_pinned=U32, cc_soc_default=U32, cc_vu=U32, challenge=Bytes(32))


def _mk_dac(rnd):
    d = object.__new__(DebugAuthenticationChallenge)
    d.version, d.socc, d.uuid = AbsVersion(rnd.choice([1, 2]), rnd.randrange(3)), rnd.getrandbits(32), bytes(rnd.getrandbits(8) for _ in range(16))
    d.rotid_rkh_revocation, d.rotid_rkth_hash = rnd.getrandbits(32), bytes(rnd.getrandbits(8) for _ in range(rnd.choice([32, 48, 64])))
    d.cc_soc_pinned, d.cc_soc_default, d.cc_vu = rnd.getrandbits(32), rnd.getrandbits(32), rnd.getrandbits(32)
    d.challenge = bytes(rnd.getrandbits(8) for _ in range(32))
    return d


@contract("spsdk.dat.dac_packet:DebugAuthenticationChallenge.export")
def _(self: Union[DACOBJ(32), DACOBJ(48), DACOBJ(64)]) -> bytes:
    returns(self.version.major.to_bytes(2, "little") + self.version.minor.to_bytes(2, "little") + self.socc.to_bytes(4, "little") + self.uuid
            + self.rotid_rkh_revocation.to_bytes(4, "little") + self.rotid_rkth_hash + self.cc_soc_pinned.to_bytes(4, "little")
            + self.cc_soc_default.to_bytes(4, "little") + self.cc_vu.to_bytes(4, "little") + self.challenge,
            label="version-socc-uuid-revocation-rothash-pinned-default-vu-challenge")
    pure()
    sample_with(lambda rnd: {"self": _mk_dac(rnd)})


# ---- RSA debug credential (protocol 1.0: RSA-2048, 1.1: RSA-4096): signed bytes and exported bytes field by field ------------------------------------------
from spsdk.crypto.keys import PublicKeyRsa  # noqa: E402
from spsdk.dat.debug_credential import DebugCredentialCertificateRsa  # noqa: E402

inline("spsdk.dat.debug_credential:DebugCredentialCertificateRsa.get_data_format", "spsdk.dat.debug_credential:DebugCredentialCertificateRsa.export_rot_pub",
       "spsdk.dat.debug_credential:DebugCredentialCertificateRsa.export_dck_pub")


def RSAKEY(bits):
    return Obj(PublicKeyRsa, e=Const(65537), n=Range(1 << (bits - 1), (1 << bits) - 1))


def DCRSA(minor):
    bits = 2048 if minor == 0 else 4096
    return Obj(DebugCredentialCertificateRsa, version=Obj(AbsVersion, major=Const(1), minor=Const(minor)), socc=U32, uuid=Bytes(16), cc_socu=U32, cc_vu=U32, cc_beacon=U32,
               rot_meta=Obj(AbsRotMeta, _bytes=Bytes(128)), rot_pub=RSAKEY(bits), dck_pub=RSAKEY(bits), signature=Bytes(bits // 8))


def dc_rsa_body(dc):
    n = 256 if dc.version.minor == 0 else 512
    return ((1).to_bytes(2, "little") + dc.version.minor.to_bytes(2, "little") + dc.socc.to_bytes(4, "little") + dc.uuid + dc.rot_meta._bytes
            + dc.dck_pub.n.to_bytes(n, "big") + (65537).to_bytes(4, "big") + dc.cc_socu.to_bytes(4, "little") + dc.cc_vu.to_bytes(4, "little")
            + dc.cc_beacon.to_bytes(4, "little") + dc.rot_pub.n.to_bytes(n, "big") + (65537).to_bytes(4, "big"))


_DC_RSA_KEYS = {}


def _mk_dc_rsa(rnd):
    from spsdk.crypto.keys import PrivateKeyRsa

    minor = rnd.choice([0, 0, 1])
    bits = 2048 if minor == 0 else 4096
    if bits not in _DC_RSA_KEYS:
        _DC_RSA_KEYS[bits] = [PrivateKeyRsa.generate_key(key_size=bits).get_public_key() for _ in range(2)]
    dc = object.__new__(DebugCredentialCertificateRsa)
    dc.version, dc.socc, dc.uuid = AbsVersion(1, minor), rnd.getrandbits(32), bytes(rnd.getrandbits(8) for _ in range(16))
    dc.cc_socu, dc.cc_vu, dc.cc_beacon = rnd.getrandbits(32), rnd.getrandbits(32), rnd.getrandbits(32)
    dc.rot_meta = AbsRotMeta(bytes(rnd.getrandbits(8) for _ in range(128)))
    dc.rot_pub, dc.dck_pub = rnd.choice(_DC_RSA_KEYS[bits]), rnd.choice(_DC_RSA_KEYS[bits])
    dc.signature = bytes(rnd.getrandbits(8) for _ in range(bits // 8))
    return dc


@contract("spsdk.dat.debug_credential:DebugCredentialCertificateRsa._get_data_to_sign", replay=False)
def _(self: Union[DCRSA(0), DCRSA(1)]) -> bytes:
    returns(dc_rsa_body(self), label="version-socc-uuid-rotmeta-dck-socu-vu-beacon-rotkey-in-this-order")
    pure()
    sample_with(lambda rnd: {"self": _mk_dc_rsa(rnd)})


@contract("spsdk.dat.debug_credential:DebugCredentialCertificateRsa.export", replay=False)
def _(self: Union[DCRSA(0), DCRSA(1)]) -> bytes:
    returns(dc_rsa_body(self) + self.signature, label="signed-bytes-then-the-signature")
    pure()
    sample_with(lambda rnd: {"self": _mk_dc_rsa(rnd)})
