"""C03 — root-of-trust hash is a pure function of the ordered root public keys (spsdk/utils/crypto/rkht.py).

Spec: rkh(RSA n, e) = SHA-256(I2OSP_min(n) || I2OSP_min(e)); rkh(ECC x, y) = SHA-{256,384}(X || Y) with fixed coordinate width;
RKTH v1 = SHA-256 of the 4-slot table (missing slots zero); RKTH v2.1 = the single hash, or H(concatenation) for 2..4 keys.
Keys are abstract (their numbers only): cryptography's parsing of PEM/DER/certificates is external (A-pki).
"""
from vf.api import *  # noqa
from spsdk.crypto.hash import EnumHashAlgorithm
from spsdk.crypto.keys import PublicKeyEcc, PublicKeyRsa
from spsdk.exceptions import SPSDKError
from spsdk.utils.crypto.rkht import RKHT, RKHTv1, RKHTv21
from specs.crypto import HASH

inline("spsdk.utils.crypto.rkht:RKHTv21.export", "spsdk.utils.crypto.rkht:RKHT._get_hash_algorithm", "spsdk.utils.crypto.rkht:RKHTv1.hash_algorithm", "spsdk.utils.crypto.rkht:RKHT.hash_algorithm",
       "spsdk.utils.crypto.rkht:RKHT.hash_algorithm_size")


def RSA(nbytes):
    return Obj(PublicKeyRsa, n=Range(1 << (8 * nbytes - 1), (1 << (8 * nbytes)) - 1), e=Const(65537))


def ECC(bits):
    cs = bits // 8
    return Obj(PublicKeyEcc, x=Range(0, (1 << bits) - 1), y=Range(0, (1 << bits) - 1), coordinate_size=Const(cs), key_size=Const(bits))


def spec_rkh(key):
    if typed(key, PublicKeyRsa):
        nlen = 256 if key.n < 2 ** 2048 else 384 if key.n < 2 ** 3072 else 512
        return HASH("sha256", key.n.to_bytes(nlen, "big") + (65537).to_bytes(3, "big"))
    # leading-zero coordinates keep their full width
    return HASH("sha256" if key.key_size == 256 else "sha384", key.x.to_bytes(key.coordinate_size, "big") + key.y.to_bytes(key.coordinate_size, "big"))


@contract("spsdk.utils.crypto.rkht:RKHT._calc_key_hash")
def _(public_key: Union[RSA(256), RSA(384), ECC(256), ECC(384)], algorithm: Const(None)) -> bytes:
    returns(spec_rkh(public_key), label="documented-construction-over-the-raw-key-material")
    pure()
    replay_with(lambda kw: kw)
    sample_with(lambda rnd: _sample_key(rnd))


def _sample_key(rnd):
    from cryptography.hazmat.primitives.asymmetric import ec
    curve = rnd.choice([ec.SECP256R1(), ec.SECP384R1()])
    k = PublicKeyEcc(ec.derive_private_key(rnd.randrange(1, 1 << 200), curve).public_key())
    if rnd.random() < 0.1:
        # every tenth sample: search for a key with a leading-zero coordinate (1 key in 128 has one)
        for _ in range(600):
            c = PublicKeyEcc(ec.derive_private_key(rnd.randrange(1, 1 << 200), curve).public_key())
            if c.x < (1 << (curve.key_size - 8)) or c.y < (1 << (curve.key_size - 8)):
                k = c
                break
    return {"public_key": k, "algorithm": None}


# ---- tables ---------------------------------------------------------------------------------------------------------------------------
def V1(k):
    return Obj(RKHTv1, rkh_list=ListOf(Bytes(32), k), RKHT_SIZE=Const(4), RKH_SIZE=Const(32))


@contract("spsdk.utils.crypto.rkht:RKHTv1.export")
def _(self: Union[V1(1), V1(2), V1(3), V1(4)]) -> bytes:
    ensures(len(result) == 128, label="four-slots")
    ensures(all(result[32 * i: 32 * i + 32] == (self.rkh_list[i] if i < len(self.rkh_list) else bytes(32)) for i in range(4)),
            label="hashes-in-key-order-missing-slots-zero")
    pure()
    sample_with(lambda rnd: {"self": RKHTv1([bytes(rnd.getrandbits(8) for _ in range(32)) for _ in range(rnd.randrange(1, 5))])})


@contract("spsdk.utils.crypto.rkht:RKHTv1.rkth")
def _(self: Union[V1(1), V1(2), V1(3), V1(4)]) -> bytes:
    returns(HASH("sha256", b"".join([(self.rkh_list[i] if i < len(self.rkh_list) else bytes(32)) for i in range(4)])), label="sha256-of-the-table")
    pure()
    sample_with(lambda rnd: {"self": RKHTv1([bytes(rnd.getrandbits(8) for _ in range(32)) for _ in range(rnd.randrange(1, 5))])})


def V21(k, hl):
    return Obj(RKHTv21, rkh_list=ListOf(Bytes(hl), k))


@contract("spsdk.utils.crypto.rkht:RKHTv21.rkth")
def _(self: Union[V21(1, 32), V21(2, 32), V21(4, 32), V21(1, 48), V21(3, 48)]) -> bytes:
    let(alg="sha256" if len(self.rkh_list[0]) == 32 else "sha384")
    returns(self.rkh_list[0] if len(self.rkh_list) == 1 else HASH(alg, b"".join(self.rkh_list)), label="single-hash-or-hash-of-concatenation")
    pure()
    sample_with(lambda rnd: {"self": RKHTv21([bytes(rnd.getrandbits(8) for _ in range(32)) for _ in range(rnd.randrange(1, 5))])})


# ---- cert block v2.1 root key record: the RoT hash read back from a binary block is the one the block was built with ----------------
from spsdk.utils.crypto.cert_blocks import RootKeyRecord  # noqa: E402

inline("spsdk.utils.crypto.cert_blocks:RootKeyRecord.__init__", "spsdk.utils.crypto.cert_blocks:RootKeyRecord.get_hash_algorithm",
       "spsdk.utils.crypto.rkht:RKHTv21.parse", "spsdk.utils.crypto.rkht:RKHT.__init__")


@contract("spsdk.utils.crypto.cert_blocks:RootKeyRecord.parse")
def _(cls: Const(RootKeyRecord), data: Bytes(lo=4 + 4 * 48 + 96)) -> Opaque():
    # flags byte 0 = number of root keys (1..4) << 4 | curve (1 = P-256, 2 = P-384)
    requires(data[0] % 16 >= 1 and data[0] % 16 <= 2 and data[0] // 16 >= 1 and data[0] // 16 <= 4)
    let(n=data[0] // 16, hl=32 if data[0] % 16 == 1 else 48)
    let(key_at=4 + (hl * n if n > 1 else 0))
    ensures(result.root_public_key == data[key_at: key_at + 2 * hl], label="root-public-key-behind-the-table")
    ensures(len(result._rkht.rkh_list) == n, label="one-hash-per-root-key")
    ensures(implies(n == 1 and hl == 32, result._rkht.rkh_list[0] == HASH("sha256", data[4:68])), label="single-p256-root-key-is-hashed-with-sha256")
    ensures(implies(n == 1 and hl == 48, result._rkht.rkh_list[0] == HASH("sha384", data[4:100])), label="single-p384-root-key-is-hashed-with-sha384")
    ensures(implies(n > 1, all(result._rkht.rkh_list[i] == data[4 + hl * i: 4 + hl * (i + 1)] for i in range(n))), label="table-entries-in-order")
    pure()
    sample_with(lambda rnd: {"cls": RootKeyRecord, "data": bytes([rnd.randrange(1, 5) * 16 + rnd.randrange(1, 3)]) + bytes(rnd.getrandbits(8) for _ in range(320))})

