"""C03 — root-of-trust hash is a pure function of the ordered root public keys (spsdk/utils/crypto/rkht.py).

Spec: rkh(RSA n, e) = SHA-256(I2OSP_min(n) || I2OSP_min(e)); rkh(ECC x, y) = SHA-{256,384}(X || Y) with fixed coordinate width;
RKTH v1 = SHA-256 of the 4-slot table (missing slots zero); RKTH v2.1 = the single hash, or H(concatenation) for 2..4 keys.
Keys are abstract (their numbers only): cryptography's parsing of PEM/DER/certificates is external (A-pki).
"""
from vf.api import *  # noqa
from spsdk.crypto.hash import EnumHashAlgorithm
from spsdk.crypto.keys import PublicKeyEcc, PublicKeyRsa
from spsdk.exceptions import SPSDKError
from spsdk.utils.crypto.rkht import RKHT, RKHTv1, RKHTv21
from specs.crypto import HASH

inline("spsdk.utils.crypto.rkht:RKHTv21.export", "spsdk.utils.crypto.rkht:RKHT._get_hash_algorithm", "spsdk.utils.crypto.rkht:RKHTv1.hash_algorithm", "spsdk.utils.crypto.rkht:RKHT.hash_algorithm",
       "spsdk.utils.crypto.rkht:RKHT.hash_algorithm_size")


def RSA(nbytes):
    return Obj(PublicKeyRsa, n=Range(1 << (8 * nbytes - 1), (1 << (8 * nbytes)) - 1), e=Const(65537))


def ECC(bits):
    cs = bits // 8
    return Obj(PublicKeyEcc, x=Range(0, (1 << bits) - 1), y=Range(0, (1 << bits) - 1), coordinate_size=Const(cs), key_size=Const(bits))


def spec_rkh(key):
    if typed(key, PublicKeyRsa):
        nlen = 256 if key.n < 2 ** 2048 else 384 if key.n < 2 ** 3072 else 512
        return HASH("sha256", key.n.to_bytes(nlen, "big") + (65537).to_bytes(3, "big"))
    # leading-zero coordinates keep their full width
    return HASH("sha256" if key.key_size == 256 else "sha384", key.x.to_bytes(key.coordinate_size, "big") + key.y.to_bytes(key.coordinate_size, "big"))


@contract("spsdk.utils.crypto.rkht:RKHT._calc_key_hash")
def _(public_key: Union[RSA(256), RSA(384), ECC(256), ECC(384)], algorithm: Const(None)) -> bytes:
    returns(spec_rkh(public_key), label="documented-construction-over-the-raw-key-material")
    pure()
    replay_with(lambda kw: kw)
    sample_with(lambda rnd: _sample_key(rnd))


def _sample_key(rnd):
    from cryptography.hazmat.primitives.asymmetric import ec
    curve = rnd.choice([ec.SECP256R1(), ec.SECP384R1()])
    k = PublicKeyEcc(ec.derive_private_key(rnd.randrange(1, 1 << 200), curve).public_key())
    if rnd.random() < 0.1:
        # every tenth sample: search for a key with a leading-zero coordinate (1 key in 128 has one)
        for _ in range(600):
            c = PublicKeyEcc(ec.derive_private_key(rnd.randrange(1, 1 << 200), curve).public_key())
            if c.x < (1 << (curve.key_size - 8)) or c.y < (1 << (curve.key_size - 8)):
                k = c
                break
    return {"public_key": k, "algorithm": None}


# ---- tables ---------------------------------------------------------------------------------------------------------------------------
def V1(k):
    return Obj(RKHTv1, rkh_list=ListOf(Bytes(32), k), RKHT_SIZE=Const(4), RKH_SIZE=Const(32))


@contract("spsdk.utils.crypto.rkht:RKHTv1.export")
def _(self: Union[V1(1), V1(2), V1(3), V1(4)]) -> bytes:
    ensures(len(result) == 128, label="four-slots")
    ensures(all(result[32 * i: 32 * i + 32] == (self.rkh_list[i] if i < len(self.rkh_list) else bytes(32)) for i in range(4)),
            label="hashes-in-key-order-missing-slots-zero")
    pure()
    sample_with(lambda rnd: {"self": RKHTv1([bytes(rnd.getrandbits(8) for _ in range(32)) for _ in range(rnd.randrange(1, 5))])})


@contract("spsdk.utils.crypto.rkht:RKHTv1.rkth")
def _(self: Union[V1(1), V1(2), V1(3), V1(4)]) -> bytes:
    returns(HASH("sha256", b"".join([(self.rkh_list[i] if i < len(self.rkh_list) else bytes(32)) for i in range(4)])), label="sha256-of-the-table")
    pure()
    sample_with(lambda rnd: {"self": RKHTv1([bytes(rnd.getrandbits(8) for _ in range(32)) for _ in range(rnd.randrange(1, 5))])})


@contract("spsdk.utils.crypto.rkht:RKHTv1.set_rkh")
def _(self: Union[V1(0), V1(1), V1(2), V1(3), V1(4)], index: OneOf(0, 1, 2, 3, 4), rkh: Bytes(lo=0, hi=64)):
    # slot `index` takes the hash, every other slot that existed keeps its hash, slots opened in between are zero - in whatever order slots are set
    let(n=len(self.rkh_list), before=list(self.rkh_list))
    raises(SPSDKError, index > 3 or (n > 0 and len(rkh) != 32), label="slot-beyond-the-table-or-wrong-hash-size")
    ensures(len(self.rkh_list) == (n if n > index else index + 1), label="table-grows-only-up-to-the-slot")
    ensures(self.rkh_list[index] == rkh, label="slot-takes-the-hash")
    ensures(all(self.rkh_list[i] == (before[i] if i < n else bytes(32)) for i in range(len(self.rkh_list)) if i != index), label="other-slots-kept-gaps-zero")
    modifies(self.rkh_list)
    sample_with(lambda rnd: {"self": RKHTv1([bytes(rnd.getrandbits(8) for _ in range(32)) for _ in range(rnd.randrange(0, 5))]), "index": rnd.randrange(0, 5),
                             "rkh": bytes(rnd.getrandbits(8) for _ in range(rnd.choice([32, 32, 32, 31])))})


def V21(k, hl):
    return Obj(RKHTv21, rkh_list=ListOf(Bytes(hl), k))


@contract("spsdk.utils.crypto.rkht:RKHTv21.rkth")
def _(self: Union[V21(1, 32), V21(2, 32), V21(4, 32), V21(1, 48), V21(3, 48)]) -> bytes:
    let(alg="sha256" if len(self.rkh_list[0]) == 32 else "sha384")
    returns(self.rkh_list[0] if len(self.rkh_list) == 1 else HASH(alg, b"".join(self.rkh_list)), label="single-hash-or-hash-of-concatenation")
    pure()
    sample_with(lambda rnd: {"self": RKHTv21([bytes(rnd.getrandbits(8) for _ in range(32)) for _ in range(rnd.randrange(1, 5))])})


# ---- cert block v2.1 root key record: the RoT hash read back from a binary block is the one the block was built with ----------------
from spsdk.utils.crypto.cert_blocks import RootKeyRecord  # noqa: E402

inline("spsdk.utils.crypto.cert_blocks:RootKeyRecord.__init__", "spsdk.utils.crypto.cert_blocks:RootKeyRecord.get_hash_algorithm",
       "spsdk.utils.crypto.rkht:RKHTv21.parse", "spsdk.utils.crypto.rkht:RKHT.__init__")


@contract("spsdk.utils.crypto.cert_blocks:RootKeyRecord.parse")
def _(cls: Const(RootKeyRecord), data: Bytes(lo=4 + 4 * 48 + 96)) -> Opaque():
    # flags byte 0 = number of root keys (1..4) << 4 | curve (1 = P-256, 2 = P-384)
    requires(data[0] % 16 >= 1 and data[0] % 16 <= 2 and data[0] // 16 >= 1 and data[0] // 16 <= 4)
    let(n=data[0] // 16, hl=32 if data[0] % 16 == 1 else 48)
    let(key_at=4 + (hl * n if n > 1 else 0))
    ensures(result.root_public_key == data[key_at: key_at + 2 * hl], label="root-public-key-behind-the-table")
    ensures(len(result._rkht.rkh_list) == n, label="one-hash-per-root-key")
    ensures(implies(n == 1 and hl == 32, result._rkht.rkh_list[0] == HASH("sha256", data[4:68])), label="single-p256-root-key-is-hashed-with-sha256")
    ensures(implies(n == 1 and hl == 48, result._rkht.rkh_list[0] == HASH("sha384", data[4:100])), label="single-p384-root-key-is-hashed-with-sha384")
    ensures(implies(n > 1, all(result._rkht.rkh_list[i] == data[4 + hl * i: 4 + hl * (i + 1)] for i in range(n))), label="table-entries-in-order")
    pure()
    sample_with(lambda rnd: {"cls": RootKeyRecord, "data": bytes([rnd.randrange(1, 5) * 16 + rnd.randrange(1, 3)]) + bytes(rnd.getrandbits(8) for _ in range(320))})



# ---- certificate block headers (v1 "cert", v2.1 "chdr"): byte layout as the ROM reads it, and parse inverts export ----------------------
from spsdk.utils.crypto.cert_blocks import CertBlockHeader, CertificateBlockHeader  # noqa: E402

inline("spsdk.utils.crypto.cert_blocks:CertBlockHeader.__init__", "spsdk.utils.crypto.cert_blocks:CertBlockHeader.parse",
       "spsdk.utils.crypto.cert_blocks:CertificateBlockHeader.__init__", "spsdk.utils.crypto.cert_blocks:CertificateBlockHeader.parse")


def le16(v):
    return v.to_bytes(2, "little")


def le32(v):
    return v.to_bytes(4, "little")


def _CBH(ver):
    return Obj(CertBlockHeader, version=Const(ver), flags=U32, build_number=U32, image_length=U32, cert_count=U32, cert_table_length=U32)


def _mk_cbh(rnd):
    h = CertBlockHeader(rnd.choice(["1.0", "1.1", "2.7"]), rnd.getrandbits(32), rnd.getrandbits(32))
    h.image_length, h.cert_count, h.cert_table_length = rnd.getrandbits(32), rnd.randrange(5), rnd.getrandbits(32)
    return h


@contract("spsdk.utils.crypto.cert_blocks:CertBlockHeader.export")
def _(self: Union[_CBH("1.0"), _CBH("1.1"), _CBH("2.7")]) -> bytes:
    let(major=1 if self.version != "2.7" else 2, minor=0 if self.version == "1.0" else 1 if self.version == "1.1" else 7)
    returns(b"cert" + le16(major) + le16(minor) + le32(32) + le32(self.flags) + le32(self.build_number) + le32(self.image_length)
            + le32(self.cert_count) + le32(self.cert_table_length), label="signature-version-length-flags-build-image-length-count-table-length")
    pure()
    sample_with(lambda rnd: {"self": _mk_cbh(rnd)})


@lemma("cert-block-v1-header-1-0-parse-inverts-export")
def _(flags: U32, build: U32, image_length: U32, count: U32, table: U32):
    # the version numbers are concrete here: formatting a symbolic integer into the version string is outside the encoding
    let(back=CertBlockHeader.parse(b"cert" + le16(1) + le16(0) + le32(32) + le32(flags) + le32(build) + le32(image_length) + le32(count) + le32(table)))
    ensures(back.flags == flags and back.build_number == build and back.image_length == image_length and back.cert_count == count
            and back.cert_table_length == table and back.version == "1.0", label="every-header-word-comes-back")


@lemma("cert-block-v1-header-1-1-parse-inverts-export")
def _(flags: U32, build: U32, image_length: U32, count: U32, table: U32):
    # the version numbers are concrete here: formatting a symbolic integer into the version string is outside the encoding
    let(back=CertBlockHeader.parse(b"cert" + le16(1) + le16(1) + le32(32) + le32(flags) + le32(build) + le32(image_length) + le32(count) + le32(table)))
    ensures(back.flags == flags and back.build_number == build and back.image_length == image_length and back.cert_count == count
            and back.cert_table_length == table and back.version == "1.1", label="every-header-word-comes-back")


def _CH(ver):
    return Obj(CertificateBlockHeader, format_version=Const(ver), cert_block_size=U32)


def _mk_ch(rnd):
    h = CertificateBlockHeader(rnd.choice(["2.1", "2.2"]))
    h.cert_block_size = rnd.getrandbits(32)
    return h


@contract("spsdk.utils.crypto.cert_blocks:CertificateBlockHeader.export")
def _(self: Union[_CH("2.1"), _CH("2.2")]) -> bytes:
    # the ROM reads minor before major
    returns(b"chdr" + le16(1 if self.format_version == "2.1" else 2) + le16(2) + le32(self.cert_block_size), label="magic-minor-major-block-size")
    pure()
    sample_with(lambda rnd: {"self": _mk_ch(rnd)})


@lemma("cert-block-v21-header-parse-inverts-export")
def _(size: U32):
    let(h=CertificateBlockHeader("2.1"))
    let(back=CertificateBlockHeader.parse(b"chdr" + le16(1) + le16(2) + le32(size)))
    ensures(back.cert_block_size == size and back.format_version == "2.1", label="size-and-version-come-back")


# ---- certificate block v2.1 body: root key record, ISK certificate and what the selected root key signs ----------------------------------
from spsdk.utils.crypto.cert_blocks import CertBlockV21, IskCertificate  # noqa: E402
from specs.certblock import SIGN_ROOT256, SIGN_ROOT384, AbsRootSigner256, AbsRootSigner384  # noqa: E402

inline("spsdk.utils.crypto.cert_blocks:RootKeyRecord.expected_size", "spsdk.utils.crypto.cert_blocks:IskCertificate.expected_size",
       "spsdk.utils.crypto.cert_blocks:IskCertificate.signature_offset")


def RKREC(k, hl):
    return Obj(RootKeyRecord, flags=U32, _rkht=V21(k, hl), root_public_key=Bytes(2 * hl))


def _mk_rkrec(rnd):
    k, hl = rnd.randrange(1, 5), rnd.choice([32, 48])
    r = RootKeyRecord(ca_flag=False, root_certs=[], used_root_cert=0)
    r.flags = rnd.getrandbits(32)
    r._rkht = RKHTv21([bytes(rnd.getrandbits(8) for _ in range(hl)) for _ in range(k)])
    r.root_public_key = bytes(rnd.getrandbits(8) for _ in range(2 * hl))
    return r


@contract("spsdk.utils.crypto.cert_blocks:RootKeyRecord.export")
def _(self: Union[RKREC(1, 32), RKREC(2, 32), RKREC(4, 32), RKREC(1, 48), RKREC(3, 48)]) -> bytes:
    # flags, then the table of root key hashes (only when there is more than one root key), then X||Y of the root key in use
    returns(le32(self.flags) + (b"".join(self._rkht.rkh_list) if len(self._rkht.rkh_list) > 1 else b"") + self.root_public_key,
            label="flags-hash-table-for-several-keys-then-the-used-root-public-key")
    pure()
    sample_with(lambda rnd: {"self": _mk_rkrec(rnd)})


def ISKC(cs, signer):
    return Obj(IskCertificate, flags=U32, offset_present=bool, constraints=U32, isk_cert=Obj(PublicKeyEcc, coordinate_size=Const(cs)),
               user_data=Bytes(lo=0, hi=96), signature=Bytes(lo=0, hi=132), isk_public_key_data=Bytes(2 * cs), signature_provider=signer)


def isk_header(self):
    off = (12 if self.offset_present else 8) + len(self.user_data) + len(self.isk_public_key_data)
    return (le32(off) if self.offset_present else b"") + le32(self.constraints) + le32(self.flags)


def _mk_isk(rnd, signed=True):
    from spsdk.crypto.keys import EccCurve, PrivateKeyEcc

    c = rnd.choice([EccCurve.SECP256R1, EccCurve.SECP384R1])
    signer = rnd.choice([AbsRootSigner256(), AbsRootSigner384()])
    i = IskCertificate(constraints=rnd.getrandbits(32), signature_provider=signer, isk_cert=PrivateKeyEcc.generate_key(c).get_public_key(),
                       user_data=bytes(rnd.getrandbits(8) for _ in range(rnd.choice([0, 0, 4, 48, 96]))), offset_present=rnd.random() < 0.7)
    if signed:
        i.signature = bytes(rnd.getrandbits(8) for _ in range(signer.signature_length))
    return i


_ISKS = Union[ISKC(32, Obj(AbsRootSigner256)), ISKC(48, Obj(AbsRootSigner256)), ISKC(32, Obj(AbsRootSigner384)), ISKC(48, Obj(AbsRootSigner384))]


@contract("spsdk.utils.crypto.cert_blocks:IskCertificate.export")
def _(self: _ISKS) -> bytes:
    raises(SPSDKError, len(self.signature) == 0, label="unsigned-certificate-is-not-exported")
    returns(isk_header(self) + self.isk_public_key_data + self.user_data + self.signature,
            label="signature-offset-constraints-flags-public-key-user-data-signature")
    ensures(implies(self.offset_present, int.from_bytes(result[0:4], "little") == len(result) - len(self.signature)),
            label="signature-offset-points-at-the-signature")
    pure()
    sample_with(lambda rnd: {"self": _mk_isk(rnd, signed=rnd.random() < 0.9)})


@contract("spsdk.utils.crypto.cert_blocks:IskCertificate.create_isk_signature")
def _(self: _ISKS, key_record_data: Bytes(lo=4, hi=400), force: bool):
    let(msg=key_record_data + isk_header(self) + self.isk_public_key_data + self.user_data)
    let(keep=len(old(self.signature)) > 0 and not force)
    ensures(implies(keep, self.signature == old(self.signature)), label="existing-signature-is-kept-unless-forced")
    ensures(implies(not keep, self.signature == (SIGN_ROOT256(msg) if typed(self.signature_provider, AbsRootSigner256) else SIGN_ROOT384(msg))),
            label="root-key-signs-exactly-record-header-isk-key-user-data")
    modifies(self.signature)
    sample_with(lambda rnd: {"self": _mk_isk(rnd, signed=rnd.random() < 0.3), "key_record_data": bytes(rnd.getrandbits(8) for _ in range(rnd.choice([68, 100, 196]))),
                             "force": rnd.random() < 0.5})


def CB21(rec, isk):
    return Obj(CertBlockV21, header=_CH("2.1"), root_key_record=rec, isk_certificate=isk)


def _mk_cb21(rnd):
    cb = CertBlockV21()
    cb.root_key_record = _mk_rkrec(rnd)
    cb.isk_certificate = _mk_isk(rnd, signed=rnd.random() < 0.5) if rnd.random() < 0.7 else None
    return cb


@contract("spsdk.utils.crypto.cert_blocks:CertBlockV21.export")
def _(self: Union[CB21(RKREC(1, 32), Const(None)), CB21(RKREC(4, 32), Const(None)), CB21(RKREC(2, 32), ISKC(32, Obj(AbsRootSigner256))),
                  CB21(RKREC(3, 48), ISKC(48, Obj(AbsRootSigner384))), CB21(RKREC(1, 48), ISKC(32, Obj(AbsRootSigner384)))]) -> bytes:
    let(rec=le32(self.root_key_record.flags) + (b"".join(self.root_key_record._rkht.rkh_list) if len(self.root_key_record._rkht.rkh_list) > 1 else b"")
        + self.root_key_record.root_public_key)
    let(isk=self.isk_certificate)
    let(tbs=(rec + isk_header(isk) + isk.isk_public_key_data + isk.user_data) if isk is not None else b"")
    let(sig=b"" if isk is None else old(isk.signature) if len(old(isk.signature)) > 0
        else SIGN_ROOT256(tbs) if typed(isk.signature_provider, AbsRootSigner256) else SIGN_ROOT384(tbs))
    let(body=rec + ((isk_header(isk) + isk.isk_public_key_data + isk.user_data + sig) if isk is not None else b""))
    returns(b"chdr" + le16(1) + le16(2) + le32(12 + len(body)) + body, label="header-with-total-size-then-record-then-isk-certificate-signed-over-the-record")
    modifies(self.header.cert_block_size, self.isk_certificate.signature)
    sample_with(lambda rnd: {"self": _mk_cb21(rnd)})


# ---- certificate block v1: header, length-prefixed certificates in chain order, the 4-slot hash table, zero padding --------------------------
from spsdk.utils.crypto.cert_blocks import CertBlockV1  # noqa: E402
from specs.certblock import AbsCert  # noqa: E402

inline("spsdk.utils.crypto.cert_blocks:CertBlockV1.header", "spsdk.utils.crypto.cert_blocks:CertBlockV1.rkh", "spsdk.utils.crypto.cert_blocks:CertBlockV1.rkh_index",
       "spsdk.utils.crypto.cert_blocks:CertBlockV1.alignment", "spsdk.utils.crypto.cert_blocks:CertBlockV1.raw_size")

_CERT = Obj(AbsCert, _bytes=Bytes(lo=1, hi=3000), ca=bool, _pkh=Bytes(32))


def CBV1(m, k):
    return Obj(CertBlockV1, _header=_CBH("1.0"), _rkht=V1(k), _cert=ListOf(_CERT, m), _alignment=OneOf(16, 4, 1))


def _mk_cbv1(rnd):
    m, k = rnd.randrange(1, 4), rnd.randrange(1, 5)
    b = CertBlockV1(build_number=rnd.getrandbits(16))
    b._alignment = rnd.choice([16, 4, 1])
    hashes = [bytes(rnd.getrandbits(8) for _ in range(32)) for _ in range(k)]
    b._rkht = RKHTv1(hashes)
    ok = rnd.random() < 0.8
    for i in range(m):
        c = AbsCert(bytes(rnd.getrandbits(8) for _ in range(rnd.randrange(1, 900))), (i < m - 1) if ok else rnd.random() < 0.5,
                    rnd.choice(hashes) if (i or ok or rnd.random() < 0.5) else bytes(32))
        b._cert.append(c)
        b._header.cert_count += 1
        b._header.cert_table_length += len(c._bytes) + 4
    return b


def v1_table(self):
    return b"".join([(self._rkht.rkh_list[i] if i < len(self._rkht.rkh_list) else bytes(32)) for i in range(4)])


def v1_certs(self):
    return b"".join([le32(len(c._bytes)) + c._bytes for c in self._cert])


@contract("spsdk.utils.crypto.cert_blocks:CertBlockV1.export")
def _(self: Union[CBV1(1, 1), CBV1(2, 2)]) -> bytes:
    # representation invariant kept by add_certificate: the header counts the certificates and the bytes of the table
    requires(self._header.cert_count == len(self._cert) and self._header.cert_table_length == sum([len(c._bytes) + 4 for c in self._cert]))
    let(m=len(self._cert))
    raises(SPSDKError, not any(h == self._cert[0]._pkh for h in self._rkht.rkh_list), label="root-certificate-key-must-be-in-the-table")
    raises(SPSDKError, self._cert[m - 1].ca or not all(c.ca for c in self._cert[: m - 1]), label="only-the-last-certificate-is-not-a-ca")
    let(body=b"cert" + le16(1) + le16(0) + le32(32) + le32(self._header.flags) + le32(self._header.build_number) + le32(self._header.image_length)
        + le32(m) + le32(self._header.cert_table_length) + v1_certs(self) + v1_table(self))
    ensures(result[: len(body)] == body, label="header-length-prefixed-certificates-in-chain-order-then-the-hash-table")
    ensures(len(result) % self._alignment == 0 and len(result) - len(body) < self._alignment and forall(len(body), len(result), lambda i: result[i] == 0),
            label="zero-padding-up-to-the-alignment-only")
    pure()
    sample_with(lambda rnd: {"self": _mk_cbv1(rnd)})
