"""C09 — cipher / MAC / hash / CRC / KDF wrappers (spsdk/crypto/*.py, keystore, sb31 functions)."""
from vf.api import *  # noqa
from spsdk.exceptions import SPSDKError, SPSDKKeyError
from spsdk.utils.misc import Endianness, align_block
from spsdk.crypto.symmetric import (Counter, aes_cbc_decrypt, aes_cbc_encrypt, aes_ctr_decrypt, aes_ctr_encrypt,
                                    aes_ecb_decrypt, aes_ecb_encrypt, aes_key_unwrap, aes_key_wrap, aes_xts_decrypt,
                                    aes_xts_encrypt, aes_ccm_encrypt, aes_ccm_decrypt, sm4_cbc_decrypt, sm4_cbc_encrypt)
from spsdk.crypto.hash import EnumHashAlgorithm
from spsdk.crypto.crc import Crc, CrcAlg, CRC_ALGORITHMS
from specs.crypto import *  # noqa

AesKey = Union[Bytes(16), Bytes(24), Bytes(32)]
ZERO16 = bytes(16)


def pad16(m):
    """m zero-extended to a multiple of 16 bytes."""
    return m + bytes((16 - len(m) % 16) % 16)


# ---- Counter ----------------------------------------------------------------------------------------
@shape("spsdk.crypto.symmetric:Counter")
def _():
    return dict(_nonce=Bytes(12), _ctr=int, _ctr_byteorder_encoding=Endianness)


@contract("spsdk.crypto.symmetric:Counter.__init__")
def _(self: Obj(Counter), nonce: bytes, ctr_value: Optional[int], ctr_byteorder_encoding: Endianness):
    raises(SPSDKError, len(nonce) != 16)
    ensures(self._nonce == nonce[:12], label="nonce")
    ensures(self._ctr == int.from_bytes(nonce[12:16], ctr_byteorder_encoding.value) + (ctr_value if ctr_value is not None else 0),
            label="start-value")
    ensures(self._ctr_byteorder_encoding == ctr_byteorder_encoding, label="order")
    modifies(self._nonce, self._ctr, self._ctr_byteorder_encoding)


@contract("spsdk.crypto.symmetric:Counter.increment")
def _(self: Counter, value: int):
    ensures(self._ctr == old(self._ctr) + value, label="advances-exactly")
    modifies(self._ctr)


@contract("spsdk.crypto.symmetric:Counter.value")
def _(self: Counter) -> bytes:
    # the 32-bit counter field wraps (property C09: "all counter start values and increments incl. 32-bit wrap")
    returns(self._nonce + (self._ctr % 4294967296).to_bytes(4, self._ctr_byteorder_encoding.value), label="nonce+ctr32")
    pure()


# ---- AES / SM4 wrappers --------------------------------------------------------------------------------
@contract("spsdk.crypto.symmetric:aes_ecb_encrypt")
def _(key: AesKey, plain_data: bytes) -> bytes:
    requires(len(plain_data) % 16 == 0)
    returns(AES_ECB_E(key, plain_data))
    pure()


@contract("spsdk.crypto.symmetric:aes_ecb_decrypt")
def _(key: AesKey, encrypted_data: bytes) -> bytes:
    requires(len(encrypted_data) % 16 == 0)
    returns(AES_ECB_D(key, encrypted_data))
    pure()


@contract("spsdk.crypto.symmetric:aes_cbc_encrypt")
def _(key: bytes, plain_data: bytes, iv_data: Optional[bytes]) -> bytes:
    let(iv=iv_data if iv_data is not None and len(iv_data) > 0 else ZERO16)
    raises(SPSDKError, len(key) not in (16, 24, 32, 64) or len(iv) != 16)
    # observed, not demanded by the property: a 64-byte key passes SPSDK's own size test (AES.key_sizes lists 512
    # for XTS) and is then refused by the library
    raises(ValueError, len(key) == 64 and len(iv) == 16, label="xts-only-key-size")
    returns(AES_CBC_E(key, iv, pad16(plain_data)))
    pure()


@contract("spsdk.crypto.symmetric:aes_cbc_decrypt")
def _(key: bytes, encrypted_data: bytes, iv_data: Optional[bytes]) -> bytes:
    requires(len(encrypted_data) % 16 == 0)
    let(iv=iv_data if iv_data is not None and len(iv_data) > 0 else ZERO16)
    raises(SPSDKError, len(key) not in (16, 24, 32, 64) or len(iv) != 16)
    raises(ValueError, len(key) == 64 and len(iv) == 16, label="xts-only-key-size")
    returns(AES_CBC_D(key, iv, encrypted_data))
    pure()


@contract("spsdk.crypto.symmetric:sm4_cbc_encrypt")
def _(key: bytes, plain_data: bytes, iv_data: Optional[bytes]) -> bytes:
    let(iv=iv_data if iv_data is not None and len(iv_data) > 0 else ZERO16)
    raises(SPSDKError, len(key) != 16 or len(iv) != 16)
    returns(SM4_CBC_E(key, iv, pad16(plain_data)))
    pure()


@contract("spsdk.crypto.symmetric:sm4_cbc_decrypt")
def _(key: bytes, encrypted_data: bytes, iv_data: Optional[bytes]) -> bytes:
    requires(len(encrypted_data) % 16 == 0)
    let(iv=iv_data if iv_data is not None and len(iv_data) > 0 else ZERO16)
    raises(SPSDKError, len(key) != 16 or len(iv) != 16)
    returns(SM4_CBC_D(key, iv, encrypted_data))
    pure()


@contract("spsdk.crypto.symmetric:aes_ctr_encrypt")
def _(key: AesKey, plain_data: Union[bytes, bytearray], nonce: Bytes(16)) -> bytes:
    # callers (IEE, OTFAD) hand over bytearray chunks; the wrapper passes them on unchanged
    returns(AES_CTR(key, nonce, bytes(plain_data)))
    pure()


@contract("spsdk.crypto.symmetric:aes_ctr_decrypt")
def _(key: AesKey, encrypted_data: bytes, nonce: Bytes(16)) -> bytes:
    returns(AES_CTR(key, nonce, encrypted_data))
    pure()


@contract("spsdk.crypto.symmetric:aes_xts_encrypt")
def _(key: Union[Bytes(32), Bytes(64)], plain_data: Bytes(lo=16), tweak: Bytes(16)) -> bytes:
    requires(key[: len(key) // 2] != key[len(key) // 2:])   # XTS forbids key1 == key2 (the library raises ValueError)
    returns(AES_XTS_E(key, tweak, plain_data))
    pure()
    sample(plain_data=Bytes(lo=16, hi=600))


@contract("spsdk.crypto.symmetric:aes_xts_decrypt")
def _(key: Union[Bytes(32), Bytes(64)], encrypted_data: Bytes(lo=16), tweak: Bytes(16)) -> bytes:
    requires(key[: len(key) // 2] != key[len(key) // 2:])
    returns(AES_XTS_D(key, tweak, encrypted_data))
    pure()
    sample(encrypted_data=Bytes(lo=16, hi=600))


@contract("spsdk.crypto.symmetric:aes_ccm_encrypt")
def _(key: AesKey, plain_data: Bytes(hi=65535), nonce: Bytes(lo=7, hi=13), associated_data: bytes,
      tag_len: OneOf(4, 6, 8, 10, 12, 14, 16)) -> bytes:
    returns(AES_CCM_E(key, tag_len, nonce, plain_data, associated_data))
    pure()


@contract("spsdk.crypto.symmetric:aes_key_wrap")
def _(kek: AesKey, key_to_wrap: Bytes(lo=16)) -> bytes:
    requires(len(key_to_wrap) % 8 == 0)
    returns(AES_KEY_WRAP(kek, key_to_wrap))
    pure()
    sample(key_to_wrap=OneOf(bytes(16), bytes(range(24)), bytes(range(32)), bytes(range(64))))


# ---- inversion lemmas (A-crypto-laws: D(k, iv, E(k, iv, x)) == x) over the *contracts* of the wrappers -----
@lemma("aes-cbc-roundtrip-defaults-on-both-sides")
def _(key: AesKey, m: bytes, iv: Optional[Bytes(16)]):
    ensures(aes_cbc_decrypt(key, aes_cbc_encrypt(key, m, iv), iv) == pad16(m))


@lemma("sm4-cbc-roundtrip-defaults-on-both-sides")
def _(key: Bytes(16), m: bytes, iv: Optional[Bytes(16)]):
    ensures(sm4_cbc_decrypt(key, sm4_cbc_encrypt(key, m, iv), iv) == pad16(m))


@lemma("aes-ecb-roundtrip")
def _(key: AesKey, m: bytes):
    requires(len(m) % 16 == 0)
    ensures(aes_ecb_decrypt(key, aes_ecb_encrypt(key, m)) == m)


@lemma("aes-ctr-roundtrip")
def _(key: AesKey, m: bytes, nonce: Bytes(16)):
    ensures(aes_ctr_decrypt(key, aes_ctr_encrypt(key, m, nonce), nonce) == m)


@lemma("aes-xts-roundtrip")
def _(key: Union[Bytes(32), Bytes(64)], m: Bytes(lo=16), tweak: Bytes(16)):
    requires(key[: len(key) // 2] != key[len(key) // 2:])
    ensures(aes_xts_decrypt(key, aes_xts_encrypt(key, m, tweak), tweak) == m)


# ---- hashes / MACs / KDF wrappers -----------------------------------------------------------------------
HASHES = OneOf(EnumHashAlgorithm.SHA1, EnumHashAlgorithm.SHA256, EnumHashAlgorithm.SHA384, EnumHashAlgorithm.SHA512,
               EnumHashAlgorithm.MD5, EnumHashAlgorithm.SM3)
inline("spsdk.crypto.hash:get_hash_algorithm")


@contract("spsdk.crypto.hash:get_hash_length")
def _(algorithm: HASHES) -> int:
    returns(HASH_LEN[algorithm.label])
    pure()


@contract("spsdk.crypto.hash:get_hash")
def _(data: Union[bytes, bytearray], algorithm: HASHES) -> bytes:
    returns(HASH(algorithm.label, data))
    pure()


@contract("spsdk.crypto.spsdk_hmac:hmac")
def _(key: bytes, data: bytes, algorithm: HASHES) -> bytes:
    returns(HMAC(algorithm.label, key, data))
    pure()


@contract("spsdk.crypto.spsdk_hmac:hmac_validate")
def _(key: bytes, data: bytes, signature: bytes, algorithm: HASHES) -> bool:
    returns(HMAC(algorithm.label, key, data) == signature)
    pure()


@contract("spsdk.crypto.cmac:cmac")
def _(key: AesKey, data: bytes) -> bytes:
    returns(CMAC(key, data))
    pure()


@contract("spsdk.crypto.cmac:cmac_validate")
def _(key: AesKey, data: bytes, signature: bytes) -> bool:
    returns(CMAC(key, data) == signature)
    pure()


@contract("spsdk.crypto.hkdf:hkdf")
def _(salt: bytes, ikm: bytes, info: bytes, length: Range(0, 8160)) -> bytes:
    returns(HKDF_SHA256(salt, ikm, info, length))
    pure()


# ---- CRC -------------------------------------------------------------------------------------------------
@contract("spsdk.crypto.crc:Crc.calculate")
def _(self: Obj(Crc, polynomial=OneOf(0x104C11DB7, 0x11021), initial_value=OneOf(0, 0xFFFFFFFF), final_xor=OneOf(0, 0xFFFFFFFF),
                reverse=bool), data: bytes) -> int:
    returns(CRC(self.polynomial, self.initial_value, self.reverse, self.final_xor, data))
    pure()
    sample(self=Obj(Crc, polynomial=Const(0x104C11DB7), initial_value=OneOf(0, 0xFFFFFFFF), final_xor=OneOf(0, 0xFFFFFFFF),
                    reverse=bool))


@lemma("crc-table-has-the-catalogue-parameters")
def _():
    # data obligation on CRC_ALGORITHMS: CRC-32, CRC-32/MPEG-2, CRC-16/XMODEM in crcmod's convention
    let(a=CRC_ALGORITHMS[CrcAlg.CRC32], b=CRC_ALGORITHMS[CrcAlg.CRC32_MPEG], c=CRC_ALGORITHMS[CrcAlg.CRC16_XMODEM])
    ensures(a.polynomial == 0x104C11DB7 and a.initial_value == 0 and a.final_xor == 0xFFFFFFFF and a.reverse is True, label="crc32")
    ensures(b.polynomial == 0x104C11DB7 and b.initial_value == 0xFFFFFFFF and b.final_xor == 0 and b.reverse is False, label="crc32-mpeg2")
    ensures(c.polynomial == 0x11021 and c.initial_value == 0 and c.final_xor == 0 and c.reverse is False, label="crc16-xmodem")


# ---- key-store derivations ---------------------------------------------------------------------------------
@contract("spsdk.image.keystore:KeyStore.derive_hmac_key")
def _(hmac_key: bytes) -> bytes:
    raises(SPSDKError, len(hmac_key) != 32)
    returns(AES_ECB_E(hmac_key, bytes(16)))
    pure()


@contract("spsdk.image.keystore:KeyStore.derive_enc_image_key")
def _(master_key: bytes) -> bytes:
    raises(SPSDKError, len(master_key) != 32)
    returns(AES_ECB_E(master_key, b"\x01" + bytes(15) + b"\x02" + bytes(15)))
    pure()


@contract("spsdk.image.keystore:KeyStore.derive_sb_kek_key")
def _(master_key: bytes) -> bytes:
    raises(SPSDKError, len(master_key) != 32)
    returns(AES_ECB_E(master_key, b"\x03" + bytes(15) + b"\x04" + bytes(15)))
    pure()


@contract("spsdk.image.keystore:KeyStore.derive_otfad_kek_key")
def _(master_key: bytes, otfad_input: bytes) -> bytes:
    raises(SPSDKError, len(master_key) != 32 or len(otfad_input) != 16)
    returns(AES_ECB_E(master_key, otfad_input))
    pure()


# ---- SB3.1 KDF ----------------------------------------------------------------------------------------------
from spsdk.sbfile.sb31.functions import KeyDerivationMode, _get_key_derivation_data, _derive_key  # noqa: E402


def kdf_block(constant, rights, mode, key_length, iteration):
    """Documented CMAC-KDF input block (SP 800-108 counter mode as used by SB3.1)."""
    return (constant.to_bytes(12, "little") + bytes(8) + (rights * 64).to_bytes(1, "big")
            + (b"\x01" if mode == KeyDerivationMode.KDK else b"\x10") + bytes(1)
            + (b"\x20" if key_length == 128 else b"\x21") + key_length.to_bytes(4, "big") + iteration.to_bytes(4, "big"))


@contract("spsdk.sbfile.sb31.functions:_get_key_derivation_data")
def _(derivation_constant: Range(0, (1 << 96) - 1), kdk_access_rights: int, mode: KeyDerivationMode, key_length: int,
      iteration: U32) -> bytes:
    raises(SPSDKError, kdk_access_rights not in (0, 1, 2, 3) or key_length not in (128, 256))
    returns(kdf_block(derivation_constant, kdk_access_rights, mode, key_length, iteration))
    ensures(len(result) == 32, label="length")
    pure()


@contract("spsdk.sbfile.sb31.functions:_derive_key")
def _(key: AesKey, derivation_constant: Range(0, (1 << 96) - 1), kdk_access_rights: int, mode: KeyDerivationMode,
      key_length: int) -> bytes:
    raises(SPSDKError, kdk_access_rights not in (0, 1, 2, 3) or key_length not in (128, 256))
    returns(CMAC(key, kdf_block(derivation_constant, kdk_access_rights, mode, key_length, 1))
            + (CMAC(key, kdf_block(derivation_constant, kdk_access_rights, mode, key_length, 2)) if key_length == 256 else b""))
    pure()


@contract("spsdk.sbfile.sb31.functions:derive_kdk")
def _(pck: AesKey, timestamp: Range(0, (1 << 96) - 1), key_length: OneOf(128, 256), kdk_access_rights: OneOf(0, 1, 2, 3)) -> bytes:
    returns(_derive_key(pck, timestamp, kdk_access_rights, KeyDerivationMode.KDK, key_length))
    ensures(len(result) == key_length // 8, label="length")
    pure()


@contract("spsdk.sbfile.sb31.functions:derive_block_key")
def _(kdk: AesKey, block_number: Range(0, (1 << 96) - 1), key_length: OneOf(128, 256), kdk_access_rights: OneOf(0, 1, 2, 3)) -> bytes:
    returns(_derive_key(kdk, block_number, kdk_access_rights, KeyDerivationMode.BLK, key_length))
    ensures(len(result) == key_length // 8, label="length")
    pure()


# ---- Hash class: an integer is hashed as its minimal big-endian encoding (reference: hashlib over the same bytes) -----------------------
from spsdk.crypto.hash import Hash  # noqa: E402

inline("spsdk.crypto.hash:Hash.__init__", "spsdk.crypto.hash:Hash.update", "spsdk.crypto.hash:Hash.update_int", "spsdk.crypto.hash:Hash.finalize")


@lemma("hash-update-int-hashes-the-minimal-big-endian-encoding")
def _(alg: OneOf(EnumHashAlgorithm.SHA1, EnumHashAlgorithm.SHA256, EnumHashAlgorithm.SHA384, EnumHashAlgorithm.SHA512),
      b: OneOf(1, 7, 8, 9, 15, 16, 17, 24, 31, 32, 33, 56, 63, 64, 65, 2048), v: Nat, negative: bool):
    # every bit length around the byte boundaries (the value itself is arbitrary within its bit length); the sign is dropped
    requires(v >= 2 ** (b - 1) and v < 2 ** b)
    let(h=Hash(alg))
    let(u=h.update_int(-v if negative else v))
    let(d=h.finalize())
    ensures(d == HASH(alg.label, v.to_bytes((b + 7) // 8, "big")), label="digest-of-the-minimal-encoding")


@lemma("hash-update-int-of-zero-hashes-nothing")
def _(alg: OneOf(EnumHashAlgorithm.SHA1, EnumHashAlgorithm.SHA256)):
    let(h=Hash(alg))
    let(u=h.update_int(0))
    ensures(h.finalize() == HASH(alg.label, b""), label="empty-encoding")
