"""C20 — number parsing, alignment and byte-order helpers (spsdk/utils/misc.py, spsdk/sbfile/misc.py)."""
from vf.api import *  # noqa
from spsdk.exceptions import SPSDKError, SPSDKValueError
from spsdk.utils.misc import Endianness, BinaryPattern, get_bytes_cnt_of_int


concrete_ok("spsdk.utils.misc:BinaryPattern")

# ------------------------------------------------------------------------------------------------
# alignment
# ------------------------------------------------------------------------------------------------
@contract("spsdk.utils.misc:align")
def _(number: int, alignment: int) -> int:
    raises(SPSDKError, alignment <= 0 or number < 0)
    ensures(result >= number, label="ge")
    ensures(result % alignment == 0, label="multiple")
    ensures(result - number < alignment, label="minimal")
    ensures(implies(number % alignment == 0, result == number), label="fixpoint-on-multiples")
    pure()
    cover(number=5, alignment=4)


@contract("spsdk.utils.misc:check_range")
def _(x: int, start: int, end: int) -> bool:
    returns(start <= x <= end, label="truthful")
    pure()
    cover(x=5, start=0, end=3)


@contract("spsdk.utils.misc:extend_block")
def _(data: bytes, length: int, padding: U8) -> bytes:
    raises(SPSDKError, length < len(data))
    ensures(len(result) == length, label="length")
    ensures(result[: len(data)] == data, label="prefix-kept")
    ensures(forall(len(data), length, lambda k: result[k] == padding), label="padding")
    pure()
    cover(data=b"ab", length=4, padding=0)
    sample(length=Range(0, 5000))


# numeric patterns (instantiated: 1, 2, 3, 4, 5 and 8 bytes long; the block size is arbitrary): the block repeats the big-endian digits of the number
NUMERIC_PATTERNS = {"0x5A": b"\x5a", "0x1234": b"\x12\x34", "0xABCDEF": b"\xab\xcd\xef", "0xDEADBEEF": b"\xde\xad\xbe\xef", "0x0102030405": b"\x01\x02\x03\x04\x05",
                    "0x1122334455667788": b"\x11\x22\x33\x44\x55\x66\x77\x88"}
concrete_ok("spsdk.utils.misc:value_to_bytes")


def numeric_digits(pattern):
    return NUMERIC_PATTERNS.get(pattern, b"\x00")


@contract("spsdk.utils.misc:BinaryPattern.get_block")
def _(self: Obj(BinaryPattern, _pattern=OneOf("zeros", "ones", "inc", "0x5A", "0x1234", "0xABCDEF", "0xDEADBEEF", "0x0102030405", "0x1122334455667788")), size: Nat) -> bytes:
    ensures(len(result) == size, label="length")
    ensures(implies(self._pattern in NUMERIC_PATTERNS, forall(0, size, lambda k: result[k] == numeric_digits(self._pattern)[k % len(numeric_digits(self._pattern))])),
            label="numeric-pattern-repeats-its-digits-up-to-the-size")
    ensures(implies(self._pattern == "zeros", forall(0, size, lambda k: result[k] == 0)), label="zeros")
    ensures(implies(self._pattern == "ones", forall(0, size, lambda k: result[k] == 0xFF)), label="ones")
    ensures(implies(self._pattern == "inc", forall(0, size, lambda k: result[k] == k % 256)), label="inc")
    pure()
    sample(size=Range(0, 5000))


def pad_byte(padding, k):
    """k-th padding byte for the padding argument of align_block."""
    return ite(typed(padding, BinaryPattern), ite(padding._pattern == "ones", 255, ite(padding._pattern == "inc", k % 256, 0)), 0)


@contract("spsdk.utils.misc:align_block")
def _(data: Union[bytes, bytearray], alignment: int,
      padding: Union[OneOf(None, 0, "zeros"), Obj(BinaryPattern, _pattern=OneOf("zeros", "ones", "inc"))]) -> bytes:
    # code rejects alignment < 0 itself and alignment == 0 through align(): the statement is "<= 0 is an error"
    raises(SPSDKError, alignment <= 0)
    ensures(len(result) >= len(data) and len(result) % alignment == 0 and len(result) - len(data) < alignment,
            label="aligned-length")
    ensures(result[: len(data)] == data, label="prefix-kept")
    ensures(forall(len(data), len(result), lambda k: result[k] == pad_byte(padding, k - len(data))), label="padding-pattern")
    ensures(implies(len(data) % alignment == 0, len(result) == len(data)), label="aligned-input-unchanged")
    pure()
    sample(alignment=Range(-2, 5000))


# ------------------------------------------------------------------------------------------------
# range / swap helpers
# ------------------------------------------------------------------------------------------------
@contract("spsdk.utils.misc:swap16")
def _(x: int) -> int:
    raises(SPSDKError, x < 0 or x > 0xFFFF)
    returns((x % 256) * 256 + x // 256, label="swapped")
    pure()


@lemma("swap16-involution")
def _(x: U16):
    let(y=(x % 256) * 256 + x // 256)
    ensures((y % 256) * 256 + y // 256 == x)


@contract("spsdk.utils.misc:swap32")
def _(x: int) -> int:
    raises(SPSDKError, x < 0 or x > 0xFFFFFFFF)
    returns(byte_at(x, 0) * 0x1000000 + byte_at(x, 1) * 0x10000 + byte_at(x, 2) * 0x100 + byte_at(x, 3), label="swapped")
    pure()


@contract("spsdk.utils.misc:reverse_bytes_in_longs")
def _(arr: Union[bytes, bytearray]) -> bytes:
    raises(SPSDKError, len(arr) % 4 != 0)
    ensures(len(result) == len(arr), label="length")
    ensures(forall(0, len(arr), lambda i: result[i] == arr[4 * (i // 4) + 3 - i % 4]), label="permutation")
    pure()


@invariant("spsdk.utils.misc:reverse_bytes_in_longs", loop=0)
def _():
    holds(x % 4 == 0 and 0 <= x and x <= arr_len)
    holds(len(result) == x)
    holds(forall(0, x, lambda i: result[i] == arr[4 * (i // 4) + 3 - i % 4]))


@contract("spsdk.utils.misc:change_endianness")
def _(bin_data: bytes) -> bytearray:
    raises(SPSDKError, len(bin_data) == 3 or (len(bin_data) > 3 and len(bin_data) % 4 != 0))
    ensures(len(result) == len(bin_data), label="length")
    ensures(implies(len(bin_data) == 2, result[0] == bin_data[1] and result[1] == bin_data[0]), label="len2")
    ensures(implies(len(bin_data) == 1, result[0] == bin_data[0]), label="len1")
    ensures(implies(len(bin_data) >= 4, forall(0, len(bin_data), lambda i: result[i] == bin_data[4 * (i // 4) + 3 - i % 4])),
            label="longs")
    pure()


@contract("spsdk.utils.misc:swap_bytes")
def _(data: bytes) -> bytes:
    requires(len(data) % 2 == 0)
    ensures(len(result) == len(data), label="length")
    ensures(forall(0, len(data), lambda i: result[i] == data[i + 1 - 2 * (i % 2)]), label="pairs-swapped")
    pure()


# ------------------------------------------------------------------------------------------------
# int <-> bytes
# ------------------------------------------------------------------------------------------------
@contract("spsdk.utils.misc:get_bytes_cnt_of_int")
def _(value: int, align_to_2n: bool, byte_cnt: Optional[Nat]) -> int:
    # byte_cnt None or 0 means "no requested width" (the code tests its truthiness)
    let(req=byte_cnt is not None and byte_cnt != 0)
    raises(SPSDKValueError, value < 0, label="negative-rejected")
    raises(SPSDKValueError, value > 0 and req and (not align_to_2n or value < 65536) and value >= pow2(8 * byte_cnt),
           label="does-not-fit")
    raises(SPSDKValueError, value >= 65536 and req and align_to_2n and value >= pow2(32 * (byte_cnt // 4)),
           label="does-not-fit-after-align")
    ensures(result >= 1, label="positive")
    ensures(0 <= value and value < pow2(8 * result), label="fits")
    ensures(implies(req, result == byte_cnt), label="requested-width")
    ensures(implies(not req and (not align_to_2n or value < 65536), result == 1 or value >= pow2(8 * (result - 1))),
            label="minimal-width")
    ensures(implies(not req and align_to_2n and value >= 65536, result % 4 == 0 and value >= pow2(8 * (result - 4))),
            label="documented-width-4n")
    pure()
    sample(byte_cnt=Optional[Range(0, 80)])
    cover(value=70000, align_to_2n=True, byte_cnt=None)


@invariant("spsdk.utils.misc:get_bytes_cnt_of_int", loop=0)
def _():
    let(v0=old(value))
    holds(value >= 0 and cnt >= 0 and v0 > 0)
    holds(value * pow2(8 * cnt) <= v0 and v0 < (value + 1) * pow2(8 * cnt), label="window")
    holds(implies(cnt >= 1, v0 >= pow2(8 * (cnt - 1))), label="minimal")
    variant(value)


@contract("spsdk.utils.misc:value_to_int")
def _(value: Union[int, Bytes(hi=16), Bytes(hi=16, mutable=True)], default: Optional[int]) -> int:
    ensures(implies(typed(value, int), result == value), label="int-identity")
    ensures(implies(not typed(value, int), result == int.from_bytes(value, "big")), label="bytes-big-endian")
    pure()


@contract("spsdk.utils.misc:value_to_bool")
def _(value: Union[bool, int, None]) -> bool:
    returns(value is not None and value != 0)
    pure()


@contract("spsdk.utils.misc:value_to_bytes")
def _(value: Union[bytes, bytearray, int], align_to_2n: bool, byte_cnt: Optional[Nat], endianness: Endianness) -> bytes:
    let(req=byte_cnt is not None and byte_cnt != 0, isint=typed(value, int))
    raises(SPSDKValueError, isint and value < 0, label="negative-rejected")
    raises(SPSDKValueError, isint and value > 0 and req and (not align_to_2n or value < 65536) and value >= pow2(8 * byte_cnt),
           label="does-not-fit")
    raises(SPSDKValueError, isint and value >= 65536 and req and align_to_2n and value >= pow2(32 * (byte_cnt // 4)),
           label="does-not-fit-after-align")
    returns(value.to_bytes(get_bytes_cnt_of_int(value, align_to_2n, byte_cnt), endianness.value) if isint else value,
            label="digits-of-the-value-at-the-chosen-width")
    ensures(implies(isint and req, len(result) == byte_cnt), label="requested-width")
    ensures(implies(isint, len(result) >= 1 and value < pow2(8 * len(result))), label="fits")
    ensures(implies(isint and not req and (not align_to_2n or value < 65536),
                    len(result) == 1 or value >= pow2(8 * (len(result) - 1))), label="minimal-width")
    ensures(implies(isint and not req and align_to_2n and value >= 65536,
                    len(result) % 4 == 0 and value >= pow2(8 * (len(result) - 4))), label="documented-width-4n")
    ensures(implies(isint and endianness == Endianness.LITTLE, forall(0, len(result), lambda j: result[j] == byte_at(value, j))),
            label="little-endian-digits")
    ensures(implies(isint and endianness == Endianness.BIG,
                    forall(0, len(result), lambda j: result[j] == byte_at(value, len(result) - 1 - j))), label="big-endian-digits")
    pure()
    sample(byte_cnt=Optional[Range(0, 80)])


# ------------------------------------------------------------------------------------------------
# spsdk/sbfile/misc.py
# ------------------------------------------------------------------------------------------------
@contract("spsdk.sbfile.misc:SecBootBlckSize.is_aligned")
def _(size: int) -> bool:
    returns(size % 16 == 0)
    pure()


@contract("spsdk.sbfile.misc:SecBootBlckSize.align")
def _(size: int) -> int:
    raises(SPSDKError, size < 0)
    ensures(result >= size and result % 16 == 0 and result - size < 16, label="smallest-multiple-of-16")
    pure()


@contract("spsdk.sbfile.misc:SecBootBlckSize.to_num_blocks")
def _(size: int) -> int:
    raises(SPSDKError, size % 16 != 0)
    ensures(result * 16 == size, label="exact")
    pure()


@contract("spsdk.sbfile.misc:SecBootBlckSize.align_block_fill_zeros")
def _(data: bytes) -> bytes:
    ensures(len(result) >= len(data) and len(result) % 16 == 0 and len(result) - len(data) < 16, label="aligned-length")
    ensures(result[: len(data)] == data, label="prefix-kept")
    ensures(forall(len(data), len(result), lambda k: result[k] == 0), label="zero-padding")
    pure()


@contract("spsdk.sbfile.misc:BcdVersion3._check_number")
def _(num: int) -> bool:
    raises(SPSDKError, num < 0 or num > 0x9999 or num % 16 > 9 or (num // 16) % 16 > 9 or (num // 256) % 16 > 9
           or (num // 4096) % 16 > 9, label="bcd-digits")
    returns(True)
    pure()
