"""C20 — number parsing, alignment and byte-order helpers (spsdk/utils/misc.py)."""
from vf.api import *  # noqa
from spsdk.exceptions import SPSDKError, SPSDKValueError


@contract("spsdk.utils.misc:align")
def _(number: int, alignment: int) -> int:
    raises(SPSDKError, alignment <= 0 or number < 0)
    ensures(result >= number, label="ge")
    ensures(result % alignment == 0, label="multiple")
    ensures(result - number < alignment, label="minimal")
    pure()


@contract("spsdk.utils.misc:check_range")
def _(x: int, start: int, end: int) -> bool:
    returns(start <= x <= end)
    pure()
