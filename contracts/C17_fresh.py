"""C17 — secrets SPSDK invents are fresh for every artifact.

Ghost contract: `random_bytes(n)` returns n bytes drawn from the OS generator at a new tick (A-rng: distinct ticks give
independent values).  A constructor that may invent a secret gets the postcondition "if the caller supplied none, the field
holds a value drawn *during this call*" (`fresh_in_call`).  Two artifacts are built by two calls, hence at different ticks.
A value that originates at function-definition or import time (default argument, class attribute) is a concrete
pre-existing object, never a draw of the call, and fails the obligation.
"""
from vf.api import *  # noqa
from spsdk.exceptions import SPSDKError
from spsdk.crypto.rng import random_bytes
from spsdk.sbfile.sb2.images import SBV2xAdvancedParams, BootImageV20, BootImageV21
from spsdk.utils.crypto.otfad import KeyBlob
from spsdk.image.bee import BeeKIB, BeeProtectRegionBlock, BeeProtectRegionBlockAesMode, BeeRegionHeader
from spsdk.image.mbi.mbi_mixin import Mbi_MixinCtrInitVector


@contract("spsdk.crypto.rng:random_bytes")
def _(length: Nat) -> bytes:
    ensures(len(result) == length, label="length")
    ensures(fresh_in_call(result), label="drawn-now")
    pure()
    sample(length=Range(0, 300))


# ---- SB 2.x -------------------------------------------------------------------------------------------------------
inline("spsdk.sbfile.sb2.images:SBV2xAdvancedParams._create_nonce")
OPT32 = Optional[Bytes(32)]


@contract("spsdk.sbfile.sb2.images:SBV2xAdvancedParams.__init__")
def _(self: Obj(SBV2xAdvancedParams), dek: OPT32, mac: OPT32, nonce: Optional[Bytes(16)], timestamp: Opaque(), padding: Optional[Bytes(8)]):
    requires(timestamp is not None)      # datetime.now() / float arithmetic is outside the subset (default timestamp: bounded only)
    ensures(self._dek == dek if dek is not None else fresh_in_call(self._dek) and len(self._dek) == 32, label="dek-given-or-fresh")
    ensures(self._mac == mac if mac is not None else fresh_in_call(self._mac) and len(self._mac) == 32, label="mac-given-or-fresh")
    ensures(self._nonce == nonce if nonce is not None else fresh_in_call(self._nonce, (9, 13)) and len(self._nonce) == 16,
            label="nonce-given-or-fresh")
    ensures(self._padding == padding if padding is not None else fresh_in_call(self._padding) and len(self._padding) == 8,
            label="padding-given-or-fresh")
    modifies(self._dek, self._mac, self._nonce, self._padding, self._timestamp)
    verify_types(timestamp=Const(__import__("datetime").datetime(2020, 1, 1)))
    sample_with(lambda rnd: {"self": object.__new__(SBV2xAdvancedParams), "dek": rnd.choice([None, bytes(32)]), "mac": rnd.choice([None, bytes(range(32))]),
                             "nonce": rnd.choice([None, bytes(16)]), "timestamp": __import__("datetime").datetime(2020, 1, 1),
                             "padding": rnd.choice([None, bytes(8)])})


@lemma("BootImageV20/V21-default-parameters-are-created-per-call")
def _():
    # data obligation on the real signatures: the default of `advanced_params` must not be an object created at definition time
    let(d20=__import__("inspect").signature(BootImageV20.__init__).parameters["advanced_params"].default,
        d21=__import__("inspect").signature(BootImageV21.__init__).parameters["advanced_params"].default)
    ensures(d20 is None, label="BootImageV20-default-is-None")
    ensures(d21 is None, label="BootImageV21-default-is-None")


# ---- MBI counter IV ----------------------------------------------------------------------------------------------------
@lemma("MBI-counter-IV-is-not-an-import-time-value")
def _():
    ensures(Mbi_MixinCtrInitVector.NEEDED_MEMBERS["_ctr_init_vector"] is None, label="class-level-member-holds-no-secret")


@contract("spsdk.image.mbi.mbi_mixin:Mbi_MixinCtrInitVector.ctr_init_vector")
def _(self: Obj(Mbi_MixinCtrInitVector, _ctr_init_vector=Optional[Bytes(16)], _CTR_INIT_VECTOR_SIZE=Const(16))) -> bytes:
    ensures(result == old(self._ctr_init_vector) if old(self._ctr_init_vector) is not None else fresh_in_call(result) and len(result) == 16,
            label="given-or-fresh")
    ensures(self._ctr_init_vector == result, label="kept-for-this-image")
    modifies(self._ctr_init_vector)
    sample_with(lambda rnd: {"self": _mk(Mbi_MixinCtrInitVector, _ctr_init_vector=rnd.choice([None, bytes(16)]))})


def _mk(cls, **f):
    o = object.__new__(cls)
    for k, v in f.items():
        object.__setattr__(o, k, v)
    return o


# ---- OTFAD / BEE -----------------------------------------------------------------------------------------------------------
@contract("spsdk.utils.crypto.otfad:KeyBlob.__init__")
def _(self: Obj(KeyBlob), start_addr: U32, end_addr: U32, key: Optional[Bytes(16)], counter_iv: Optional[Bytes(8)], key_flags: OneOf(3),
      zero_fill: Const(None), crc: Const(None)):
    requires(start_addr <= end_addr and start_addr % 1024 == 0)
    ensures(self.key == key if key is not None else fresh_in_call(self.key) and len(self.key) == 16, label="key-given-or-fresh")
    ensures(self.ctr_init_vector == counter_iv if counter_iv is not None else fresh_in_call(self.ctr_init_vector) and len(self.ctr_init_vector) == 8,
            label="counter-given-or-fresh")
    modifies(self.key, self.ctr_init_vector, self.start_addr, self.end_addr, self.key_flags, self.zero_fill, self.crc_fill)
    sample_with(lambda rnd: {"self": object.__new__(KeyBlob), "start_addr": 0x400, "end_addr": 0x7FF, "key": rnd.choice([None, bytes(16)]),
                             "counter_iv": rnd.choice([None, bytes(8)]), "key_flags": 3, "zero_fill": None, "crc": None})


@contract("spsdk.image.bee:BeeKIB.__init__")
def _(self: Obj(BeeKIB), kib_key: Optional[Bytes(16)], kib_iv: Optional[Bytes(16)]):
    ensures(self.kib_key == kib_key if kib_key is not None else fresh_in_call(self.kib_key) and len(self.kib_key) == 16, label="key-given-or-fresh")
    ensures(self.kib_iv == kib_iv if kib_iv is not None else fresh_in_call(self.kib_iv) and len(self.kib_iv) == 16, label="iv-given-or-fresh")
    modifies(self.kib_key, self.kib_iv)
    sample_with(lambda rnd: {"self": object.__new__(BeeKIB), "kib_key": rnd.choice([None, bytes(16)]), "kib_iv": rnd.choice([None, bytes(16)])})


# ---- BEE: every engine header gets its own invented key-info block ------------------------------------------------------------
from spsdk.image.bee import BeeNxp  # noqa: E402
from spsdk.utils.misc import load_binary, load_hex_string  # noqa: E402


@assumed("spsdk.utils.misc:load_binary", reason="file system access; returns the file content")
def _(path: Opaque(), search_paths: Opaque()) -> bytes:
    pure()


@assumed("spsdk.utils.misc:load_hex_string", reason="string/file front end; with a source given it returns the user's bytes of the expected size")
def _(source: Opaque(), expected_size: OneOf(16), search_paths: Opaque(), name: Opaque()) -> bytes:
    requires(source is not None)
    ensures(len(result) == expected_size)


@contract("spsdk.image.bee:BeeProtectRegionBlock.__init__")
def _(self: Obj(BeeProtectRegionBlock), encr_mode: Opaque(), lock_options: Opaque(), counter: Optional[Bytes(16)]):
    ensures(self.counter == counter if counter is not None else fresh_in_call(self.counter[:12]) and self.counter[12:] == bytes(4) and len(self.counter) == 16,
            label="counter-given-or-fresh")
    modifies(self._start_addr, self._end_addr, self.mode, self.lock_options, self.counter, self.fac_regions)
    sample_with(lambda rnd: {"self": object.__new__(BeeProtectRegionBlock), "encr_mode": BeeProtectRegionBlockAesMode.CTR, "lock_options": 0,
                             "counter": rnd.choice([None, bytes(16)])})


inline("spsdk.image.bee:BeeRegionHeader.__init__", "spsdk.image.bee:BeeNxp.__init__", "spsdk.image.bee:BeeProtectRegionBlock.__init__",
       "spsdk.image.bee:BeeKIB.__init__", "spsdk.image.bee:BeeBaseClass.__init__")
ENGINE = DictOf(bee_cfg=DictOf(user_key=Const("0123456789abcdeffedcba9876543210")))


@contract("spsdk.image.bee:BeeNxp.load_from_config", replay=False)
def _(config: DictOf(input_binary=Const("app.bin"), engine_selection=Const("both"), bee_engine=ListOf(ENGINE, 2), base_address=Const(0x60001000)),
      search_paths: Const(None)) -> Opaque():
    ensures(drawn_tick(result.headers[0]._kib.kib_key) >= 0 and drawn_tick(result.headers[1]._kib.kib_key) >= 0
            and drawn_tick(result.headers[0]._kib.kib_key) != drawn_tick(result.headers[1]._kib.kib_key),
            label="each-engine-header-has-its-own-invented-KIB-key")
    ensures(drawn_tick(result.headers[0]._kib.kib_iv) >= 0 and drawn_tick(result.headers[1]._kib.kib_iv) >= 0
            and drawn_tick(result.headers[0]._kib.kib_iv) != drawn_tick(result.headers[1]._kib.kib_iv),
            label="each-engine-header-has-its-own-invented-KIB-IV")
    sample_with(lambda rnd: _bee_cfg())


def _bee_cfg():
    import os, tempfile
    d = tempfile.mkdtemp(prefix="vf-bee-")
    open(os.path.join(d, "app.bin"), "wb").write(bytes(64))
    eng = {"bee_cfg": {"user_key": "0123456789abcdeffedcba9876543210"}}
    return {"config": {"input_binary": os.path.join(d, "app.bin"), "engine_selection": "both", "bee_engine": [eng, dict(eng)], "base_address": 0x60001000},
            "search_paths": None}


# ---- IEE key blobs: keys SPSDK invents are drawn inside the constructor call ----------------------------------------------------
from spsdk.utils.crypto.iee import (IeeKeyBlob, IeeKeyBlobAttribute, IeeKeyBlobKeyAttributes, IeeKeyBlobLockAttributes,  # noqa: E402
                                    IeeKeyBlobModeAttributes)

inline("spsdk.utils.crypto.iee:IeeKeyBlobAttribute.key1_size", "spsdk.utils.crypto.iee:IeeKeyBlobAttribute.key2_size",
       "spsdk.utils.crypto.iee:IeeKeyBlobAttribute.ctr_mode")
IEE_ATTR = Obj(IeeKeyBlobAttribute, lock=IeeKeyBlobLockAttributes, key_attribute=IeeKeyBlobKeyAttributes, aes_mode=IeeKeyBlobModeAttributes)


@contract("spsdk.utils.crypto.iee:IeeKeyBlob.__init__")
def _(self: Obj(IeeKeyBlob), attributes: IEE_ATTR, start_addr: U32, end_addr: U32, key1: Optional[Union[Bytes(16), Bytes(32)]],
      key2: Optional[Union[Bytes(16), Bytes(32)]], page_offset: Const(0), crc: Const(None)):
    requires(start_addr <= end_addr and start_addr % 1024 == 0)
    let(k1=16 if attributes.key_attribute == IeeKeyBlobKeyAttributes.CTR128XTS256 else 32)
    let(ctr=attributes.aes_mode in (IeeKeyBlobModeAttributes.AesCTRWAddress, IeeKeyBlobModeAttributes.AesCTRWOAddress, IeeKeyBlobModeAttributes.AesCTRkeystream))
    let(k2=16 if (attributes.key_attribute == IeeKeyBlobKeyAttributes.CTR128XTS256 or ctr) else 32)
    ensures(self.key1 == key1 if key1 is not None else fresh_in_call(self.key1) and len(self.key1) == k1, label="key1-given-or-fresh-of-the-mode-size")
    ensures(self.key2 == key2 if key2 is not None else fresh_in_call(self.key2) and len(self.key2) == k2, label="key2-given-or-fresh-of-the-mode-size")
    modifies(self.attributes, self.start_addr, self.end_addr, self.key1, self.key2, self.page_offset, self.crc_fill)
    sample_with(lambda rnd: {"self": object.__new__(IeeKeyBlob),
                             "attributes": IeeKeyBlobAttribute(IeeKeyBlobLockAttributes.UNLOCK, rnd.choice(list(IeeKeyBlobKeyAttributes)), rnd.choice(list(IeeKeyBlobModeAttributes))),
                             "start_addr": 0x30000000, "end_addr": 0x30001000, "key1": rnd.choice([None, bytes(16), bytes(32)]), "key2": rnd.choice([None, bytes(16)]),
                             "page_offset": 0, "crc": None})


# ---- MBI counter IV: loading a configuration that gives no IV draws a new one, whatever the object held before --------------------
@contract("spsdk.image.mbi.mbi_mixin:Mbi_MixinCtrInitVector.mix_load_from_config")
def _(self: Obj(Mbi_MixinCtrInitVector, _ctr_init_vector=Optional[Bytes(16)], _CTR_INIT_VECTOR_SIZE=Const(16), search_paths=Const(None)),
      config: DictOf(CtrInitVector=OneOf(None, "0x000102030405060708090a0b0c0d0e0f"))):
    ensures(implies(config["CtrInitVector"] is None, fresh_in_call(self._ctr_init_vector) and len(self._ctr_init_vector) == 16),
            label="no-iv-in-the-configuration-means-a-new-one-for-this-image")
    modifies(self._ctr_init_vector)
    sample_with(lambda rnd: {"self": _mk(Mbi_MixinCtrInitVector, _ctr_init_vector=rnd.choice([None, bytes(16)]), search_paths=None),
                             "config": {"CtrInitVector": rnd.choice([None, "0x000102030405060708090a0b0c0d0e0f"])}})


# ---- HAB: the data encryption key of an encrypted image is drawn inside the call unless the configuration asks to reuse one -----------------
from spsdk.image.hab.hab_config import CommandsConfig, HabConfig  # noqa: E402
from spsdk.image.hab.segments import CsfHabSegment  # noqa: E402
from spsdk.utils.misc import find_file, get_abs_path, write_file  # noqa: E402


@assumed("spsdk.image.hab.hab_config:CommandsConfig.contains", reason="configuration front end: whether the BD file has the command")
def _(self: Obj(CommandsConfig), key: Opaque()) -> bool:
    pure()


@assumed("spsdk.image.hab.hab_config:CommandsConfig.get_command_params", reason="configuration front end: the options the BD file gives for the Install Secret Key command")
def _(self: Obj(CommandsConfig), command: Opaque()) -> DictOf(SecretKey_Length=OneOf(128, 192, 256), SecretKey_ReuseDek=Range(0, 1), SecretKey_Name=Const("dek.bin")):
    ensures(result["SecretKey_ReuseDek"] == ghost_const("hab_reuse_dek", Range(0, 1)))   # the option value, visible to the caller's contract
    pure()


@assumed("spsdk.utils.misc:find_file", reason="file system: the path of an existing file, or - with raise_exc=False - an empty string when there is none; "
         "a key file left by an earlier build may exist")
def _(file_path: Opaque(), use_cwd: Opaque(), search_paths: Opaque(), raise_exc: bool) -> OneOf("", "/project/dek.bin"):
    may_raise(SPSDKError)
    ensures(raise_exc == False or result != "")   # noqa: E712
    pure()


@assumed("spsdk.utils.misc:get_abs_path", reason="path arithmetic")
def _(file_path: Opaque(), base_dir: Opaque()) -> Const("/project/dek.bin"):
    pure()


@assumed("spsdk.utils.misc:write_file", reason="file system: writes the bytes given")
def _(data: Opaque(), path: Opaque(), mode: Opaque(), encoding: Opaque()) -> int:
    pure()


@contract("spsdk.image.hab.segments:CsfHabSegment.get_dek_from_config", replay=False)
def _(config: Obj(HabConfig, commands=Obj(CommandsConfig)), search_paths: Const(["/project"])) -> Optional[bytes]:
    may_raise(SPSDKError)
    # whenever a key is returned and the configuration did not ask to reuse one (the assumed get_command_params answers are the two cases), it is
    # a key drawn inside this call - whatever files an earlier build left behind
    ensures(implies(result is not None and ghost_const("hab_reuse_dek", Range(0, 1)) != 1, fresh_in_call(result)),
            label="dek-is-drawn-in-this-call-unless-reuse-is-requested")
    sample_with(lambda rnd: _sample_dek(rnd))


def _sample_dek(rnd):
    """Native cases: a project directory that may already hold a key file of an earlier build; reuse not requested."""
    import os
    import tempfile

    from spsdk.image.hab.hab_config import CommandConfig, CommandOptions
    from spsdk.image.hab.commands.commands_enum import SecCommand

    d = tempfile.mkdtemp(prefix="vf-c17-")
    if rnd.random() < 0.6:
        with open(os.path.join(d, "dek.bin"), "wb") as f:
            f.write(bytes(16))
    cmds = CommandsConfig()
    cmds.append(CommandConfig(index=SecCommand.INSTALL_SECRET_KEY.tag, params=CommandOptions({"SecretKey_Name": "dek.bin", "SecretKey_Length": 128})))
    cfg = object.__new__(HabConfig)
    cfg.commands = cmds
    return {"config": cfg, "search_paths": [d]}
