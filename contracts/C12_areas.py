"""C12 — register-backed configuration areas: generic theorem (from C11) + data obligations over the live database.

(1) Generic, for all values: a bit-field read after a bit-field write returns the value written, also through the SHIFT_RIGHT
config processor used by address fields (binary -> config -> binary), and the register's byte image has the register's width.
(2) Data: every register file in spsdk/data satisfies the theorem's precondition (bounded/exhaustive module): fields inside their
register and pairwise disjoint, reset and enum values fit.  Templates / YAML / schema validation are string machinery: bounded only.
"""
from vf.api import *  # noqa
from spsdk.utils.misc import Endianness
from spsdk.utils.registers import ConfigProcessor, Register, RegsBitField, ShiftRightConfigProcessor

BF = Obj(RegsBitField, parent=Obj(Register, width=Const(32), _value=U32, reverse=Const(False), sub_regs=ListOf(Opaque(), 0), alt_widths=Const(None),
                                   base_endianness=Endianness, reverse_subregs_order=bool, name=Const("R")),
         offset=OneOf(0, 8), width=OneOf(24,), config_processor=Obj(ShiftRightConfigProcessor, count=Const(8)))


@lemma("address-field-with-shift-processor-round-trips-binary-config-binary")
def _(bf: BF, addr: Range(0, (1 << 32) - 1)):
    # config value (a full address, multiple of 256) -> stored field -> config value again
    requires(addr % 256 == 0)
    let(_=bf.set_value(addr, False, False))
    ensures(bf.get_value() == addr, label="all-32-address-bits-come-back")


@contract("spsdk.utils.registers:Register.get_bytes_value")
def _(self: Obj(Register, width=OneOf(8, 16, 32, 64), _value=Nat, reverse=Const(False), sub_regs=ListOf(Opaque(), 0), alt_widths=Const(None),
                base_endianness=Endianness, reverse_subregs_order=bool, name=Const("R")), raw: OneOf(False, True)) -> bytes:
    requires(self._value < 2 ** self.width)
    returns(self._value.to_bytes(self.width // 8, self.base_endianness.value), label="width-bytes-in-the-area-endianness")
    pure()
    sample_with(lambda rnd: _s(rnd))


def _s(rnd):
    w = rnd.choice([8, 16, 32, 64])
    r = Register("R", 0, w, "r", base_endianness=rnd.choice(list(Endianness)))
    r._value = rnd.getrandbits(w)
    return {"self": r, "raw": rnd.random() < 0.5}


# ---- PFR computed fields: the inverse half-word / byte is recomputed from the value, whatever the register held before -----------------
from spsdk.pfr.pfr import BaseConfigArea  # noqa: E402


@contract("spsdk.pfr.pfr:BaseConfigArea.pfr_reg_inverse_high_half")
def _(val: U32) -> int:
    returns(val % 65536 + (65535 - val % 65536) * 65536, label="high-half-is-the-inverse-of-the-low-half")
    pure()


@contract("spsdk.pfr.pfr:BaseConfigArea.pfr_reg_inverse_lower_8_bits")
def _(val: U32) -> int:
    # bits 7..0 kept, bits 15..8 = their inverse (stale bits there are cleared), bits 31..16 kept
    returns(val % 256 + (255 - val % 256) * 256 + val // 65536 * 65536, label="bits-15-8-are-the-inverse-of-bits-7-0-rest-kept")
    pure()
