#!/bin/bash
# Runs the repository's pinned test suite (guard OFF) and compares with /root/.vp/BASELINE.json stable_pass.
# usage: tools/baseline.sh [repo_dir]
REPO_DIR="${1:-/repo}"
OUT=$(mktemp -d)
cd "$REPO_DIR" || exit 2
unset SPSDK_VERIF
SPSDK_CACHE_FOLDER="$OUT/cache" /venv/bin/python -m pytest -ra -q -p no:cacheprovider --timeout=900 --continue-on-collection-errors -n 14 --junitxml="$OUT/junit.xml" > "$OUT/log.txt" 2>&1
python3 - "$OUT/junit.xml" <<'PY'
import json, sys, xml.etree.ElementTree as ET
base = json.load(open('/root/.vp/BASELINE.json'))
stable = set(base['stable_pass'])
passed = set()
for tc in ET.parse(sys.argv[1]).getroot().iter('testcase'):
    ok = not any(ch.tag in ('failure', 'error', 'skipped') for ch in tc)
    if ok:
        passed.add(f"{tc.get('classname')}::{tc.get('name')}")
        passed.add(f"{tc.get('classname')}.{tc.get('name')}")
sample = sorted(stable)[:2]
missing = [t for t in stable if t not in passed]
print("baseline stable:", len(stable), "passed now:", len(passed)//2, "missing:", len(missing), "sample id:", sample)
for m in missing[:20]: print("  MISSING", m)
sys.exit(1 if missing else 0)
PY
rc=$?
tail -3 "$OUT/log.txt"
rm -rf "$OUT"
exit $rc
