#!/usr/bin/env python3
"""Splices tools/design_asbuilt.tmpl.md (section 0, with the selftest verdict tables generated from selftest/results.json and
seeded/*/meta.json) into DESIGN.md between the ASBUILT markers."""
import json, os, re

V = os.path.dirname(os.path.dirname(os.path.abspath(__file__)))
tmpl = open(os.path.join(V, "tools", "design_asbuilt.tmpl.md")).read()
rp = os.path.join(V, "selftest", "results.json")
res = json.load(open(rp)) if os.path.exists(rp) else {}
muts = json.load(open(os.path.join(V, "selftest", "mutants.json")))


def caught_by(r):
    if not r:
        return "not run", ""
    obs = []
    for c in r.get("checks", []):
        for l in c["lines"]:
            m = re.match(r"obligation (.+?)(: |$)", l.strip())
            if l.strip().startswith("obligation") and m:
                o = m.group(1).rstrip(":")
                o = o.replace("spsdk.", "")
                if len(o) > 110:
                    o = o[:107] + "..."
                if o not in obs:
                    obs.append(o)
    ex = ",".join(str(c["exit"]) for c in r.get("checks", []))
    return r["verdict"] + f" (exit {ex})", "; ".join(obs[:2])


rows = ["| seeded change | property | what it breaks | verdict | reported obligation (first) |", "|---|---|---|---|---|"]
for d in sorted(os.listdir(os.path.join(V, "seeded"))):
    meta = json.load(open(os.path.join(V, "seeded", d, "meta.json")))
    v, ob = caught_by(res.get("seeded/" + d))
    rows.append(f"| `{d}` | {meta['property']} | {meta['breaks'][:150].replace('|', '/')} | {v} | `{ob.split('; ')[0][:120]}` |")
seeded = "\n".join(rows)

by = {}
for m in muts:
    p = m["property"] if isinstance(m["property"], str) else ",".join(m["property"])
    by.setdefault(p, []).append(m)
rows = ["| property | own mutants | killed | missed / not run | examples of reported obligations |", "|---|---|---|---|---|"]
for p in sorted(by):
    ms = by[p]
    k = [m for m in ms if res.get(m["id"], {}).get("verdict") == "killed"]
    other = [m["id"] + ":" + res.get(m["id"], {}).get("verdict", "not run") for m in ms if m not in k]
    ex = []
    for m in k[:40]:
        _, ob = caught_by(res.get(m["id"]))
        o = ob.split(";")[0].split(":")[-1] if ob else ""
        o = ob.split(";")[0][-70:]
        if o and o not in ex:
            ex.append(o)
    rows.append(f"| {p} | {len(ms)} | {len(k)} | {', '.join(other) or '—'} | {'; '.join('`'+e+'`' for e in ex[:3])} |")
own = "\n".join(rows)
import glob

locks = {}
for f in glob.glob(os.path.join(V, "locks", "*.lock.json")):
    d = json.load(open(f))
    locks[os.path.basename(f)[:3]] = (len(d["units"]), sum(len(v["obligations"]) for v in d["units"].values()))


def _cell(m):
    pid = m.group(1)
    if pid in locks:
        return f"| {pid} | {locks[pid][0]} / {locks[pid][1]} |"
    return m.group(0)


tmpl = re.sub(r"^\| (C\d\d) \| [^|]* \|", _cell, tmpl, flags=re.M)
tot_u, tot_o = sum(v[0] for v in locks.values()), sum(v[1] for v in locks.values())
n_seeded = len(os.listdir(os.path.join(V, "seeded")))
txt = (tmpl.replace("SEEDED_TABLE", seeded).replace("OWN_TABLE", own).replace("OWN_COUNT", str(len(muts))).replace("TOTAL_UNITS", str(tot_u))
       .replace("TOTAL_OBLIGATIONS", str(tot_o)).replace("N_SEEDED", str(n_seeded)))
dp = os.path.join(V, "DESIGN.md")
doc = open(dp).read()
B, E = "<!-- ASBUILT-BEGIN -->", "<!-- ASBUILT-END -->"
if B not in doc:
    marker = "---------------------------------------------------------------------------------------------------\n"
    i = doc.index(marker) + len(marker)
    doc = doc[:i] + "\n" + B + "\n" + E + "\n" + doc[i:]
i, j = doc.index(B) + len(B), doc.index(E)
doc = doc[:i] + "\n" + txt + "\n" + doc[j:]
open(dp, "w").write(doc)
print("DESIGN.md updated:", len(res), "selftest results")
