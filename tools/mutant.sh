#!/bin/bash
# tools/mutant.sh <patch.diff> <ID> [<ID>...]  — apply a patch to a scratch worktree of /repo and run checks against it.
PATCH=$(realpath "$1"); shift
D=$(mktemp -d /tmp/vfm.XXXXXX)
S=$(mktemp -d /tmp/vfs.XXXXXX)
git -C /repo worktree add --detach "$D" HEAD >/dev/null 2>&1 || { echo "worktree failed"; exit 9; }
trap 'git -C /repo worktree remove --force "$D" >/dev/null 2>&1; rm -rf "$D" "$S"' EXIT
cp /repo/spsdk/__version__.py "$D/spsdk/" 2>/dev/null
git -C "$D" apply "$PATCH" || { echo "patch does not apply"; exit 9; }
cd /verif
for id in "$@"; do
  VF_REPO="$D" VF_SCRATCH_OUT="$S" ./check "$id" --tier "${TIER:-quick}" 2>&1 | grep -E "^(VIOLATION|KNOWN|CHECKER|UNDECIDED|  obligation|C[0-9]+ \[)" | sed "s#$D#<repo>#g; s#$S#<scratch>#g" | head -${LINES_MAX:-12}
done
