#!/usr/bin/env python3
"""Regenerates MANIFEST.json from the table below (kept next to the checks so it is always valid)."""
import json, os, glob

VERIF = os.path.dirname(os.path.dirname(os.path.abspath(__file__)))
props = [json.loads(l) for l in open(os.path.join(VERIF, "properties.jsonl"))]

TECH = "contract-based deductive verification: sidecar contracts on the real functions, VCs generated from /repo's AST by vf, discharged by z3 5.1 / z3 4.8 / cvc5; counter-models replayed natively"

# id -> (level text, level note, design ref)
CLAIMED = {
}
exec(open(os.path.join(VERIF, "tools", "claims.py")).read())

NA_DEFAULT = "contracts for this property are not built yet in this session (framework exists; see DESIGN.md section 9 build order)"

checks, na = [], []
for p in props:
    pid = p["id"]
    if pid in CLAIMED and glob.glob(os.path.join(VERIF, "contracts", pid + "_*.py")):
        text, note, ref = CLAIMED[pid]
        checks.append({
            "property_id": pid,
            "quick_cmd": f"./check {pid} --tier quick",
            "thorough_cmd": f"./check {pid} --tier thorough",
            "evidence_file": f"/verif/evidence/{pid}.json",
            "replay_cmd_template": "./check --replay {path}",
            "engine": "vf",
            "level_claimed": {"category": "proof", "text": text, "design_ref": ref},
            "level_note": note,
            "technique": TECH,
        })
    else:
        na.append({"property_id": pid, "reason": NA.get(pid, NA_DEFAULT)})

manifest = {
    "version": 1,
    "setup_cmd": "./setup.sh",
    "hooks": {
        "guard": "SPSDK_VERIF",
        "enable": "not needed: contracts are sidecar files under /verif/contracts; no hook was added to /repo (guard name reserved, unused)",
        "baseline_off_cmd": "cd /repo && /venv/bin/python -m pytest -ra -q -p no:cacheprovider --timeout=900 --continue-on-collection-errors",
        "source_commits": [],
        "add_only": True,
    },
    "engines": [{"name": "vf", "path": "/verif/vf", "serves_properties": [c["property_id"] for c in checks],
                 "kind_free_text": "own verification-condition generator for a Python subset (ast -> z3/cvc5), modular (callee = contract), loop invariants, replay of counter-models on the real code; bounded stand-ins labelled bounded"}],
    "checks": checks,
    "not_applicable": na,
    "notes": "Unguarded 'fix:' commits in /repo are listed in /verif/known_findings.json (fixed entries). Exit codes: 0 held, 1 violation, 2 undecided, 3 checker error.",
}
json.dump(manifest, open(os.path.join(VERIF, "MANIFEST.json"), "w"), indent=1)
print("claimed:", [c["property_id"] for c in checks], "n/a:", len(na))
