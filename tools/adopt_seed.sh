#!/bin/bash
# tools/adopt_seed.sh <ID> <name> : verify an agent-produced seeded change in a fresh scratch worktree and store it under seeded/<name>/
ID=$1; NAME=$2; SRC=${SEED_ROOT:-/tmp/seed2}/$ID/_out
D=$(mktemp -d /tmp/vfa.XXXXXX); rmdir $D
git -C /repo worktree add --detach "$D" HEAD >/dev/null 2>&1 || exit 9
trap 'git -C /repo worktree remove --force "$D" >/dev/null 2>&1; rm -rf "$D"' EXIT
cp /repo/spsdk/__version__.py "$D/spsdk/" 2>/dev/null
cd "$D"; mkdir -p _out; cp $SRC/demo.py _out/demo.py
echo "== demo on pristine:"; SPSDK_CACHE_FOLDER=$D/_c PYTHONPATH=$D /venv/bin/python _out/demo.py >/dev/null 2>&1; echo "exit=$?"
git apply "$SRC/patch.diff" || { echo "patch does not apply to current HEAD"; exit 8; }
echo "== demo with patch:"; SPSDK_CACHE_FOLDER=$D/_c PYTHONPATH=$D /venv/bin/python _out/demo.py 2>&1 | tail -2; echo "exit=${PIPESTATUS[0]}"
if [ -z "$SKIP_BASELINE" ]; then echo "== baseline with patch:"; /verif/tools/baseline.sh "$D" 2>&1 | head -1; fi
mkdir -p /verif/seeded/$NAME && cp $SRC/patch.diff $SRC/demo.py /verif/seeded/$NAME/ && cp $SRC/meta.json /verif/seeded/$NAME/meta.agent.json
