#!/usr/bin/env python3
"""Seeded-defect suite: applies each mutant of selftest/mutants.json (string replacement) to a scratch worktree of
/repo (outside /repo and /verif, removed afterwards), runs the property's check against it and reports whether the
check ends in exit 1 with the expected obligation.  usage: tools/selftest.py [-k substr] [--tier quick]"""
import argparse, json, os, shutil, subprocess, sys, tempfile, time

VERIF = os.path.dirname(os.path.dirname(os.path.abspath(__file__)))
ap = argparse.ArgumentParser()
ap.add_argument("-k", default="")
ap.add_argument("--tier", default="quick")
ap.add_argument("--patch-dir", default=None, help="also run the seeded/<id>/patch.diff changes")
ap.add_argument("--workers", type=int, default=1, help="mutants run in parallel (each check then gets 16/workers jobs)")
ap.add_argument("--save", action="store_true", help="merge the verdicts into selftest/results.json")
ap.add_argument("--equivalents", action="store_true", help="run selftest/equivalents.json instead: semantics-preserving rewrites, expected verdict: no VIOLATION line")
a = ap.parse_args()
muts = json.load(open(os.path.join(VERIF, "selftest", "equivalents.json" if a.equivalents else "mutants.json")))
seeded_dir = os.path.join(VERIF, "seeded")
if os.path.isdir(seeded_dir) and not a.equivalents:
    for d in sorted(os.listdir(seeded_dir)):
        meta = os.path.join(seeded_dir, d, "meta.json")
        if os.path.exists(meta):
            m = json.load(open(meta))
            muts.append({"id": "seeded/" + d, "property": m["property"], "patch": os.path.join(seeded_dir, d, "patch.diff"),
                         "expect": m.get("expect", "")})
res = []
detail = {}
import threading

GITLOCK = threading.Lock()


def one(m):
    out = []
    _print = lambda *x: out.append(" ".join(str(y) for y in x))
    r = _one(m, _print)
    return m["id"], r, out


def _one(m, print):
    d = tempfile.mkdtemp(prefix="vfm.", dir="/tmp")
    s = tempfile.mkdtemp(prefix="vfs.", dir="/tmp")
    os.rmdir(d)
    t0 = time.time()
    try:
        with GITLOCK:
            subprocess.run(["git", "-C", "/repo", "worktree", "add", "--detach", d, "HEAD"], check=True, capture_output=True)
        if os.path.exists("/repo/spsdk/__version__.py"):  # generated, untracked file of the real tree
            shutil.copy("/repo/spsdk/__version__.py", os.path.join(d, "spsdk", "__version__.py"))
        if "patch" in m:
            ap_ = subprocess.run(["git", "-C", d, "apply", m["patch"]], capture_output=True)
            if ap_.returncode:
                print(f"{m['id']}: patch does not apply to HEAD - SKIPPED")
                return {"verdict": "patch-does-not-apply"}
        else:
            p = os.path.join(d, m["file"])
            src = open(p).read()
            if src.count(m["old"]) != 1:
                print(f"{m['id']}: pattern occurs {src.count(m['old'])} times - SKIPPED")
                return {"verdict": "bad-pattern"}
            src = src.replace(m["old"], m["new"])
            if "also" in m:
                assert src.count(m["also"]["old2"]) == 1
                src = src.replace(m["also"]["old2"], m["also"]["new2"])
            open(p, "w").write(src)
        env = dict(os.environ, VF_REPO=d, VF_SCRATCH_OUT=s, VF_JOBS=str(max(4, 16 // a.workers)))
        props = m["property"] if isinstance(m["property"], list) else [m["property"]]
        verdicts = []
        for pid in props:
            r = subprocess.run([os.path.join(VERIF, "check"), pid, "--tier", a.tier], env=env, capture_output=True, text=True)
            lines = [l for l in r.stdout.splitlines() if l.startswith(("VIOLATION", "  obligation", "CHECKER", "UNDECIDED"))]
            if a.equivalents:
                hit = r.returncode != 1 and not any(l.startswith("VIOLATION") for l in r.stdout.splitlines())   # quiet = good
                verdicts.append((pid, r.returncode, hit, lines[:4]))
                continue
            hit = r.returncode == 1 and (not m.get("expect") or any(m["expect"] in l for l in lines))
            verdicts.append((pid, r.returncode, hit, [l for l in lines if m.get("expect", "") in l][:2] + lines[:2]))
        ok = all(v[2] for v in verdicts) if a.equivalents else any(v[2] for v in verdicts)
        if a.equivalents:
            print(f"{'QUIET  ' if ok else 'ALARM  '} {m['id']}  ({time.time()-t0:.0f}s)")
        else:
            print(f"{'KILLED ' if ok else 'MISSED '} {m['id']}  ({time.time()-t0:.0f}s)")
        for pid, rc, hit, lines in verdicts:
            print(f"    {pid}: exit={rc}")
            for l in lines:
                print("      " + l.replace(d, "<repo>").replace(s, "<scratch>")[:220])
        return {"verdict": ("quiet" if ok else "alarm") if a.equivalents else ("killed" if ok else "missed"), "property": m["property"], "secs": round(time.time() - t0),
                "checks": [{"property": pid, "exit": rc, "lines": [l.replace(d, "<repo>").replace(s, "<scratch>")[:300] for l in lines]}
                           for pid, rc, hit, lines in verdicts]}
    finally:
        with GITLOCK:
            subprocess.run(["git", "-C", "/repo", "worktree", "remove", "--force", d], capture_output=True)
        shutil.rmtree(d, ignore_errors=True)
        shutil.rmtree(s, ignore_errors=True)
from concurrent.futures import ThreadPoolExecutor

todo = [m for m in muts if not a.k or a.k in m["id"]]
with ThreadPoolExecutor(max_workers=a.workers) as ex:
    for mid, r, out in ex.map(one, todo):
        print("\n".join(out), flush=True)
        res.append((mid, r["verdict"]))
        detail[mid] = r
        if a.save:  # after every item, so that an interrupted run keeps what it has
            rp = os.path.join(VERIF, "selftest", "results.json")
            old = json.load(open(rp)) if os.path.exists(rp) else {}
            old.update(detail)
            json.dump(old, open(rp, "w"), indent=1, sort_keys=True)
k = sum(1 for _, v in res if v in ("killed", "quiet"))
print(f"{'equivalents quiet' if a.equivalents else 'mutants killed'} {k}/{len(res)}")
sys.exit(0 if k == len(res) else 1)
