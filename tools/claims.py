# Per-property claims for MANIFEST.json (executed by gen_manifest.py).
NA = {}
CLAIMED["C20"] = (
    "Every contract clause of the helper functions (align, align_block, extend_block, BinaryPattern.get_block, check_range, "
    "swap16/32, reverse_bytes_in_longs, change_endianness, swap_bytes, get_bytes_cnt_of_int, value_to_int/bool ...) is a named "
    "obligation generated from the function's real AST and discharged for all inputs (unbounded ints, byte strings of any length, "
    "loops by inductive invariant + variant). String-to-number parsing is only checked by a bounded exhaustive sweep, labelled bounded. Added (round 5): BinaryPattern.get_block for numeric patterns of 1, 2, 3, 4, 5 and 8 bytes (block of any size repeats the digits).",
    "Trusted: vf's encoding of the Python subset (cross-checked per run by executing the same contracts natively on generated inputs), "
    "z3/cvc5, pow2 instance axioms, A-float. The str branch of value_to_int (regex + int(s, base)) is outside the subset: bounded only.",
    "DESIGN.md 7 C20")
CLAIMED["C09"] = (
    "Each wrapper in spsdk/crypto (AES-ECB/CBC/CTR/XTS/CCM, key wrap, SM4-CBC, hash, HMAC, CMAC, HKDF, CRC), Counter, the key-store "
    "derivations and the SB3.1 KDF is proved equal to a term over the primitive symbols (key, IV, data passed unchanged to the right "
    "algorithm/mode; zero padding exactly where documented; SPSDKError exactly for illegal sizes; counter advances exactly, 32-bit field wraps); "
    "decrypt(encrypt(m)) = m with defaults on both sides follows as lemmas over those contracts and the inverse laws of the primitives. "
    "That the primitives equal their standards is NOT proved (external C code): bounded known-answer vectors only. Added (round 3): Hash.update_int hashes the minimal big-endian encoding (bit lengths around every byte boundary up to 65 bits and 2048 bits, all four SHA algorithms, sign dropped; zero hashes nothing).",
    "Trusted: the assumed models of `cryptography`/`crcmod` calls in vf/extmodels.py (which exception for which argument size; results as "
    "uninterpreted functions with length laws and D(E(x)) = x), A-enc, A-smt.",
    "DESIGN.md 7 C09")
CLAIMED["C16"] = (
    "BinaryImage.__len__/export/validate/add_image/append_image are proved against the abstract view of the property (reported length; "
    "byte k = last child covering k, else binary, else fill pattern; error iff a child sticks out / siblings overlap / negative offset) "
    "by modular induction over tree depth: children are abstract images known only through these same contracts (ghost length / bytes / "
    "validity), so depth is unbounded. Width is instantiated for 0..3 children per node (loops unrolled completely per width); wider nodes, "
    "and BIN/HEX/S-record save/load (bincopy), are bounded checks only. One recorded known finding (empty child inside a sibling). Added (round 3, bounded): nodes with own binary, fill pattern and larger size / alignment in the BIN/HEX/S19 save-load sweep. Added (round 5): absolute_address (own offset plus the parent's, non-empty parent), aligned_start / aligned_length (both ends on the boundary, start at or before, end at or behind and less than one alignment away: padding only ever extends the end).",
    "Trusted: A-enc, A-smt; align/align_block/BinaryPattern.get_block through their own verified contracts (C20). 'rand' pattern excluded.",
    "DESIGN.md 7 C16")
CLAIMED["C11"] = (
    "RegsBitField.get_value/set_value (read-back, neighbours untouched as 'all bits below offset and at/above offset+width unchanged', "
    "values that do not fit rejected, register stays in range), Register.get_value/set_value for plain, byte-reversed and grouped "
    "(normal/reversed sub-register order) registers against one abstract bit-vector view, and the frame obligation 'get_registers does "
    "not change the object' are discharged for all values. Layouts are enumerated: quick = 44 boundary-rich (offset,width) pairs in a "
    "32-bit register + boundary pairs at 8/16/64 bits, thorough = all 528 pairs; groups of 2/3 x 32 bits; reversed registers 8..64 bits. "
    "Config/YAML/string paths and export/parse of register files are not covered deductively here (see C12). Widened: grouped registers with alternative widths (a shorter value replaces the whole register). Widened (round 3): byte-reversed registers of 24 and 48 bits (widths that are not a multiple of 32).",
    "Trusted: A-enc, A-smt, A-struct (from_bytes(to_bytes(v)) = v positional-notation identities), layouts outside the enumerated set "
    "(symbolic offset/width arithmetic is not decided by z3: stated in DESIGN 7 C11).",
    "DESIGN.md 7 C11")
CLAIMED["C19"] = (
    "Structural induction over derivations: each grammar action of the BD parser that computes a value (binary/unary arithmetic, shifts, "
    "bitwise, size suffixes, comparisons, logical operators, parentheses, address ranges) is a unit located by its production string and "
    "proved to return what the language semantics prescribe for all operand values; unsupported constructs (sizeof, if/else) are proved to "
    "raise; the precedence table is a data obligation against the documented C-like table; SB21Helper._fill_memory is proved to produce one "
    "FILL command with the given address, the whole range length and the pattern as written. Lexing and the LALR automaton are external (sly). Widened: && and || on C-like truth values (any integer operands). Added (round 3): SB21Helper._load for file data with a memory option - device id / group of the statement in the LOAD command's flags. Added (round 5, bounded): generated 1-4-section programs through parse_sb21_config and load_from_config (boot section k holds exactly the statements of BD section k); several string definitions on one line resolve to their own strings (exposed the greedy string-literal defect, repaired).",
    "Trusted: A-sly (sly builds the parser the grammar strings and precedence denote and calls exactly the action of each production), A-enc, "
    "A-smt. Symbol tables, sources, key blobs and the remaining statement actions are covered by the bounded seeded-program sweep only.",
    "DESIGN.md 7 C19")
CLAIMED["C17"] = (
    "Ghost contract on the random generator (each draw happens at a new tick) and, on every constructor that may invent a secret "
    "(SBV2xAdvancedParams, OTFAD KeyBlob, BEE KIB, the MBI counter-IV accessor, random_bytes itself), the postcondition 'if the caller gave "
    "none, the field holds a value drawn during this call' — discharged from the real constructor bodies; data obligations state that the "
    "BootImageV20/V21 default for advanced_params and the MBI class-level member are not definition-time objects. IEE/BEE region/HAB "
    "constructors and the config-file paths are covered only by the bounded two-artifact comparison and the definition-time randomness scan. Added: IeeKeyBlob.__init__ (keys given or drawn inside the call, sizes per mode), Mbi_MixinCtrInitVector.mix_load_from_config (no IV in the configuration = a new one, whatever the object held). Added (round 3): CsfHabSegment.get_dek_from_config - the DEK is drawn inside the call unless the configuration requests reuse, whatever key file an earlier build left (configuration and file-system front end assumed). Added (round 5): calls into the seedable generator of the `random` module are modelled as NOT being a draw of the OS generator, so random_bytes built on it fails `drawn-now`.",
    "Trusted: A-rng (the OS generator is fresh per call and per process; nothing is claimed across interpreter restarts beyond that), A-enc, A-smt.",
    "DESIGN.md 7 C17")
CLAIMED["C18"] = (
    "For the two cache loaders (DatabaseManager._get_quick_info_db, Database.DatabaseData.__init__) it is proved, against an adversarial "
    "environment (pickle.load raises any of its documented/observed exceptions or returns any object; open/os.remove/os.makedirs may fail; "
    "os.path.exists answers anything; FileLock may time out): no exception escapes (so every file content, hence every truncated prefix, is "
    "tolerated), cached content is used only when it has the expected class and its stored hash equals the hash of the live data, and a cache "
    "file is opened only while its lock is held (ghost permission). Real process interleavings, lock time-outs as liveness and start-up "
    "latency are outside this family; byte-exact prefixes of the real cache files are a bounded check. Added (round 5): the fingerprint function itself (hash_db_data, real body) over a ghost file system: name, modification time and size of EVERY cached file and of the defaults file(s) enter the digest (1-3 cached files; stat value classes pinned to one bit length) - this exposed and now guards the repaired defect that edited database defaults were answered from a stale cache. The writer make_cache is under contract as well: no exception escapes, the cache file is opened only under its lock, the recorded hash is live, empty or unchanged.",
    "Trusted: the assumed environment models in vf/extmodels.py (A-pickle, A-fs), assumed contracts for the hash of the live data and the "
    "full load (the uncached oracle), A-enc, A-smt.",
    "DESIGN.md 7 C18")
CLAIMED["C04"] = (
    "Command and header level of 'the ROM decodes what was given': CmdHeader.crc/export/parse against the ROM's struct reading and checksum, "
    "CmdJump construction/export/parse (stack pointer present iff given, also for SP = 0), CmdLoad.export (zero padding to 16, count, CRC-32/MPEG-2 "
    "over the padded data), ImageHeaderV2.export field by field (versions incl. component != product, flags, block counts, build number) are "
    "discharged for all field values. Section level (AES-CTR block counters, HMAC table) and whole-image level are bounded checks only; "
    "the key-blob / signature / KEK clauses rest on C09 and the primitives. Added: BootSectionV2.export against the ROM model (header announces HMAC and block counts, every command block encrypted with the counter of its own file position, HMAC entries cover all command blocks, counter continues at the next position) with abstract commands. Added later: lemmas ERASE / MEM_ENABLE reach the ROM with range and memory and parse back. Added (round 5): CALL, PROG (eight-byte flag, memory byte), FILL (pattern word replicated from 1/2/3/4-byte patterns, every bit length by forking), FW_VERSION_CHECK, key-store backup/restore, NOP, RESET commands reach the ROM model with the operands given and parse back; CmdLoad.parse (checksum, tag and data CRC checked, payload is the bytes behind the header).",
    "Trusted: A-enc, A-smt, A-struct (struct pack/unpack as positional notation), CRC as an uninterpreted function (C09). BootSectionV2.export/"
    "parse, BootImageV2x.export/parse and the remaining command classes are NOT under contract (bounded round trips only); known finding C04-KF1: "
    "BootImageV21.parse reads only the first boot section.",
    "DESIGN.md 7 C04")
CLAIMED["C05"] = (
    "SecureBinary31Header.export (every header field as the loader's struct reads it), SecureBinary31Header.update (total length of block 0 "
    "recomputed from scratch: independent of the export history), get_cmd_blocks_to_export (ceil(len/256) blocks of exactly 256 bytes that "
    "concatenate to section header || commands followed by zero padding only — stream ends at every offset mod 256), _process_block and "
    "process_cmd_blocks_to_export (block numbers, block i carries the hash of block i+1, the last block carries zeros also on a second export, "
    "final hash = hash of block 1, payloads in order) are discharged for 1..3 data blocks with symbolic contents; the KDF is proved in C09. Added: the loader's view of commands - BaseCmd header (tag, address, length, code), ERASE, COPY, FILL_MEMORY words, LOAD (memory block, data as given, zero padding to 16) and LOAD_KEY_BLOB layouts. Added (round 5): EXECUTE, CALL, RESET, CONFIGURE_MEMORY, FW_VERSION_CHECK operand words; ERASE/COPY/FILL_MEMORY and LOAD/LOAD_CMAC/LOAD_HASH_LOCKING (64 zero bytes for the hash) parse-inverts-export; section header.",
    "Trusted: hash / AES-CBC as uninterpreted functions (A-crypto-fun), A-enc, A-smt, A-struct. Commands are abstract (their own export "
    "formats are not under contract here), block counts > 3, the certificate block (C03) and SecureBinary31.export as a whole are covered by the "
    "bounded independent-loader walk over the repository's example configurations only.",
    "DESIGN.md 7 C05")
CLAIMED["C01"] = (
    "Header level of the MBI round trip: Mbi_MixinIvt.create_flags equals the format's flag word for every presence pattern of the mixin "
    "attributes and all values (type, sub-type, TrustZone type, HW-key, key store present iff non-empty, relocation flag, image version); "
    "each get_* reader returns its field, and a lemma shows the fields are disjoint so readers invert create_flags; update_ivt writes exactly "
    "the four words (total length, flags, CRC/cert offset — 0 for plain images —, load address) and frames every other byte; clean_ivt zeroes "
    "exactly those words; Mbi_ExportMixinAppTrustZoneCertBlock.disassemble_image restores the application bytes before the certificate offset. "
    "Whole-image export/parse per composition is a bounded check over the key-less compositions of the live database (known finding C01-KF1). Added: certificate-block-v1 signed images (RSA-2048 repository test keys, with and without relocation table) are decoded by hand in a bounded sweep - IVT total length / certificate offset words against independently computed positions, relocation entries, independent RSA signature verification. Added (round 3): MultipleImageTable.export - images padded to 4 then 16-byte entries then header; header marker/version/count/pointer; every entry's source range holds exactly its image and starts where the previous padded image ends - for 1..3 entries, image lengths of every residue mod 4, arbitrary contents and addresses. Added (round 5): IVT word readers/writers used by the parser (update_crc_val_cert_offset frames everything but word 0x28; check_total_length rejects exactly images shorter than the IVT or than their own total-length word; get_flags / get_cert_block_offset).",
    "Trusted: A-enc, A-smt, A-struct. Not under contract: the other export mixins' collect_data/disassemble_image, relocation tables (design-time "
    "finding #16, not checked here), TrustZone/key-store contents, certificate blocks (C03), config/CLI front ends.",
    "DESIGN.md 7 C01")
CLAIMED["C02"] = (
    "Two ROM-side facts are discharged from the real bodies for all keys and data: Mbi_MixinHmac.compute_hmac is HMAC-SHA256 under "
    "AES-ECB(user key, 0^16) (or empty without key), and Mbi_ExportMixinAppTrustZoneCertBlockEncrypt.encrypt applies AES-CTR with the stored IV "
    "under the key the ROM derives — AES-ECB(user key, 01 0^15 02 0^15) unless a KEYSTORE key store supplies the key — in both directions; the "
    "key derivations and CRC parameters themselves are proved in C09. The CRC word is checked by a bounded independent CRC over every key-less "
    "CRC composition of the live database. Signature coverage, certificate chains, manifests and HMAC splicing are NOT decided here. Added (round 3): RootKeyRecord._calculate_flags (cert block v2.1) = CA bit, index of the root that signs, number of roots, curve - for 1..4 roots and every index.",
    "Trusted: primitives as uninterpreted functions (A-crypto-fun); 'tampering is detected' rests on them (A-crypto-sec, not claimed); A-enc, A-smt. "
    "Mbi_ExportMixinRsaSign/EccSign.sign, finalize (HMAC/key-store splice), post_encrypt, manifest mixins and CertBlockV1 are not under contract.",
    "DESIGN.md 7 C02")
CLAIMED["C03"] = (
    "RKHT._calc_key_hash equals the documented construction over the raw key material for RSA-2048/3072 (minimal-length modulus and exponent "
    "65537) and P-256/P-384 (fixed coordinate width, so leading-zero coordinates keep their bytes) for all key numbers; RKHTv1.export/rkth (four "
    "slots in key order, missing slots zero, SHA-256 of the table) for 1..4 keys and RKHTv21.rkth (single hash, or hash of the concatenation) "
    "are discharged. Since each path's result is proved equal to a spec term that mentions only the ordered key numbers, independence from the "
    "signer and agreement between these paths follow. Certificate blocks, PFR ROTKH, DAT RoT meta, AHAB/HAB SRK tables are not under contract "
    "here (bounded / other properties); key parsing from PEM/DER/certificates is external (A-pki; bounded agreement check). Added: RootKeyRecord.parse (cert block v2.1) - root public key behind the table, one hash per root key, table entries in order, a single P-256 / P-384 root key hashed with SHA-256 / SHA-384 - for 1..4 keys and both curves. Added (round 3, bounded): HAB SRK tables built from fresh P-256/384/521 and RSA-2048 CA certificates, decoded by hand (key-size field, widths, fuse value). Added (round 5): RKHTv1.set_rkh (slot takes the hash, other slots kept, gaps zero, in whatever order slots are set).",
    "Trusted: hashes as uninterpreted functions, A-pki (cryptography's key parsing), A-enc, A-smt, A-struct.",
    "DESIGN.md 7 C03")
CLAIMED["C10"] = (
    "mboot serial framing: _create_frame / _calc_frame_crc produce 5A type len16 crc16 payload with CRC-16/XMODEM over 5A type len payload, and "
    "MbootSerialProtocol.read — against a ghost device whose device-to-host stream is universally quantified (any bytes, any length, so every "
    "corrupted byte, truncation or missing response is inside the quantifier) — returns a payload only for a frame of the declared length whose "
    "CRC matches, for DATA and CMD frames alike, raises only the documented exceptions otherwise, and always acknowledges the frame. "
    "USB-HID framing, McuBoot operations (data phases, status mirroring), SDP/SDPS and 'within bounded time' are NOT decided here. Added: McuBoot.read_memory (USB-HID chunked path for packet sizes 32/56/1016 and the single-command path, any address, lengths 0..64 KiB, loop by inductive invariant): success status implies exactly the requested device bytes, whatever is returned is a prefix of the device bytes - against an ASSUMED device model (ghost memory; _process_cmd / _read_data behave as the reference bootloader). Added (round 3): USB-HID report framing - _create_frame = id, pad, 16-bit LE length, payload; _parse_frame hands out exactly the announced payload for every 16-bit length, zero length = abort. Added later: CmdPacket.to_bytes (tag, flags, count, parameters LE32 in order, zero padding), GenericResponse / GetPropertyResponse constructors (status, command tag, property values as sent). Added (round 5): ReadMemory / FlashReadResource / KeyProvisioning / FlashReadOnce / TrustProvisioning responses: status, length, value words and data are the words the device sent, in order.",
    "Trusted: CRC as an uninterpreted function (C09), assumed contracts for the wall-clock wait loop and for response decoding, frame layout "
    "verified for payload lengths 0/1/4/32 and assumed for the others at call sites, A-enc, A-smt, A-struct. Known design-time findings #28/#29 "
    "(partial data with SUCCESS status; struct.error from response constructors) are not covered by a check. Assumed contracts (device model): McuBoot._process_cmd, McuBoot._read_data - a data phase that ends with SUCCESS but delivered fewer bytes than announced is outside this model: the bounded fault-injection sweep (bounded/C10.py) shows it is mishandled - known finding C10-KF1.",
    "DESIGN.md 7 C10")
CLAIMED["C13"] = (
    "Deductively: the OTFAD counter nonce KeyBlob._get_ctr_nonce = CTR_W0 || CTR_W1 || (W0 xor W1) || 0^4 (address word left to the counter), and "
    "the BEE protected window BeeProtectRegionBlock.update = [lowest FAC start, highest FAC end) for 0..3 regions in any order, plus "
    "is_inside_region. The statement's main clause (the hardware decrypts what SPSDK encrypts, locality, key-blob unwrap) is only a bounded "
    "check here: per-16-byte-block hardware models for OTFAD and BEE over seeded blobs / regions / bases (known finding C13-KF1 for bases that "
    "are not 1 KiB aligned). IEE is not covered. Added: IeeKeyBlob.encrypt_image_ctr - every 16 bytes are AES-CTR'ed with the counter of their own absolute address (nonce word + address>>4 with 32-bit wrap, never carrying into the nonce), for 1..3 blocks, 128/256-bit keys, all keys/nonces/addresses; AES_CTR carries the counter-mode definition law (multi-block = per-block with the 128-bit counter advanced). Added (round 5): OTFAD KeyBlob.encrypt_image: every 16 bytes are encrypted with the counter block of their own system address when no counter is named (data anywhere inside the blob; 1-2 blocks) - this exposed and now guards the repaired defect that the counter started at the blob start; bounded single-blob sweep against the hardware model. BEE FAC region record (start, END, level, reserved zeros; parse inverts export) and protect-region-block export layout (tags, version, FAC count, window, mode, lock options, counter byte-reversed, FAC records, zero fill).",
    "Trusted: AES as external (A-crypto-fun); encrypt_image loops (OTFAD/IEE/BEE), key-blob export/unwrap and KEK scrambling are NOT under contract; A-enc, A-smt.",
    "DESIGN.md 7 C13")
CLAIMED["C15"] = (
    "Response side of debug authentication: for the RSA and ECC response classes, with the credential, the challenge and the signer abstract, "
    "it is proved for all contents that the message handed to the signer is exactly credential || LE32(beacon) || [device UUID taken from the "
    "challenge, ECC versions] || challenge vector, and that the exported response is credential || LE32(beacon) || [device UUID] || signature over "
    "that message — so a response is bound to the credential, beacon, device UUID and challenge (injectivity: all parts have fixed or "
    "credential-determined lengths). 'Never verifies against another challenge' then rests on the signature scheme (not claimed). Added: RotMetaRSA.export / calculate_hash - the RoT table is four 32-byte slots in key order with missing slots zero and its hash is the image tool's RKTH, for 1..4 keys. Added (round 3): lemmas joining the DC side (hash of the raw X || Y export) and the image side (RKHT._calc_key_hash) for P-256 / P-384 keys incl. leading-zero coordinates; both callee contracts are re-verified under this property. Added later: ECC debug credential _get_data_to_sign / export byte layouts (the signature follows exactly the signed bytes; every field in its place), RotMetaFlags export and parse-inverts-export. Added (round 5): EdgeLock-Enclave debug credential: signed bytes and exported bytes field by field (version, SoC class, UUID, SOCU, VU, beacon, RoT meta, debug key). DAC export layout; RSA debug credential (protocol 1.0 / 1.1) signed and exported bytes field by field.",
    "Trusted: the signature provider as an uninterpreted function (A-crypto-fun / A-crypto-sec not claimed), A-enc, A-smt, A-struct. The debug "
    "credential classes (export/parse/_get_data_to_sign, RoT meta; RoT hash equality with C03), challenge parsing, EdgeLock-enclave v2 responses "
    "and the YAML front end are NOT under contract.",
    "DESIGN.md 7 C15")
CLAIMED["C14"] = (
    "BootableImage.get_segment_offset is proved equal to the placement rule of the property — a static segment at its database offset, a "
    "floating segment at the end of its predecessor aligned up to the floating segment's own alignment, minus the initial offset — for "
    "three-segment layouts with every static/floating pattern after a static first segment, all offsets, lengths and alignments (1/4/1024) "
    "symbolic; the data obligations the theorem assumes (first segment static, static offsets strictly increasing, positive alignments) are "
    "checked exhaustively over every (family, memory type) of the live database. Export/parse of the merged image, gap filling, init_offset "
    "selection and content-search parsing are NOT decided here (C16 gives the composition theorem they rest on). Added (bounded): every fixed-size segment class of every layout comes back whole from parse_binary (random payloads; FCB classes with a tagged payload). Added (round 3): BootableImage._update_segments (excluded iff fixed offset in front of the initial offset; floating segments never) and the init_offset setter (never negative, the closest fixed segment offset at or behind the request) for 3-segment layouts with any mix of fixed/floating segments. Added (round 5): BootableImage.__len__ = end of the last present segment under the placement theorem (three present segments, last one fixed or floating).",
    "Trusted: A-enc, A-smt; segments are abstract (offset rule, alignment, length). Layouts longer than three segments follow the same recursion "
    "(not instantiated).",
    "DESIGN.md 7 C14")
CLAIMED["C06"] = (
    "Deductively only the container flags word and the verifier's range records: AHABContainerBase.set_flags places SRK set, used SRK id and "
    "revoke mask in bits [1:0], [5:4], [11:8], the readers return those fields and a lemma shows they invert set_flags; "
    "Verifier.add_record_bit_range records ERROR exactly when the value is missing or outside [0, 2^bits) — with C20's truthful check_range this "
    "is what makes 'a valid image is never reported as erroneous' hold for the SW/fuse version records (repaired defect). Container, image-array, "
    "signature-block and SRK layouts, hashing, signing, offsets and disjointness are NOT under contract: bounded build/parse/verify of the "
    "repository's example configurations only. Added: ImageArrayEntry.get_hash_from_flags returns the algorithm the entry declares for every computable hash tag (SHA-256/384/512, SM3) of container versions 1 and 2, and create_flags packs type / core / hash / encrypted / boot flags into their fields. Added (round 3): SRKRecordBase.parameter_lengths (first = modulus / X length, second = exponent / Y length, two LE16) for every key-size code, _crypto_params_length. Added later: signature block update_fields (offsets of SRK assets / signature / certificate / blob 8-byte aligned, in order, never colliding; block length covers every part) with abstract parts; AHABContainer.header_length; image array entry meta data word and flag readers. Added (round 5): the 128-byte image array entry record (offset, size, load address, entry point, flags, meta data, hash left-aligned and zero-padded to 64, IV), signature container and DEK blob heads (length fields cover head + payload), SRK record layout for every key-size code, SRK table export (head, four records in key order) and the fuse value = digest of exactly the exported table.",
    "Trusted: A-enc, A-smt. Everything outside the two units above is unverified here; 'corruption is reported' rests on the primitives (not claimed).",
    "DESIGN.md 7 C06")
CLAIMED["C12"] = (
    "Split into a generic theorem and data obligations. Generic (deductive, all values): a bit-field read after a write returns the value, "
    "also through the SHIFT_RIGHT config processor of address fields (binary -> config -> binary keeps all 32 address bits), neighbours are "
    "untouched (C11 units, re-verified in this check's closure), and a register's byte image has its width in the area's endianness. Data "
    "(bounded, complete over the live database): every register file satisfies the theorem's precondition (fields inside the register, reset "
    "and enum values fit). Area level (bounded, every family): PFR CMPA/CFPA fixed size, parse/export identity, binary-config-binary with "
    "seeded values (known finding C12-KF1). Templates / YAML schemas / IFR, BCA, FCF, FCB, XMCD, TrustZone, fuses, memcfg are not covered. Added: PFR computed inverse fields (high half / lower 8 bits: stale bits cleared); bounded: XMCD header size field against the exported block over the configuration types of the live database.",
    "Trusted: A-enc, A-smt, A-struct; _RegistersBase.export/parse, BaseConfigArea and the computed-field methods are NOT under contract.",
    "DESIGN.md 7 C12")
CLAIMED["C08"] = (
    "SPSDK's own arithmetic in signature serialisation: ECDSASignature.export(NXP) is proved to be the fixed-width big-endian r || s of the curve's "
    "coordinate size for P-256/384/521 and all r, s (leading zero bytes kept), and the lemma parse(export(r, s, curve)) == (r, s, curve) is "
    "discharged for all r, s below 2^(8*size) over the real bodies of __init__/parse/get_encoding/get_ecc_curve (inlined). Everything else in the "
    "property - PEM/DER key round trips, sign/verify soundness, agreement with an independent implementation, rejection of modified "
    "messages/signatures, DER signature encoding - is a statement about `cryptography`/OpenSSL and hardness assumptions that no contract here "
    "decides: it is exercised by bounded sweeps only (fresh keys of every type incl. leading-zero coordinates, every encoding x password, "
    "parameter matrix with independent verification), labelled bounded. Added: raw public keys - PublicKeyEcc.export(NXP) = fixed-width X || Y and PublicKeyEcc.recreate_from_data (curve picked from the length, halves are the coordinates, explicit curve must match) for P-256/384/521; PublicKeyRsa.export(NXP) = modulus || exponent at minimal widths and recreate_public_numbers (modulus = first key-size bytes, other lengths rejected) for RSA-2048/3072/4096; round-trip lemmas for all coordinates / moduli. Known finding C08-KF1 (DER signature length sniffing).",
    "Trusted: A-enc, A-smt, A-struct (to_bytes/from_bytes as positional notation; slice of a concatenation at a piece boundary is that piece). "
    "Assumed: PublicKeyEcc.recreate (cryptography builds the key object from the point), rsa.RSAPublicNumbers as a plain record. Not under contract: PEM/DER paths of all key classes, serialize_signature, verify_signature, "
    "SignatureProvider; A-crypto-fun, A-crypto-sec, A-pki.",
    "DESIGN.md 7 C08")
CLAIMED["C07"] = (
    "Only the arithmetic core of the HAB layout is proved, for all start addresses, IVT offsets, initial load sizes, application lengths and "
    "flags: the IVT built by IvtHabSegment.load_from_config has self = start + IVT offset, boot data right behind the IVT, DCD pointer iff a DCD "
    "is configured, entry point as configured, and CSF pointer = self + align_offset(initial load + application length) - IVT offset for "
    "authenticated/encrypted images (0 otherwise) - the same expression the CSF/BDT segments use for the real placement; "
    "AppHabSegment.load_from_config places the application at the initial load size, keeps its bytes, zero-pads to 16 only when authenticated; "
    "lemma: the CSF position is page aligned in the container, at or behind the padded application and the next such boundary. "
    "Everything else of the property - CSF commands and offsets, CMS signatures verified independently, SRK table/fuses, AES-CCM "
    "encryption, parse round trip, DCD/XMCD, the BDT length itself - is NOT decided deductively: a bounded sweep builds authenticated and plain "
    "images (RSA-2048 repository test keys) over three layouts x application lengths dense around the 16 B / 4 KiB boundaries and decodes "
    "them by hand incl. an independent CMS digest/signature check, labelled bounded. Added: plain-image boot data, IVT / boot-data binary layouts with parse-inverts-export lemmas, SRK table items (ECC P-256/384/521, RSA) export layouts with parse-inverts-export lemmas; bounded: encrypted example image with every MAC length decrypted independently with AES-CCM. Added later: XMCD header byte layout / parse-inverts-export, SegXMCD.size, CSF Authenticate Data command (append / export: the block list as given, big-endian), MAC structure export / parse; bounded: authenticated image with an XMCD block (signature must cover it). Added (round 5): CSF Install Key command (flags, key format, hash algorithm, source/target index, location as the ROM reads them; parse inverts export) and NOP.",
    "Trusted: A-enc, A-smt; BinaryImage.__len__/export and align_block through their verified contracts (C16/C20). Not under contract: "
    "CsfHabSegment/BdtHabSegment/Dcd/Xmcd.load_from_config, HabContainer.*, image/segments.py, image/commands.py, crypto/cms.py, secret.py "
    "(A-crypto-fun, A-crypto-sec, A-pki). Encrypted images, ECC keys, SRK tables other than the test table: not exercised even bounded.",
    "DESIGN.md 0.4 / 7 C07")
