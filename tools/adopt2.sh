#!/bin/bash
# tools/adopt2.sh <ID> <name> : adopt a round-2 seeded change from /tmp/seed2/<ID>/_out (verify demo + baseline in a fresh scratch worktree),
# store it under seeded/<name>/ and run the property's check against it.
ID=$1; NAME=$2
cd /verif
SEED_ROOT=${SEED_ROOT:-/tmp/seed2} tools/adopt_seed.sh "$ID" "$NAME" 2>&1 | grep -v conda
python3 - "$ID" "$NAME" <<'PY'
import json, sys, os
pid, name = sys.argv[1:3]
d = f"/verif/seeded/{name}"
a = json.load(open(os.path.join(d, "meta.agent.json")))
meta = {"property": pid, "breaks": a.get("summary", ""), "needs_to_manifest": a.get("needs", ""), "origin": "fresh sub-agent (round " + os.environ.get("ROUND", "2") + ") given only the property text, a hint which mechanisms NOT to reuse, and a scratch worktree",
        "confirmed_by_me": "tools/adopt2.sh: fresh scratch worktree of /repo HEAD; demo.py exit codes without/with patch.diff and tools/baseline.sh with the patch (see adopt log)",
        "files": a.get("files", [])}
json.dump(meta, open(os.path.join(d, "meta.json"), "w"), indent=1)
os.remove(os.path.join(d, "meta.agent.json"))
PY
python3 tools/selftest.py -k "seeded/$NAME" --save 2>&1 | grep -v conda
