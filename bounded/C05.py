"""Bounded stand-in for C05: whole SB3.1 containers from the repository's example configurations, walked by an independent loader
model (header, hash chain, block count/size, total length, block keys via an own CMAC-KDF, section header) — for one and for two exports."""
from __future__ import annotations

import glob
import hashlib
import os
from struct import unpack_from
from typing import Any


def _kdf(key: bytes, const: int, rights: int, mode: int, klen: int) -> bytes:
    from cryptography.hazmat.primitives import cmac
    from cryptography.hazmat.primitives.ciphers import algorithms

    out = b""
    for it in range(1, 1 + klen // 128):
        data = (const.to_bytes(12, "little") + bytes(8) + bytes([rights << 6]) + bytes([mode]) + b"\x00" + bytes([0x20 if klen == 128 else 0x21])
                + klen.to_bytes(4, "big") + it.to_bytes(4, "big"))
        c = cmac.CMAC(algorithms.AES(key))
        c.update(data)
        out += c.finalize()
    return out


def walk(data: bytes, pck: Any, rights: int) -> str:
    """Returns '' if the independent loader accepts the file, else the reason."""
    from cryptography.hazmat.primitives.ciphers import Cipher, algorithms, modes

    (magic, minor, major, flags, block_count, block_size, timestamp, fw, total_len, img_type, cert_off, desc) = unpack_from("<4s2H3LQ4L16s", data)
    if magic != b"sbv3" or (major, minor) != (3, 1):
        return "magic/version"
    h = block_size - 4 - 256
    if h not in (32, 48) or cert_off != 60 + h:
        return f"block size {block_size} / cert offset {cert_off}"
    hf = hashlib.sha256 if h == 32 else hashlib.sha384
    body = data[total_len:]
    if len(body) != block_count * block_size:
        return f"{len(body)} bytes of data blocks, header promises {block_count} x {block_size}"
    expect = data[60:60 + h]
    plain = b""
    klen = 128 if h == 32 else 256
    kdk = _kdf(pck, timestamp, rights, 1, klen) if pck else None
    for i in range(1, block_count + 1):
        blk = body[(i - 1) * block_size: i * block_size]
        if hf(blk).digest() != expect:
            return f"hash of block {i} does not match the value carried by its predecessor"
        if unpack_from("<L", blk)[0] != i:
            return f"block number {i}"
        expect = blk[4:4 + h]
        payload = blk[4 + h:]
        if kdk:
            bk = _kdf(kdk, i, rights, 0x10, klen)
            d = Cipher(algorithms.AES(bk), modes.CBC(bytes(16))).decryptor()
            payload = d.update(payload) + d.finalize()
        plain += payload
    if expect != bytes(h):
        return "last block does not carry the all-zero hash"
    uid, typ, length, pad = unpack_from("<4L", plain)
    if typ != 1 or 16 + length > len(plain) or any(plain[16 + length:]) or (16 + length + 255) // 256 != block_count:
        return f"section header length {length} vs {len(plain)} bytes in {block_count} blocks"
    return ""


def run(tier: str, seed: int, reg: Any, jobs: int = 16) -> list:
    from spsdk.sbfile.sb31.images import SecureBinary31
    from spsdk.utils.misc import load_configuration, load_hex_string

    repo = os.environ.get("VF_REPO", "/repo")
    base = os.path.join(repo, "tests", "nxpimage", "data")
    cfgs = sorted(glob.glob(os.path.join(base, "workspace", "cfgs", "*", "sb3_*.yaml")))
    fails = []
    n = 0
    for cfgp in cfgs[: (8 if tier == "quick" else 200)]:
        try:
            cfg = load_configuration(cfgp)
            sp = [base, os.path.dirname(cfgp)]
            sb = SecureBinary31.load_from_config(cfg, search_paths=sp)
            sb.export()
        except Exception:  # pylint: disable=broad-except
            continue  # configuration not buildable in this checkout (missing keys/files): not a case
        try:
            pck = load_hex_string(cfg["containerKeyBlobEncryptionKey"], 32, sp) if cfg.get("isEncrypted", True) and cfg.get("containerKeyBlobEncryptionKey") else None
            if pck is not None and sb.sb_commands.key_derivator is not None:
                pck = sb.sb_commands.key_derivator.pck
            rights = cfg.get("kdkAccessRights", 0)
            for which in ("first", "second"):
                n += 1
                why = walk(sb.export(), pck if sb.sb_commands.is_encrypted else None, rights)
                if why and len(fails) < 4:
                    fails.append({"inputs": {"config": os.path.relpath(cfgp, repo), "export": which}, "detail": f"independent loader rejects the {which} export: {why}",
                                  "obligation": "independent-loader-accepts"})
        except Exception as e:  # pylint: disable=broad-except
            if len(fails) < 4 and not isinstance(e, FileNotFoundError):
                fails.append({"inputs": {"config": os.path.relpath(cfgp, repo)}, "detail": f"{type(e).__name__}: {e}", "obligation": "independent-loader-accepts"})
    return [{"name": "SB3.1 containers walked by an independent loader model", "function": "spsdk.sbfile.sb31.images:SecureBinary31.export",
             "method": "example configurations of the repository, each exported twice", "bound": f"{n} exports", "cases": n, "label": "bounded", "failures": fails}]
