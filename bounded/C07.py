"""Bounded stand-in for C07 (never counted as proved): authenticated HAB images are built with HabContainer.load_from_config over a
sweep of layouts and application lengths (dense around the 16-byte / 4 KiB boundaries), exported, and decoded *by hand*:
IVT, boot data, real CSF position (found by scanning, not through the IVT), the Authenticate-Data block list, and the CMS signature
(asn1crypto + cryptography, not through SPSDK): message digest = SHA-256 of exactly the listed blocks, signature valid under the IMG
certificate.  Keys and certificates are the repository's own test data (tests/nxpimage/data/hab/export)."""
from __future__ import annotations

import hashlib
import os
import struct
import tempfile
from typing import Any

CSF_SIZE = 0x2000


def _build(repo: str, app_path: str, start: int, ivt_offset: int, initial_load: int, flags: int, xmcd_path: Any = None) -> Any:
    from spsdk.image.hab.hab_container import HabContainer

    data = os.path.join(repo, "tests", "nxpimage", "data", "hab", "export")

    def section(section_id: int, **options: object) -> dict:
        return {"section_id": section_id, "options": [{k: v} for k, v in options.items()], "commands": []}

    cfg: dict = {"options": {"flags": flags, "startAddress": start, "ivtOffset": ivt_offset, "initialLoadSize": initial_load,
                             "signatureTimestamp": "04/05/2023 11:27:43"},
                 "sources": {"elfFile": app_path}, "sections": []}
    if xmcd_path:
        cfg["options"]["XMCDFilePath"] = xmcd_path
    if flags & 0x8:
        cfg["sections"] = [
            section(20, Header_Version="4.2", Header_HashAlgorithm="sha256", Header_Engine="ANY", Header_EngineConfiguration=0,
                    Header_CertificateFormat="x509", Header_SignatureFormat="CMS"),
            section(21, InstallSRK_Table=os.path.join(data, "rt1170_RAM_authenticated", "gen_hab_certs", "SRK_hash.bin"), InstallSRK_SourceIndex=0),
            section(22, InstallCSFK_File=os.path.join(data, "crts", "CSF5_1_sha256_2048_65537_v3_usr_crt.pem"), InstallCSFK_CertificateFormat="x509"),
            section(24, AuthenticateCsf_PrivateKeyFile=os.path.join(data, "keys", "CSF5_1_sha256_2048_65537_v3_usr_key.pem")),
            section(25, InstallKey_File=os.path.join(data, "crts", "IMG5_1_sha256_2048_65537_v3_usr_crt.pem"), InstallKey_VerificationIndex=0,
                    InstallKey_TargetIndex=2),
            section(26, AuthenticateData_VerificationIndex=2, AuthenticateData_Engine="ANY", AuthenticateData_EngineConfiguration=0,
                    AuthenticateData_PrivateKeyFile=os.path.join(data, "keys", "IMG5_1_sha256_2048_65537_v3_usr_key.pem")),
        ]
    return HabContainer.load_from_config(cfg)


def _cms_ok(repo: str, sig_blob: bytes, signed: bytes) -> str:
    """Independent CMS check: digest attribute = SHA-256(signed), RSA signature over the signed attributes valid under the IMG cert."""
    from asn1crypto import cms
    from cryptography import x509
    from cryptography.hazmat.primitives import hashes
    from cryptography.hazmat.primitives.asymmetric import padding

    tag, ln = sig_blob[0], struct.unpack_from(">H", sig_blob, 1)[0]
    if tag != 0xD8:
        return f"signature structure has tag {tag:#x}"
    ci = cms.ContentInfo.load(sig_blob[4:ln])
    si = ci["content"]["signer_infos"][0]
    md = [a["values"][0].native for a in si["signed_attrs"] if a["type"].native == "message_digest"][0]
    if md != hashlib.sha256(signed).digest():
        return "CMS messageDigest is not the SHA-256 of exactly the listed blocks"
    crt = os.path.join(repo, "tests", "nxpimage", "data", "hab", "export", "crts", "IMG5_1_sha256_2048_65537_v3_usr_crt.pem")
    pub = x509.load_pem_x509_certificate(open(crt, "rb").read()).public_key()
    try:
        pub.verify(si["signature"].native, b"\x31" + si["signed_attrs"].dump()[1:], padding.PKCS1v15(), hashes.SHA256())
    except Exception as e:  # pylint: disable=broad-except
        return f"CMS signature does not verify under the IMG certificate ({type(e).__name__})"
    return ""


def _check(repo: str, tmp: str, app_len: int, start: int, ivt_offset: int, ils: int, flags: int, xmcd: bytes = b"") -> str:
    from spsdk.image.hab.hab_container import HabContainer

    app = bytearray((i * 7 + 3) & 0xFF or 0x5A for i in range(app_len))
    struct.pack_into("<II", app, 0, 0x20020000, start + ils + 0x101)
    app[-1] = 0xA5
    app = bytes(app)
    path = os.path.join(tmp, "app.bin")
    with open(path, "wb") as f:
        f.write(app)
    xmcd_path = None
    if xmcd:
        xmcd_path = os.path.join(tmp, "xmcd.bin")
        with open(xmcd_path, "wb") as f:
            f.write(xmcd)
    blob = _build(repo, path, start, ivt_offset, ils, flags, xmcd_path).export()
    if xmcd and blob[0x40: 0x40 + len(xmcd)] != xmcd:
        return "XMCD block is not at IVT + 0x40"
    tag, length, version = struct.unpack_from(">BHB", blob, 0)
    entry, _r1, dcd, bdt, self_ptr, csf_ptr, _r2 = struct.unpack_from("<7L", blob, 4)
    if (tag, length, version & 0xF0) != (0xD1, 0x20, 0x40):
        return "IVT header"
    if self_ptr != start + ivt_offset or bdt != self_ptr + 0x20 or dcd != 0 or entry != start + ils + 0x101:
        return "IVT self/boot-data/DCD/entry pointers"
    bd_start, bd_length, bd_plugin = struct.unpack_from("<3L", blob, bdt - self_ptr)
    if (bd_start, bd_plugin) != (start, 0):
        return "boot data start/plugin"
    app_off = ils - ivt_offset
    if blob[app_off: app_off + app_len] != app:
        return "application bytes are not at initial load size"
    if not flags & 0x8:
        if csf_ptr != 0 or bd_length != ivt_offset + len(blob) or len(blob) != app_off + app_len:
            return f"plain image: csf pointer {csf_ptr:#x}, boot-data length {bd_length:#x}, real size {ivt_offset + len(blob):#x}"
        parsed = HabContainer.parse(blob)
        return "" if parsed.export() == blob and parsed.app_segment.binary == app else "plain image does not parse back"
    pos = app_off + app_len
    while pos < len(blob) and blob[pos] == 0:
        pos += 1
    real_csf = pos
    if real_csf >= len(blob) or blob[real_csf] != 0xD4 or real_csf != len(blob) - CSF_SIZE:
        return f"CSF not found as the last segment (scan stopped at {real_csf:#x} of {len(blob):#x})"
    if csf_ptr - self_ptr != real_csf:
        return f"IVT.csf points to IVT+{csf_ptr - self_ptr:#x} but the CSF really is at IVT+{real_csf:#x}"
    if bd_length != ivt_offset + real_csf + CSF_SIZE:
        return f"boot-data length {bd_length:#x} != real end {ivt_offset + real_csf + CSF_SIZE:#x}"
    if (ivt_offset + real_csf) % 0x1000 or real_csf < app_off + (app_len + 15) // 16 * 16:
        return "CSF overlaps the padded application or is not page aligned"
    csf = blob[real_csf:]
    csf_len = struct.unpack_from(">H", csf, 1)[0]
    pos, seen = 4, 0
    blocks, sig_off = [], None
    while pos < csf_len:
        cmd_tag, cmd_len = csf[pos], struct.unpack_from(">H", csf, pos + 1)[0]
        if cmd_len < 4:
            return "CSF command length"
        if cmd_tag == 0xCA:
            seen += 1
            if seen == 2:
                sig_off = struct.unpack_from(">L", csf, pos + 8)[0]
                blocks = [struct.unpack_from(">2L", csf, i) for i in range(pos + 12, pos + cmd_len, 8)]
        pos += cmd_len
    if sig_off is None or not blocks:
        return "no Authenticate Data command with blocks"
    covered = set()
    signed = b""
    for a, n in blocks:
        if a < self_ptr or a - self_ptr + n > real_csf:
            return f"block ({a:#x},{n:#x}) lies outside IVT..CSF"
        covered.update(range(a, a + n))
        signed += blob[a - self_ptr: a - self_ptr + n]
    need = set(range(self_ptr, self_ptr + 0x40)) | set(range(start + ils, start + ils + app_len))
    if not need <= covered:
        return "Authenticate-Data blocks do not cover IVT, boot data and the whole application"
    if xmcd and not set(range(self_ptr + 0x40, self_ptr + 0x40 + len(xmcd))) <= covered:
        return f"Authenticate-Data blocks do not cover the {len(xmcd)}-byte XMCD block at IVT + 0x40 (blocks: {[(hex(a), n) for a, n in blocks]})"
    err = _cms_ok(repo, csf[sig_off:], signed)
    if err:
        return err
    parsed = HabContainer.parse(blob)
    if parsed.csf_segment is None or parsed.csf_segment.offset != real_csf or parsed.app_segment.binary[:app_len] != app or parsed.export() != blob:
        return "authenticated image does not parse back to the same container"
    return ""


def _encrypted(repo: str, tier: str) -> dict:
    """Encrypted HAB images (repository example rt1160_RAM_encrypted, every MAC length): the blocks listed in the Decrypt Data command,
    decrypted with AES-CCM by `cryptography` with the DEK, nonce and MAC found in the CSF, restore the 16-byte padded application."""
    from cryptography.exceptions import InvalidTag
    from cryptography.hazmat.primitives.ciphers.aead import AESCCM

    from spsdk.image.hab.hab_container import HabContainer
    from spsdk.utils.images import BinaryImage

    cfg_dir = os.path.join(repo, "tests", "nxpimage", "data", "hab", "export", "rt1160_RAM_encrypted")
    app_file = os.path.join(cfg_dir, "validationboard_imxrt1160_iled_blinky_cm7_int_RAM.s19")
    dek = open(os.path.join(cfg_dir, "gen_hab_encrypt", "validationboard_imxrt1160_iled_blinky_cm7_int_RAM_hab_dek.bin"), "rb").read()
    fails: list = []
    n = 0
    for mac_bytes in ((4, 8, 12, 16) if tier == "quick" else (4, 6, 8, 10, 12, 14, 16)):
        n += 1
        try:
            cfg = HabContainer.load_configuration(os.path.join(cfg_dir, "config_pk.bd"), external_files=[app_file])
            for section in cfg["sections"]:
                if section["section_id"] == 28:
                    for opt in section["options"]:
                        for key in list(opt):
                            if key.lower() == "decrypt_macbytes":
                                opt[key] = mac_bytes
            image = HabContainer.load_from_config(cfg, search_paths=[cfg_dir]).export()
            plain_app = BinaryImage.load_binary_image(app_file).export()
            plain_app += bytes(-len(plain_app) % 16)
            _e, _r1, _dcd, _bdt, ivt_self, csf_addr, _r2 = struct.unpack_from("<7L", image, 4)
            csf_off = csf_addr - ivt_self
            tag, csf_len, _v = struct.unpack_from(">BHB", image, csf_off)
            pos, dec = csf_off + 4, None
            while tag == 0xD4 and pos < csf_off + csf_len:
                ctag, clen, _p = struct.unpack_from(">BHB", image, pos)
                if clen < 4:
                    break
                if ctag == 0xCA and image[pos + 5] == 0xA3:      # AUT_DAT with AEAD signature format = Decrypt Data
                    dec = (struct.unpack_from(">L", image, pos + 8)[0], [struct.unpack_from(">2L", image, q) for q in range(pos + 12, pos + clen, 8)])
                pos += clen
            err = ""
            if dec is None:
                err = "no Decrypt Data command found through the IVT's CSF pointer"
            else:
                mac_off = csf_off + dec[0]
                mtag, mlen, _v = struct.unpack_from(">BHB", image, mac_off)
                _a, nonce_len, _b, mac_len = struct.unpack_from(">4B", image, mac_off + 4)
                nonce = image[mac_off + 8: mac_off + 8 + nonce_len]
                mac = image[mac_off + 8 + nonce_len: mac_off + 8 + nonce_len + mac_len]
                cipher = b"".join(image[a - ivt_self: a - ivt_self + sz] for a, sz in dec[1])
                if mtag != 0xAC or mlen != 8 + nonce_len + mac_len or mac_len != mac_bytes:
                    err = f"MAC structure: tag {mtag:#x}, length {mlen}, nonce {nonce_len}, mac {mac_len} (requested {mac_bytes})"
                else:
                    try:
                        if AESCCM(dek, tag_length=mac_len).decrypt(nonce, cipher + mac, None) != plain_app:
                            err = "decrypted blocks differ from the padded application"
                    except InvalidTag:
                        err = "AES-CCM authentication of the listed blocks with the DEK, nonce and MAC from the CSF fails"
            if err:
                fails.append({"inputs": {"example": "rt1160_RAM_encrypted", "Decrypt_MacBytes": mac_bytes}, "detail": err, "obligation": "encrypted-hab-image-decrypts-independently"})
        except Exception as e:  # pylint: disable=broad-except
            fails.append({"inputs": {"example": "rt1160_RAM_encrypted", "Decrypt_MacBytes": mac_bytes}, "detail": f"{type(e).__name__}: {e}",
                          "obligation": "encrypted-hab-image-decrypts-independently"})
    return {"name": "encrypted HAB images decrypted independently", "function": "spsdk.image.hab.segments:CsfHabSegment.encrypt / HabContainer.export",
            "method": "repository example rt1160_RAM_encrypted with every MAC length; CSF decoded by hand; AES-CCM by cryptography", "bound": f"{n} images",
            "cases": n, "label": "bounded", "failures": fails[:4]}


def run(tier: str, seed: int, reg: Any, jobs: int = 16) -> list:
    import random

    repo = os.environ.get("VF_REPO", "/repo")
    rnd = random.Random(seed)
    layouts = [(0x60000000, 0x1000, 0x2000), (0x20200000, 0x0000, 0x2000), (0x80001000, 0x0400, 0x1000)]
    rems = [0xFE0, 0xFEF, 0xFF0, 0xFF1, 0xFF8, 0xFFF, 0x000, 0x001, 0x00F, 0x010]
    if tier == "thorough":
        rems = sorted(set(rems) | set(range(0xFE0, 0x1000)) | set(range(0, 0x21)))
    fails, n = [], 0
    with tempfile.TemporaryDirectory() as tmp:
        for start, ivt_offset, ils in layouts:
            lens = [0x1234, 0x2A5C] + [0x3000 + r for r in rems] + [rnd.randrange(0x200, 0x6000) for _ in range(3 if tier == "quick" else 40)]
            for app_len in lens:
                for flags in (0x08, 0x00) if app_len in (0x1234, 0x3000 + 0xFF8, 0x3000) else (0x08,):
                    n += 1
                    try:
                        err = _check(repo, tmp, app_len, start, ivt_offset, ils, flags)
                    except Exception as e:  # pylint: disable=broad-except
                        err = f"{type(e).__name__}: {e}"
                    if err and len(fails) < 4:
                        fails.append({"inputs": {"app_len": hex(app_len), "start": hex(start), "ivt_offset": hex(ivt_offset), "initial_load": hex(ils),
                                                 "flags": flags}, "detail": err, "obligation": "hab-image-decoded-by-hand"})
    enc = _encrypted(repo, tier)
    # authenticated image that carries an XMCD block: the signature has to cover it as well
    from spsdk.image.segments import SegXMCD, XMCDHeader

    with tempfile.TemporaryDirectory() as tmp2:
        n += 1
        try:
            xm = SegXMCD(XMCDHeader(), bytes(range(1, 9))).export()
            err = _check(repo, tmp2, 0x1234, 0x20200000, 0x0000, 0x2000, 0x08, xmcd=xm)
        except Exception as e:  # pylint: disable=broad-except
            err = f"{type(e).__name__}: {e}"
        if err:
            fails.append({"inputs": {"app_len": "0x1234", "start": "0x20200000", "ivt_offset": "0x0", "initial_load": "0x2000", "flags": 8, "xmcd_bytes": 12},
                          "detail": err, "obligation": "hab-image-decoded-by-hand"})
    return [enc, {"name": "HAB images decoded by hand (layout, block list, independent CMS check, parse back)",
             "function": "spsdk.image.hab.hab_container:HabContainer.load_from_config/export/parse",
             "method": "authenticated (RSA-2048 test keys) and plain images over 3 layouts x application lengths dense around the 16 B / 4 KiB boundaries",
             "bound": f"{n} images", "cases": n, "label": "bounded", "failures": fails}]
