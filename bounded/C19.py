"""Bounded stand-in for C19: seeded BD constant expressions through the real lexer + LALR parser (sly is external: A-sly),
compared with an independent precedence-climbing evaluator that uses the documented C-like table."""
from __future__ import annotations

import random
from typing import Any

PREC = {"|": 1, "^": 2, "&": 3, "<<": 4, ">>": 4, "+": 5, "-": 5, "*": 6, "/": 6, "%": 6}


def _apply(op: str, a: int, b: int) -> int:
    if op == "+":
        return a + b
    if op == "-":
        return a - b
    if op == "*":
        return a * b
    if op == "/":
        if b <= 0:
            raise ZeroDivisionError
        return a // b
    if op == "%":
        if b <= 0:
            raise ZeroDivisionError
        return a % b
    if op == "<<":
        if not 0 <= b < 40:
            raise ValueError
        return a << b
    if op == ">>":
        if not 0 <= b < 40:
            raise ValueError
        return a >> b
    if op == "&":
        return a & b
    if op == "|":
        return a | b
    return a ^ b


def ref_eval(tokens: list) -> int:
    pos = 0

    def atom() -> int:
        nonlocal pos
        t = tokens[pos]
        pos += 1
        if t == "(":
            v = expr(0)
            pos += 1  # ")"
            return v
        return int(t, 0)

    def expr(minp: int) -> int:
        nonlocal pos
        lhs = atom()
        while pos < len(tokens) and tokens[pos] in PREC and PREC[tokens[pos]] >= minp:
            op = tokens[pos]
            pos += 1
            rhs = expr(PREC[op] + 1)  # left associative
            lhs = _apply(op, lhs, rhs)
        return lhs

    return expr(0)


def gen_tokens(rnd: random.Random, depth: int = 0) -> list:
    n = rnd.randrange(1, 5)
    out: list = []
    for i in range(n):
        if i:
            out.append(rnd.choice(list(PREC)))
        if depth < 2 and rnd.random() < 0.25:
            out += ["("] + gen_tokens(rnd, depth + 1) + [")"]
        else:
            v = rnd.choice([0, 1, 2, 3, 4, 7, 8, 16, 31, 255, 256, 1000, 0x1000, 65535])
            out.append(hex(v) if rnd.random() < 0.4 else str(v))
    return out


def run(tier: str, seed: int, reg: Any, jobs: int = 16) -> list:
    from spsdk.exceptions import SPSDKError
    from spsdk.sbfile.sb2.sly_bd_parser import BDParser

    rnd = random.Random(seed)
    fails = []
    n = 0
    total = 400 if tier == "quick" else 20000
    while n < total:
        toks = gen_tokens(rnd)
        try:
            exp = ref_eval(toks)
        except (ZeroDivisionError, ValueError):
            continue
        text = " ".join(toks)
        n += 1
        prog = "options { flags = 0x8; }\nconstants { a = " + text + "; }\nsources { }\nsection (0) { }\n"
        try:
            p = BDParser()
            p.parse(prog, extern=[])
            got: Any = {x.name: x.value for x in p._variables}.get("a")
        except SPSDKError as e:
            got = f"SPSDKError {str(e)[:60]}"
        except Exception as e:  # pylint: disable=broad-except
            got = f"escaped {type(e).__name__}"
        if got != exp and len(fails) < 4:
            fails.append({"inputs": {"expression": text}, "detail": f"BD '{text}' evaluated to {got!r}, language semantics give {exp}",
                          "obligation": "bd-expression-value"})
    # statements: fill over a range / single address, size suffix
    from spsdk.sbfile.sb2.sb_21_helper import SB21Helper

    for patt, sfx, exp_word in (("0x55", ".b", 0x55555555), ("0x1122", ".h", 0x11221122), ("0x12345678", ".w", 0x12345678), ("0x1234", ".b", 0x34343434)):
        for rng, exp_len in (("0x2000..0x3000", 0x1000), ("0x2000", 4)):
            n += 1
            prog = f"options {{ flags = 0x8; }}\nsources {{ }}\nsection (0) {{ load {patt}{sfx} > {rng}; }}\n"
            try:
                res = BDParser().parse(prog, extern=[])
                cmd = res["sections"][0]["commands"][0]
                f = SB21Helper().get_command("fill")(cmd["fill"])
                got2 = (f.header.address, f.header.count, f.header.data)
            except Exception as e:  # pylint: disable=broad-except
                got2 = f"{type(e).__name__}: {e}"  # type: ignore[assignment]
            if got2 != (0x2000, exp_len, exp_word) and len(fails) < 6:
                fails.append({"inputs": {"statement": f"load {patt}{sfx} > {rng};"},
                              "detail": f"became {got2!r}, expected (0x2000, {exp_len:#x}, {exp_word:#x})", "obligation": "bd-fill-statement"})
    sect = _sections(rnd, 3 if tier == "quick" else 25)
    # several definitions with string values written on ONE line resolve to their own strings
    for names in (["a", "b"], ["first", "second", "third"]):
        n += 1
        vals = {nm: f"dir{i}/{nm}.bin" for i, nm in enumerate(names)}
        prog = "options { flags = 0x8; }\nsources { " + " ".join(f'{k} = "{v}";' for k, v in vals.items()) + " }\nsection (0) { }\n"
        try:
            got3: Any = BDParser().parse(prog, extern=[]).get("sources")
        except Exception as e:  # pylint: disable=broad-except
            got3 = f"{type(e).__name__}: {e}"
        if got3 != vals and len(fails) < 8:
            fails.append({"inputs": {"program": prog}, "detail": f"sources resolved to {got3!r}, the program defines {vals!r}", "obligation": "bd-definitions-resolve-to-their-own-strings"})
    return [sect, {"name": "BD expressions and fill statements through lexer + LALR parser", "function": "spsdk.sbfile.sb2.sly_bd_parser:BDParser.parse",
             "method": "seeded programs from the expression grammar vs an independent precedence-climbing evaluator", "bound": f"{n} programs",
             "cases": n, "label": "bounded", "failures": fails}]


def _sections(rnd: random.Random, programs: int) -> dict:
    """Programs with 1-4 sections of payload-free statements compiled the way `nxpimage sb21 export` does (parse_sb21_config -> load_from_config):
    boot section k of the image holds exactly the statements of BD section k - tags, addresses, lengths, words computed here by ordinary arithmetic."""
    import os
    import tempfile

    from spsdk.crypto.signature_provider import get_signature_provider
    from spsdk.sbfile.sb2.images import BootImageV21

    repo = os.environ.get("VF_REPO", "/repo")
    data = os.path.join(repo, "tests", "nxpimage", "data", "sb_sources")
    certs = os.path.join(data, "keys_and_certs")
    fails: list = []
    n = 0

    def statement() -> tuple:
        k = rnd.randrange(3)
        if k == 0:
            a, pages = rnd.randrange(0, 1 << 20) * 0x1000, rnd.randrange(1, 9)
            return f"erase (0x{a:x})..(0x{a:x} + {pages} * page);", (7, a, pages * 0x1000, 0)
        if k == 1:
            b = rnd.randrange(1, 256)
            lo = rnd.randrange(0, 1 << 16) * 4
            ln = rnd.randrange(1, 64) * 4
            return f"load 0x{b:x}.b > 0x{lo:x}..0x{lo + ln:x};", (3, lo, ln, b * 0x01010101)
        a, arg = rnd.getrandbits(32), rnd.getrandbits(16)
        return f"jump 0x{a:x} (0x{arg:x} | 1);", (4, a, 0, arg | 1)

    for _ in range(programs):
        n += 1
        sections = [[statement() for _ in range(rnd.randrange(1, 4))] for _ in range(rnd.choice([1, 2, 3, 4]))]
        text = ('options { flags = 0x8; buildNumber = 0x1; productVersion = "1.00.00"; componentVersion = "1.00.00"; secureBinaryVersion = "2.1"; }\n'
                "constants { page = 1 << 12; }\n" + "".join("section (%d) {\n%s\n}\n" % (i, "\n".join(t for t, _ in sec)) for i, sec in enumerate(sections)))
        try:
            with tempfile.TemporaryDirectory() as tmp:
                bd = os.path.join(tmp, "p.bd")
                with open(bd, "w", encoding="utf-8") as f:
                    f.write(text)
                sb = BootImageV21.load_from_config(
                    config=BootImageV21.parse_sb21_config(bd), key_file_path=os.path.join(data, "keys", "SBkek_PUF.txt"),
                    signature_provider=get_signature_provider(local_file_key=os.path.join(certs, "k0_cert0_2048.pem")),
                    signing_certificate_file_paths=[os.path.join(certs, "root_k0_signed_cert0_noca.der.cert")],
                    root_key_certificate_paths=[os.path.join(certs, f"root_k{i}_signed_cert0_noca.der.cert") for i in range(4)],
                    rkth_out_path=os.path.join(tmp, "hash.bin"), search_paths=[tmp])
            got = [[(c.header.tag, c.header.address, c.header.count, c.header.data) for c in bs._commands] for bs in sb.boot_sections]
            want = [[w for _, w in sec] for sec in sections]
            problem = None if got == want else f"boot sections hold {got}, the program says {want}"
        except Exception as e:  # pylint: disable=broad-except
            problem = f"{type(e).__name__}: {e}"
        if problem and len(fails) < 3:
            fails.append({"inputs": {"program": text}, "detail": problem[:600], "obligation": "bd-section-k-holds-exactly-its-own-statements"})
    return {"name": "multi-section BD programs through parse_sb21_config and load_from_config", "function": "spsdk.sbfile.sb2.images:BootImageV21.load_from_config",
            "method": "seeded programs of 1-4 sections (erase / pattern fill / jump with constant expressions); expected command words computed independently",
            "bound": f"{n} programs", "cases": n, "label": "bounded", "failures": fails}
