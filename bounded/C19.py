"""Bounded stand-in for C19: seeded BD constant expressions through the real lexer + LALR parser (sly is external: A-sly),
compared with an independent precedence-climbing evaluator that uses the documented C-like table."""
from __future__ import annotations

import random
from typing import Any

PREC = {"|": 1, "^": 2, "&": 3, "<<": 4, ">>": 4, "+": 5, "-": 5, "*": 6, "/": 6, "%": 6}


def _apply(op: str, a: int, b: int) -> int:
    if op == "+":
        return a + b
    if op == "-":
        return a - b
    if op == "*":
        return a * b
    if op == "/":
        if b <= 0:
            raise ZeroDivisionError
        return a // b
    if op == "%":
        if b <= 0:
            raise ZeroDivisionError
        return a % b
    if op == "<<":
        if not 0 <= b < 40:
            raise ValueError
        return a << b
    if op == ">>":
        if not 0 <= b < 40:
            raise ValueError
        return a >> b
    if op == "&":
        return a & b
    if op == "|":
        return a | b
    return a ^ b


def ref_eval(tokens: list) -> int:
    pos = 0

    def atom() -> int:
        nonlocal pos
        t = tokens[pos]
        pos += 1
        if t == "(":
            v = expr(0)
            pos += 1  # ")"
            return v
        return int(t, 0)

    def expr(minp: int) -> int:
        nonlocal pos
        lhs = atom()
        while pos < len(tokens) and tokens[pos] in PREC and PREC[tokens[pos]] >= minp:
            op = tokens[pos]
            pos += 1
            rhs = expr(PREC[op] + 1)  # left associative
            lhs = _apply(op, lhs, rhs)
        return lhs

    return expr(0)


def gen_tokens(rnd: random.Random, depth: int = 0) -> list:
    n = rnd.randrange(1, 5)
    out: list = []
    for i in range(n):
        if i:
            out.append(rnd.choice(list(PREC)))
        if depth < 2 and rnd.random() < 0.25:
            out += ["("] + gen_tokens(rnd, depth + 1) + [")"]
        else:
            v = rnd.choice([0, 1, 2, 3, 4, 7, 8, 16, 31, 255, 256, 1000, 0x1000, 65535])
            out.append(hex(v) if rnd.random() < 0.4 else str(v))
    return out


def run(tier: str, seed: int, reg: Any, jobs: int = 16) -> list:
    from spsdk.exceptions import SPSDKError
    from spsdk.sbfile.sb2.sly_bd_parser import BDParser

    rnd = random.Random(seed)
    fails = []
    n = 0
    total = 400 if tier == "quick" else 20000
    while n < total:
        toks = gen_tokens(rnd)
        try:
            exp = ref_eval(toks)
        except (ZeroDivisionError, ValueError):
            continue
        text = " ".join(toks)
        n += 1
        prog = "options { flags = 0x8; }\nconstants { a = " + text + "; }\nsources { }\nsection (0) { }\n"
        try:
            p = BDParser()
            p.parse(prog, extern=[])
            got: Any = {x.name: x.value for x in p._variables}.get("a")
        except SPSDKError as e:
            got = f"SPSDKError {str(e)[:60]}"
        except Exception as e:  # pylint: disable=broad-except
            got = f"escaped {type(e).__name__}"
        if got != exp and len(fails) < 4:
            fails.append({"inputs": {"expression": text}, "detail": f"BD '{text}' evaluated to {got!r}, language semantics give {exp}",
                          "obligation": "bd-expression-value"})
    # statements: fill over a range / single address, size suffix
    from spsdk.sbfile.sb2.sb_21_helper import SB21Helper

    for patt, sfx, exp_word in (("0x55", ".b", 0x55555555), ("0x1122", ".h", 0x11221122), ("0x12345678", ".w", 0x12345678), ("0x1234", ".b", 0x34343434)):
        for rng, exp_len in (("0x2000..0x3000", 0x1000), ("0x2000", 4)):
            n += 1
            prog = f"options {{ flags = 0x8; }}\nsources {{ }}\nsection (0) {{ load {patt}{sfx} > {rng}; }}\n"
            try:
                res = BDParser().parse(prog, extern=[])
                cmd = res["sections"][0]["commands"][0]
                f = SB21Helper().get_command("fill")(cmd["fill"])
                got2 = (f.header.address, f.header.count, f.header.data)
            except Exception as e:  # pylint: disable=broad-except
                got2 = f"{type(e).__name__}: {e}"  # type: ignore[assignment]
            if got2 != (0x2000, exp_len, exp_word) and len(fails) < 6:
                fails.append({"inputs": {"statement": f"load {patt}{sfx} > {rng};"},
                              "detail": f"became {got2!r}, expected (0x2000, {exp_len:#x}, {exp_word:#x})", "obligation": "bd-fill-statement"})
    return [{"name": "BD expressions and fill statements through lexer + LALR parser", "function": "spsdk.sbfile.sb2.sly_bd_parser:BDParser.parse",
             "method": "seeded programs from the expression grammar vs an independent precedence-climbing evaluator", "bound": f"{n} programs",
             "cases": n, "label": "bounded", "failures": fails}]
