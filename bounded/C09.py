"""Bounded stand-ins for C09 (never counted as proved): known-answer vectors of the standards and an independent
bit-serial CRC, run against SPSDK's wrappers (the deductive part treats the primitives as uninterpreted)."""
from __future__ import annotations

import random
from typing import Any


def run(tier: str, seed: int, reg: Any, jobs: int = 16) -> list:
    from spsdk.crypto import symmetric as S
    from spsdk.crypto.cmac import cmac
    from spsdk.crypto.crc import CrcAlg, from_crc_algorithm
    from spsdk.crypto.hash import EnumHashAlgorithm, get_hash
    from spsdk.crypto.hkdf import hkdf
    from spsdk.crypto.spsdk_hmac import hmac
    from specs.crypto import crc_bitwise

    h = bytes.fromhex
    fails = []
    n = 0

    def kat(name: str, got: bytes, exp: str) -> None:
        nonlocal n
        n += 1
        if got != h(exp):
            fails.append({"inputs": {"vector": name}, "detail": f"{name}: got {got.hex()}, standard says {exp}",
                          "obligation": f"kat:{name}"})

    key = h("2b7e151628aed2a6abf7158809cf4f3c")
    pt = h("6bc1bee22e409f96e93d7e117393172a")
    kat("SP800-38A F.1.1 AES-128-ECB", S.aes_ecb_encrypt(key, pt), "3ad77bb40d7a3660a89ecaf32466ef97")
    kat("SP800-38A F.2.1 AES-128-CBC", S.aes_cbc_encrypt(key, pt, h("000102030405060708090a0b0c0d0e0f")), "7649abac8119b246cee98e9b12e9197d")
    kat("SP800-38A F.5.1 AES-128-CTR", S.aes_ctr_encrypt(key, pt, h("f0f1f2f3f4f5f6f7f8f9fafbfcfdfeff")), "874d6191b620e3261bef6864990db6ce")
    kat("RFC3394 4.1 key wrap", S.aes_key_wrap(h("000102030405060708090A0B0C0D0E0F"), h("00112233445566778899AABBCCDDEEFF")),
        "1FA68B0A8112B447AEF34BD8FB5A7B829D3E862371D2CFE5")
    kat("SP800-38B D.1 CMAC-AES128 (empty)", cmac(key, b""), "bb1d6929e95937287fa37d129b756746")
    kat("SP800-38B D.1 CMAC-AES128 (16B)", cmac(key, pt), "070a16b46b4d4144f79bdd9dd04a287c")
    kat("RFC4231 tc2 HMAC-SHA256", hmac(b"Jefe", b"what do ya want for nothing?"), "5bdcc146bf60754e6a042426089575c75a003f089d2739839dec58b964ec3843")
    kat("FIPS180 SHA-256('abc')", get_hash(b"abc"), "ba7816bf8f01cfea414140de5dae2223b00361a396177a9cb410ff61f20015ad")
    kat("FIPS180 SHA-384('abc')", get_hash(b"abc", EnumHashAlgorithm.SHA384),
        "cb00753f45a35e8bb5a03d699ac65007272c32ab0eded1631a8b605a43ff5bed8086072ba1e7cc2358baeca134c825a7")
    kat("RFC5869 A.1 HKDF-SHA256", hkdf(h("000102030405060708090a0b0c"), h("0b" * 22), h("f0f1f2f3f4f5f6f7f8f9"), 42),
        "3cb25f25faacd57a90434f64d0362f2a2d2d0a90cf1a5a4c5db02d56ecc4c5bf34007208d5b887185865")
    for alg, check in ((CrcAlg.CRC32, 0xCBF43926), (CrcAlg.CRC32_MPEG, 0x0376E6E7), (CrcAlg.CRC16_XMODEM, 0x31C3)):
        n += 1
        got = from_crc_algorithm(alg).calculate(b"123456789")
        if got != check:
            fails.append({"inputs": {"alg": alg.label}, "detail": f"{alg.label}('123456789') = {got:#x}, catalogue check value {check:#x}",
                          "obligation": "kat:crc-check-value"})
    rnd = random.Random(seed)
    for _ in range(300 if tier == "quick" else 20000):
        alg = rnd.choice([CrcAlg.CRC32, CrcAlg.CRC32_MPEG, CrcAlg.CRC16_XMODEM])
        c = from_crc_algorithm(alg)
        data = bytes(rnd.getrandbits(8) for _ in range(rnd.randrange(0, 81)))
        n += 1
        exp = crc_bitwise(c.polynomial, c.initial_value, c.reverse, c.final_xor, data)
        if c.calculate(data) != exp:
            fails.append({"inputs": {"alg": alg.label, "data": data.hex()}, "detail": "crcmod differs from the bit-serial reference",
                          "obligation": "crc-vs-bitserial"})
            break
    # decrypt(encrypt(m)) natively for every length 0..80, defaults on both sides
    for ln in range(0, 81):
        m = bytes(rnd.getrandbits(8) for _ in range(ln))
        k = bytes(rnd.getrandbits(8) for _ in range(rnd.choice([16, 24, 32])))
        n += 1
        try:
            back = S.aes_cbc_decrypt(k, S.aes_cbc_encrypt(k, m))
            ok = back[:ln] == m and not any(back[ln:]) and len(back) % 16 == 0
        except Exception as e:  # pylint: disable=broad-except
            ok = False
            back = repr(e).encode()
        if not ok:
            fails.append({"inputs": {"key": k.hex(), "m": m.hex()}, "detail": f"aes_cbc round trip with default IVs failed: {back[:60]!r}",
                          "obligation": "aes-cbc-roundtrip-native"})
            break
    return [{"name": "standard known-answer vectors + bit-serial CRC + native round trips", "function": "spsdk.crypto.*",
             "method": "known-answer tests (SP 800-38A/B, RFC 3394/4231/5869, FIPS 180, CRC catalogue) and seeded differential runs",
             "bound": f"{n} cases", "cases": n, "label": "bounded", "failures": fails[:5]}]
