"""Bounded stand-ins for C16: BIN / Intel-HEX / S-record save-load (bincopy is external) and wide nodes (> 3 children)."""
from __future__ import annotations

import os
import random
import shutil
import tempfile
from typing import Any


def run(tier: str, seed: int, reg: Any, jobs: int = 16) -> list:
    from spsdk.utils.images import BinaryImage

    rnd = random.Random(seed)
    d = tempfile.mkdtemp(prefix="vf-c16-")
    fails = []
    n = 0
    try:
        for _ in range(60 if tier == "quick" else 2000):
            base = rnd.choice([0, 0x1000, 0x08000000, 0x6000_0000, 0xFFFF_0000, rnd.randrange(0, 1 << 32) & ~0xF])
            img = BinaryImage("root", offset=base)
            pos = 0
            for i in range(rnd.randrange(1, 5)):
                data = bytes(rnd.getrandbits(8) for _ in range(rnd.choice([1, 4, 16, 33, 100, 300])))
                pos += rnd.choice([0, 0, 4, 16, 256])
                if base + pos + len(data) >= (1 << 32):
                    break
                img.add_image(BinaryImage(f"s{i}", offset=pos, binary=data))
                pos += len(data)
            if not img.sub_images:
                continue
            want = {}
            for s in img.sub_images:
                for k, b in enumerate(s.binary or b""):
                    want[base + s.offset + k] = b
            if rnd.random() < 0.4:
                # a node that has its own binary, a fill pattern and is longer than that binary (explicit size / alignment): every format must
                # hold exactly the bytes export() gives, fill included
                from spsdk.utils.misc import BinaryPattern

                own = bytes(rnd.getrandbits(8) | 1 for _ in range(rnd.choice([3, 10, 33])))
                img = BinaryImage("root", offset=base, binary=own, size=rnd.choice([0, len(own) + rnd.choice([1, 6, 40])]), alignment=rnd.choice([1, 4, 16]),
                                  pattern=BinaryPattern(rnd.choice(["ones", "0xA5", "inc"])))
                if base + len(img) >= (1 << 32):
                    continue
                want = {base + k: b for k, b in enumerate(img.export())}
            for fmt in ("BIN", "HEX", "S19"):
                n += 1
                path = os.path.join(d, f"img.{fmt.lower()}")
                try:
                    img.save_binary_image(path, file_format=fmt)
                    back = BinaryImage.load_binary_image(path)
                    got = {}
                    data = back.export()
                    start = back.absolute_address if fmt != "BIN" else base
                    for k, b in enumerate(data):
                        got[start + k] = b
                    bad = [a for a, b in want.items() if got.get(a) != b]
                    if bad:
                        fails.append({"inputs": {"base": base, "format": fmt, "segments": [(s.offset, len(s.binary)) for s in img.sub_images]},
                                      "detail": f"{len(bad)} bytes differ after {fmt} save/load, first at {bad[0]:#x}",
                                      "obligation": f"save-load:{fmt}"})
                except Exception as e:  # pylint: disable=broad-except
                    fails.append({"inputs": {"base": base, "format": fmt}, "detail": f"{type(e).__name__}: {e}",
                                  "obligation": f"save-load:{fmt}"})
                if len(fails) > 3:
                    break
    finally:
        shutil.rmtree(d, ignore_errors=True)
    return [{"name": "BIN/HEX/S-record save-load", "function": "spsdk.utils.images:BinaryImage.save_binary_image/load_binary_image",
             "method": "seeded trees, base addresses up to 2^32, three formats; compare (address, byte) maps",
             "bound": f"{n} save/load cycles", "cases": n, "label": "bounded", "failures": fails[:4]}]
