"""Bounded stand-in for C03: real keys (incl. ECC keys searched for leading-zero coordinates) through RKHTv21/RKHTv1.from_keys and
PEM/DER/raw encodings, against a hand-written reference (hashlib + cryptography numbers)."""
from __future__ import annotations

import hashlib
import random
from typing import Any


def run(tier: str, seed: int, reg: Any, jobs: int = 16) -> list:
    from cryptography.hazmat.primitives.asymmetric import ec, rsa

    from spsdk.crypto.crypto_types import SPSDKEncoding
    from spsdk.crypto.keys import PrivateKeyEcc, PrivateKeyRsa, PublicKeyEcc
    from spsdk.utils.crypto.rkht import RKHTv1, RKHTv21

    rnd = random.Random(seed)
    fails = []
    n = 0

    def ref_ecc(pub: Any) -> bytes:
        nums = pub.public_numbers()
        cs = (pub.curve.key_size + 7) // 8
        h = hashlib.sha256 if pub.curve.key_size == 256 else hashlib.sha384
        return h(nums.x.to_bytes(cs, "big") + nums.y.to_bytes(cs, "big")).digest()

    for curve in (ec.SECP256R1(), ec.SECP384R1()):
        keys = []
        short = 0
        s = rnd.randrange(1, 1 << 100)
        tries = 0
        while len(keys) < (6 if tier == "quick" else 40):
            s += 1
            tries += 1
            priv = ec.derive_private_key(s, curve)
            nums = priv.public_key().public_numbers()
            cs = curve.key_size // 8
            is_short = nums.x < (1 << (8 * cs - 8)) or nums.y < (1 << (8 * cs - 8))
            if is_short and short < 3:
                short += 1
                keys.append(priv)
            elif not is_short and len(keys) - short < 3:
                keys.append(priv)
            if tries > 10 ** 5:
                break
        for k in range(1, 5):
            sel = [keys[(i * 2 + k) % len(keys)] for i in range(k)]
            n += 1
            hashes = [ref_ecc(p.public_key()) for p in sel]
            exp = hashes[0] if k == 1 else (hashlib.sha256 if curve.key_size == 256 else hashlib.sha384)(b"".join(hashes)).digest()
            for form in ("public", "private", "pem", "der"):
                try:
                    objs: list = []
                    for p in sel:
                        if form == "public":
                            objs.append(PublicKeyEcc(p.public_key()))
                        elif form == "private":
                            objs.append(PrivateKeyEcc(p))
                        else:
                            objs.append(PublicKeyEcc(p.public_key()).export(SPSDKEncoding.PEM if form == "pem" else SPSDKEncoding.DER))
                    got = RKHTv21.from_keys(objs).rkth()
                except Exception as e:  # pylint: disable=broad-except
                    got = f"{type(e).__name__}: {e}".encode()
                if got != exp and len(fails) < 4:
                    fails.append({"inputs": {"curve": curve.name, "keys": k, "supplied_as": form}, "detail": f"RKTH {got[:40].hex()} differs from the documented construction {exp.hex()[:40]}",
                                  "obligation": "rkth-equals-documented-construction"})
    # RSA, v1 table
    rsak = [rsa.generate_private_key(65537, 2048) for _ in range(2)]
    for k in (1, 2):
        n += 1
        hs = []
        for p in rsak[:k]:
            nums = p.public_key().public_numbers()
            hs.append(hashlib.sha256(nums.n.to_bytes((nums.n.bit_length() + 7) // 8, "big") + nums.e.to_bytes(3, "big")).digest())
        exp = hashlib.sha256(b"".join(hs) + bytes(32 * (4 - k))).digest()
        got = RKHTv1.from_keys([PrivateKeyRsa(p) for p in rsak[:k]]).rkth()
        if got != exp:
            fails.append({"inputs": {"rsa_keys": k}, "detail": "RKHTv1 RKTH differs from the documented construction", "obligation": "rkth-equals-documented-construction"})
    hab = _hab_srk_from_certificates(rnd)
    return [hab, {"name": "RKTH over real keys, 1..4 keys, four ways of supplying them", "function": "spsdk.utils.crypto.rkht:RKHT.from_keys",
             "method": "P-256/P-384 keys incl. leading-zero coordinates (searched), RSA-2048; hashlib reference", "bound": f"{n} key sets x 4 encodings",
             "cases": n, "label": "bounded", "failures": fails}]


def _hab_srk_from_certificates(rnd: Any) -> dict:
    """HAB SRK table built from certificates (the path behind `nxpcrypto rot`): every item, decoded by hand, announces the curve's bit size
    (521 for P-521) / the modulus and exponent lengths and carries the key material at full width; the fuse value is the SHA-256 construction
    over the table computed by hand."""
    import hashlib
    import struct

    from cryptography import x509
    from cryptography.x509.oid import NameOID

    from spsdk.crypto.certificate import Certificate
    from spsdk.crypto.keys import EccCurve, PrivateKeyEcc, PrivateKeyRsa
    from spsdk.image.secret import SrkItem, SrkTable

    fails: list = []
    n = 0
    kinds = [("ecc", EccCurve.SECP256R1, 256), ("ecc", EccCurve.SECP384R1, 384), ("ecc", EccCurve.SECP521R1, 521), ("rsa", 2048, 2048)]
    for kind, par, bits in kinds:
        n += 1
        try:
            table = SrkTable(version=0x42 if kind == "ecc" else 0x40)
            keys = []
            for i in range(2):
                prv = PrivateKeyEcc.generate_key(par) if kind == "ecc" else PrivateKeyRsa.generate_key(par)
                name = x509.Name([x509.NameAttribute(NameOID.COMMON_NAME, f"SRK{i}")])
                cert = Certificate.generate_certificate(name, name, prv.get_public_key(), prv, serial_number=i + 1,
                                                        extensions=[x509.BasicConstraints(ca=True, path_length=None)])
                table.append(SrkItem.from_certificate(cert))
                keys.append(prv.get_public_key())
            blob = table.export()
            problems = []
            pos = 4
            for i, pub in enumerate(keys):
                tag, ln, alg = struct.unpack_from(">BHB", blob, pos)
                if kind == "ecc":
                    cs = (bits + 7) // 8
                    _a, _b, _c, _flag, _curve, _d, ks = struct.unpack_from(">6BH", blob, pos + 4)
                    x = int.from_bytes(blob[pos + 12: pos + 12 + cs], "big")
                    y = int.from_bytes(blob[pos + 12 + cs: pos + 12 + 2 * cs], "big")
                    if ks != bits:
                        problems.append(f"SRK{i}: key size field is {ks}, the curve has {bits} bits")
                    if (x, y) != (pub.x, pub.y) or ln != 12 + 2 * cs:
                        problems.append(f"SRK{i}: coordinates / record length do not match the key")
                else:
                    _a, _b, _c, _flag, mlen, elen = struct.unpack_from(">4B2H", blob, pos + 4)
                    if mlen != bits // 8 or int.from_bytes(blob[pos + 12: pos + 12 + mlen], "big") != pub.n or int.from_bytes(blob[pos + 12 + mlen: pos + 12 + mlen + elen], "big") != pub.e:
                        problems.append(f"SRK{i}: modulus / exponent do not match the key")
                pos += ln
            fuses = table.export_fuses()
            ref = hashlib.sha256(b"".join(hashlib.sha256(blob[p: p + l]).digest() for p, l in _items(blob))).digest()
            if fuses != ref:
                problems.append("fuse value is not SHA-256 over the SHA-256 digests of the exported items")
            if problems:
                fails.append({"inputs": {"keys": f"{kind} {bits}"}, "detail": "; ".join(problems[:3]), "obligation": "hab-srk-table-from-certificates"})
        except Exception as e:  # pylint: disable=broad-except
            fails.append({"inputs": {"keys": f"{kind} {bits}"}, "detail": f"{type(e).__name__}: {e}", "obligation": "hab-srk-table-from-certificates"})
    return {"name": "HAB SRK table from certificates decoded by hand", "function": "spsdk.image.secret:SrkItem.from_certificate / SrkTable.export / export_fuses",
            "method": "fresh self-signed CA certificates for P-256/384/521 and RSA-2048, two keys per table", "bound": f"{n} tables", "cases": n,
            "label": "bounded", "failures": fails}


def _items(blob: bytes) -> list:
    import struct

    out, pos = [], 4
    total = struct.unpack_from(">H", blob, 1)[0]
    while pos < total:
        ln = struct.unpack_from(">H", blob, pos + 1)[0]
        out.append((pos, ln))
        pos += ln
    return out
