"""Bounded stand-in for C03: real keys (incl. ECC keys searched for leading-zero coordinates) through RKHTv21/RKHTv1.from_keys and
PEM/DER/raw encodings, against a hand-written reference (hashlib + cryptography numbers)."""
from __future__ import annotations

import hashlib
import random
from typing import Any


def run(tier: str, seed: int, reg: Any, jobs: int = 16) -> list:
    from cryptography.hazmat.primitives.asymmetric import ec, rsa

    from spsdk.crypto.crypto_types import SPSDKEncoding
    from spsdk.crypto.keys import PrivateKeyEcc, PrivateKeyRsa, PublicKeyEcc
    from spsdk.utils.crypto.rkht import RKHTv1, RKHTv21

    rnd = random.Random(seed)
    fails = []
    n = 0

    def ref_ecc(pub: Any) -> bytes:
        nums = pub.public_numbers()
        cs = (pub.curve.key_size + 7) // 8
        h = hashlib.sha256 if pub.curve.key_size == 256 else hashlib.sha384
        return h(nums.x.to_bytes(cs, "big") + nums.y.to_bytes(cs, "big")).digest()

    for curve in (ec.SECP256R1(), ec.SECP384R1()):
        keys = []
        short = 0
        s = rnd.randrange(1, 1 << 100)
        tries = 0
        while len(keys) < (6 if tier == "quick" else 40):
            s += 1
            tries += 1
            priv = ec.derive_private_key(s, curve)
            nums = priv.public_key().public_numbers()
            cs = curve.key_size // 8
            is_short = nums.x < (1 << (8 * cs - 8)) or nums.y < (1 << (8 * cs - 8))
            if is_short and short < 3:
                short += 1
                keys.append(priv)
            elif not is_short and len(keys) - short < 3:
                keys.append(priv)
            if tries > 10 ** 5:
                break
        for k in range(1, 5):
            sel = [keys[(i * 2 + k) % len(keys)] for i in range(k)]
            n += 1
            hashes = [ref_ecc(p.public_key()) for p in sel]
            exp = hashes[0] if k == 1 else (hashlib.sha256 if curve.key_size == 256 else hashlib.sha384)(b"".join(hashes)).digest()
            for form in ("public", "private", "pem", "der"):
                try:
                    objs: list = []
                    for p in sel:
                        if form == "public":
                            objs.append(PublicKeyEcc(p.public_key()))
                        elif form == "private":
                            objs.append(PrivateKeyEcc(p))
                        else:
                            objs.append(PublicKeyEcc(p.public_key()).export(SPSDKEncoding.PEM if form == "pem" else SPSDKEncoding.DER))
                    got = RKHTv21.from_keys(objs).rkth()
                except Exception as e:  # pylint: disable=broad-except
                    got = f"{type(e).__name__}: {e}".encode()
                if got != exp and len(fails) < 4:
                    fails.append({"inputs": {"curve": curve.name, "keys": k, "supplied_as": form}, "detail": f"RKTH {got[:40].hex()} differs from the documented construction {exp.hex()[:40]}",
                                  "obligation": "rkth-equals-documented-construction"})
    # RSA, v1 table
    rsak = [rsa.generate_private_key(65537, 2048) for _ in range(2)]
    for k in (1, 2):
        n += 1
        hs = []
        for p in rsak[:k]:
            nums = p.public_key().public_numbers()
            hs.append(hashlib.sha256(nums.n.to_bytes((nums.n.bit_length() + 7) // 8, "big") + nums.e.to_bytes(3, "big")).digest())
        exp = hashlib.sha256(b"".join(hs) + bytes(32 * (4 - k))).digest()
        got = RKHTv1.from_keys([PrivateKeyRsa(p) for p in rsak[:k]]).rkth()
        if got != exp:
            fails.append({"inputs": {"rsa_keys": k}, "detail": "RKHTv1 RKTH differs from the documented construction", "obligation": "rkth-equals-documented-construction"})
    return [{"name": "RKTH over real keys, 1..4 keys, four ways of supplying them", "function": "spsdk.utils.crypto.rkht:RKHT.from_keys",
             "method": "P-256/P-384 keys incl. leading-zero coordinates (searched), RSA-2048; hashlib reference", "bound": f"{n} key sets x 4 encodings",
             "cases": n, "label": "bounded", "failures": fails}]
