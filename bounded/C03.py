"""Bounded stand-in for C03: real keys (incl. ECC keys searched for leading-zero coordinates) through RKHTv21/RKHTv1.from_keys and
PEM/DER/raw encodings, against a hand-written reference (hashlib + cryptography numbers)."""
from __future__ import annotations

import hashlib
import random
from typing import Any


def run(tier: str, seed: int, reg: Any, jobs: int = 16) -> list:
    from cryptography.hazmat.primitives.asymmetric import ec, rsa

    from spsdk.crypto.crypto_types import SPSDKEncoding
    from spsdk.crypto.keys import PrivateKeyEcc, PrivateKeyRsa, PublicKeyEcc
    from spsdk.utils.crypto.rkht import RKHTv1, RKHTv21

    rnd = random.Random(seed)
    fails = []
    n = 0

    def ref_ecc(pub: Any) -> bytes:
        nums = pub.public_numbers()
        cs = (pub.curve.key_size + 7) // 8
        h = hashlib.sha256 if pub.curve.key_size == 256 else hashlib.sha384
        return h(nums.x.to_bytes(cs, "big") + nums.y.to_bytes(cs, "big")).digest()

    for curve in (ec.SECP256R1(), ec.SECP384R1()):
        keys = []
        short = 0
        s = rnd.randrange(1, 1 << 100)
        tries = 0
        while len(keys) < (6 if tier == "quick" else 40):
            s += 1
            tries += 1
            priv = ec.derive_private_key(s, curve)
            nums = priv.public_key().public_numbers()
            cs = curve.key_size // 8
            is_short = nums.x < (1 << (8 * cs - 8)) or nums.y < (1 << (8 * cs - 8))
            if is_short and short < 3:
                short += 1
                keys.append(priv)
            elif not is_short and len(keys) - short < 3:
                keys.append(priv)
            if tries > 10 ** 5:
                break
        for k in range(1, 5):
            sel = [keys[(i * 2 + k) % len(keys)] for i in range(k)]
            n += 1
            hashes = [ref_ecc(p.public_key()) for p in sel]
            exp = hashes[0] if k == 1 else (hashlib.sha256 if curve.key_size == 256 else hashlib.sha384)(b"".join(hashes)).digest()
            for form in ("public", "private", "pem", "der"):
                try:
                    objs: list = []
                    for p in sel:
                        if form == "public":
                            objs.append(PublicKeyEcc(p.public_key()))
                        elif form == "private":
                            objs.append(PrivateKeyEcc(p))
                        else:
                            objs.append(PublicKeyEcc(p.public_key()).export(SPSDKEncoding.PEM if form == "pem" else SPSDKEncoding.DER))
                    got = RKHTv21.from_keys(objs).rkth()
                except Exception as e:  # pylint: disable=broad-except
                    got = f"{type(e).__name__}: {e}".encode()
                if got != exp and len(fails) < 4:
                    fails.append({"inputs": {"curve": curve.name, "keys": k, "supplied_as": form}, "detail": f"RKTH {got[:40].hex()} differs from the documented construction {exp.hex()[:40]}",
                                  "obligation": "rkth-equals-documented-construction"})
    # RSA, v1 table
    rsak = [rsa.generate_private_key(65537, 2048) for _ in range(2)]
    for k in (1, 2):
        n += 1
        hs = []
        for p in rsak[:k]:
            nums = p.public_key().public_numbers()
            hs.append(hashlib.sha256(nums.n.to_bytes((nums.n.bit_length() + 7) // 8, "big") + nums.e.to_bytes(3, "big")).digest())
        exp = hashlib.sha256(b"".join(hs) + bytes(32 * (4 - k))).digest()
        got = RKHTv1.from_keys([PrivateKeyRsa(p) for p in rsak[:k]]).rkth()
        if got != exp:
            fails.append({"inputs": {"rsa_keys": k}, "detail": "RKHTv1 RKTH differs from the documented construction", "obligation": "rkth-equals-documented-construction"})
    hab = _hab_srk_from_certificates(rnd)
    return [hab, _cert_block_v21_round_trip(rnd, tier), _cert_block_v1_round_trip(rnd, tier), {"name": "RKTH over real keys, 1..4 keys, four ways of supplying them", "function": "spsdk.utils.crypto.rkht:RKHT.from_keys",
             "method": "P-256/P-384 keys incl. leading-zero coordinates (searched), RSA-2048; hashlib reference", "bound": f"{n} key sets x 4 encodings",
             "cases": n, "label": "bounded", "failures": fails}]


def _hab_srk_from_certificates(rnd: Any) -> dict:
    """HAB SRK table built from certificates (the path behind `nxpcrypto rot`): every item, decoded by hand, announces the curve's bit size
    (521 for P-521) / the modulus and exponent lengths and carries the key material at full width; the fuse value is the SHA-256 construction
    over the table computed by hand."""
    import hashlib
    import struct

    from cryptography import x509
    from cryptography.x509.oid import NameOID

    from spsdk.crypto.certificate import Certificate
    from spsdk.crypto.keys import EccCurve, PrivateKeyEcc, PrivateKeyRsa
    from spsdk.image.secret import SrkItem, SrkTable

    fails: list = []
    n = 0
    kinds = [("ecc", EccCurve.SECP256R1, 256), ("ecc", EccCurve.SECP384R1, 384), ("ecc", EccCurve.SECP521R1, 521), ("rsa", 2048, 2048)]
    for kind, par, bits in kinds:
        n += 1
        try:
            table = SrkTable(version=0x42 if kind == "ecc" else 0x40)
            keys = []
            for i in range(2):
                prv = PrivateKeyEcc.generate_key(par) if kind == "ecc" else PrivateKeyRsa.generate_key(par)
                name = x509.Name([x509.NameAttribute(NameOID.COMMON_NAME, f"SRK{i}")])
                cert = Certificate.generate_certificate(name, name, prv.get_public_key(), prv, serial_number=i + 1,
                                                        extensions=[x509.BasicConstraints(ca=True, path_length=None)])
                table.append(SrkItem.from_certificate(cert))
                keys.append(prv.get_public_key())
            blob = table.export()
            problems = []
            pos = 4
            for i, pub in enumerate(keys):
                tag, ln, alg = struct.unpack_from(">BHB", blob, pos)
                if kind == "ecc":
                    cs = (bits + 7) // 8
                    _a, _b, _c, _flag, _curve, _d, ks = struct.unpack_from(">6BH", blob, pos + 4)
                    x = int.from_bytes(blob[pos + 12: pos + 12 + cs], "big")
                    y = int.from_bytes(blob[pos + 12 + cs: pos + 12 + 2 * cs], "big")
                    if ks != bits:
                        problems.append(f"SRK{i}: key size field is {ks}, the curve has {bits} bits")
                    if (x, y) != (pub.x, pub.y) or ln != 12 + 2 * cs:
                        problems.append(f"SRK{i}: coordinates / record length do not match the key")
                else:
                    _a, _b, _c, _flag, mlen, elen = struct.unpack_from(">4B2H", blob, pos + 4)
                    if mlen != bits // 8 or int.from_bytes(blob[pos + 12: pos + 12 + mlen], "big") != pub.n or int.from_bytes(blob[pos + 12 + mlen: pos + 12 + mlen + elen], "big") != pub.e:
                        problems.append(f"SRK{i}: modulus / exponent do not match the key")
                pos += ln
            fuses = table.export_fuses()
            ref = hashlib.sha256(b"".join(hashlib.sha256(blob[p: p + l]).digest() for p, l in _items(blob))).digest()
            if fuses != ref:
                problems.append("fuse value is not SHA-256 over the SHA-256 digests of the exported items")
            if problems:
                fails.append({"inputs": {"keys": f"{kind} {bits}"}, "detail": "; ".join(problems[:3]), "obligation": "hab-srk-table-from-certificates"})
        except Exception as e:  # pylint: disable=broad-except
            fails.append({"inputs": {"keys": f"{kind} {bits}"}, "detail": f"{type(e).__name__}: {e}", "obligation": "hab-srk-table-from-certificates"})
    return {"name": "HAB SRK table from certificates decoded by hand", "function": "spsdk.image.secret:SrkItem.from_certificate / SrkTable.export / export_fuses",
            "method": "fresh self-signed CA certificates for P-256/384/521 and RSA-2048, two keys per table", "bound": f"{n} tables", "cases": n,
            "label": "bounded", "failures": fails}


def _items(blob: bytes) -> list:
    import struct

    out, pos = [], 4
    total = struct.unpack_from(">H", blob, 1)[0]
    while pos < total:
        ln = struct.unpack_from(">H", blob, pos + 1)[0]
        out.append((pos, ln))
        pos += ln
    return out


class _Signer:
    """Signature provider over a cryptography private key (what IskCertificate needs: signature_length and get_signature -> raw r||s)."""

    def __init__(self, priv: Any) -> None:
        from spsdk.crypto.keys import PrivateKeyEcc

        self.key = PrivateKeyEcc(priv)
        self.signature_length = self.key.signature_size

    def get_signature(self, data: bytes) -> bytes:
        return self.key.sign(data)


def _cert_block_v21_round_trip(rnd: Any, tier: str) -> dict:
    """Certificate block v2.1 with real keys: decoded by hand (header, flags, hash table, root public key, ISK certificate), the RoT hash is the
    documented construction, the ISK signature verifies - with cryptography directly - under the root key the record announces over exactly
    record || ISK header || ISK public key || user data, and parse(export) exports the same bytes and the same RoT hash."""
    import struct

    from cryptography.exceptions import InvalidSignature
    from cryptography.hazmat.primitives import hashes
    from cryptography.hazmat.primitives.asymmetric import ec
    from cryptography.hazmat.primitives.asymmetric.utils import encode_dss_signature

    from spsdk.crypto.keys import PublicKeyEcc
    from spsdk.utils.crypto.cert_blocks import CertBlockV21

    fails: list = []
    n = 0
    for _ in range(24 if tier == "quick" else 400):
        n += 1
        curve = rnd.choice([ec.SECP256R1(), ec.SECP384R1()])
        cs = curve.key_size // 8
        k = rnd.randrange(1, 5)
        used = rnd.randrange(k)
        roots = [ec.derive_private_key(rnd.randrange(1, 1 << 190), curve) for _ in range(k)]
        with_isk = rnd.random() < 0.7
        isk_curve = rnd.choice([ec.SECP256R1(), ec.SECP384R1()])
        isk_priv = ec.derive_private_key(rnd.randrange(1, 1 << 190), isk_curve)
        user = bytes(rnd.getrandbits(8) for _ in range(rnd.choice([0, 0, 4, 16, 48, 96])))
        raw = rnd.random() < 0.5
        inputs = {"curve": curve.name, "root_keys": k, "used_root": used, "isk": (isk_curve.name if with_isk else None), "user_data_len": len(user),
                  "roots_supplied_as": "raw bytes" if raw else "PublicKeyEcc"}
        problems: list = []
        try:
            pubs = [PublicKeyEcc(p.public_key()) for p in roots]
            cb = CertBlockV21(root_certs=[p.export() for p in pubs] if raw else pubs, ca_flag=not with_isk, used_root_cert=used, constraints=rnd.getrandbits(16),
                              signature_provider=_Signer(roots[used]) if with_isk else None, isk_cert=PublicKeyEcc(isk_priv.public_key()) if with_isk else None,
                              user_data=user or None)
            cb.calculate()
            blob = cb.export()
            magic, minor, major, size = struct.unpack_from("<4s2HL", blob, 0)
            if (magic, major, minor) != (b"chdr", 2, 1) or size != len(blob):
                problems.append(f"header says {magic!r} v{major}.{minor} size {size}, the block has {len(blob)} bytes")
            (flags,) = struct.unpack_from("<L", blob, 12)
            if (flags >> 4) & 0xF != k or (flags >> 8) & 0xF != used or flags & 0xF != (1 if cs == 32 else 2) or bool(flags >> 31) != (not with_isk):
                problems.append(f"flags {flags:#x} do not announce {k} keys / used root {used} / curve / CA")
            off = 16
            hfun = hashlib.sha256 if cs == 32 else hashlib.sha384
            xy = [p.public_key().public_numbers() for p in roots]
            hs = [hfun(q.x.to_bytes(cs, "big") + q.y.to_bytes(cs, "big")).digest() for q in xy]
            if k > 1:
                if blob[off: off + k * cs] != b"".join(hs):
                    problems.append("hash table differs from the hashes of X||Y of the root keys in order")
                off += k * cs
            root_xy = xy[used].x.to_bytes(cs, "big") + xy[used].y.to_bytes(cs, "big")
            if blob[off: off + 2 * cs] != root_xy:
                problems.append("the root public key in the record is not the selected root key")
            off += 2 * cs
            exp_rkth = hs[0] if k == 1 else hfun(b"".join(hs)).digest()
            if cb.rkth != exp_rkth:
                problems.append("RoT hash differs from the documented construction")
            if with_isk:
                rec_end = off
                sig_off, _cons, iflags = struct.unpack_from("<3L", blob, off)
                ics = isk_curve.key_size // 8
                ip = isk_priv.public_key().public_numbers()
                if blob[off + 12: off + 12 + 2 * ics] != ip.x.to_bytes(ics, "big") + ip.y.to_bytes(ics, "big"):
                    problems.append("ISK public key is not where the ROM reads it")
                if blob[off + 12 + 2 * ics: off + sig_off] != user or bool(iflags >> 31) != bool(user) or iflags & 0xF != (1 if ics == 32 else 2):
                    problems.append(f"ISK user data / flags {iflags:#x} / signature offset {sig_off} do not describe the certificate")
                sig = blob[off + sig_off: off + sig_off + 2 * cs]
                if off + sig_off + 2 * cs != len(blob):
                    problems.append("signature is not the last 2 x coordinate-size bytes")
                try:
                    roots[used].public_key().verify(encode_dss_signature(int.from_bytes(sig[:cs], "big"), int.from_bytes(sig[cs:], "big")),
                                                    blob[12: off + sig_off], ec.ECDSA(hashes.SHA256() if cs == 32 else hashes.SHA384()))
                except InvalidSignature:
                    problems.append("ISK signature does not verify under the announced root key over record || ISK header || ISK key || user data")
                del rec_end
            elif off != len(blob):
                problems.append(f"{len(blob) - off} unexplained bytes after the root key record")
            back = CertBlockV21.parse(blob)
            if back.export() != blob:
                problems.append("parse(export(x)).export() differs from export(x)")
            if back.rkth != exp_rkth:
                problems.append("RoT hash of the parsed block differs")
        except Exception as e:  # pylint: disable=broad-except
            problems.append(f"{type(e).__name__}: {e}")
        if problems and len(fails) < 4:
            fails.append({"inputs": inputs, "detail": "; ".join(problems), "obligation": "cert-block-v21-decoded-by-hand-and-round-trip"})
    return {"name": "certificate block v2.1 decoded by hand, ISK signature verified independently, parse/export round trip",
            "function": "spsdk.utils.crypto.cert_blocks:CertBlockV21.export / parse", "method": "P-256/P-384 roots (1..4, every used index), ISK of either curve or "
            "none, user data 0..96 B, roots as objects or raw bytes; struct + hashlib + cryptography reference", "bound": f"{n} blocks", "cases": n,
            "label": "bounded", "failures": fails}


def _cert_block_v1_round_trip(rnd: Any, tier: str) -> dict:
    """Certificate block v1 with generated RSA certificates (chains of 1..3): decoded by hand, RKTH = SHA-256 of the 4-slot table whatever slot
    the root sits in and whichever chain follows it, fuses are the little-endian words of that hash, parse(export) exports the same bytes."""
    import struct

    from cryptography import x509
    from cryptography.hazmat.primitives.asymmetric import rsa

    from spsdk.crypto.certificate import Certificate, generate_name
    from spsdk.crypto.keys import PrivateKeyRsa
    from spsdk.utils.crypto.cert_blocks import CertBlockV1

    fails: list = []
    n = 0
    keys = [PrivateKeyRsa(rsa.generate_private_key(65537, 2048)) for _ in range(4)]

    def mk(subject: str, issuer: str, subj_key: Any, iss_key: Any, ca: bool) -> Any:
        return Certificate.generate_certificate(generate_name({"COMMON_NAME": subject}), generate_name({"COMMON_NAME": issuer}), subj_key.get_public_key(), iss_key,
                                                serial_number=rnd.randrange(1, 1 << 60), extensions=[x509.BasicConstraints(ca=ca, path_length=None)])

    def rkh(key: Any) -> bytes:
        nums = key.get_public_key().key.public_numbers()
        return hashlib.sha256(nums.n.to_bytes((nums.n.bit_length() + 7) // 8, "big") + nums.e.to_bytes((nums.e.bit_length() + 7) // 8, "big")).digest()

    for _ in range(6 if tier == "quick" else 60):
        n += 1
        chain_len = rnd.randrange(1, 4)
        slot = rnd.randrange(4)
        others = rnd.randrange(0, 4)
        align = rnd.choice([16, 16, 4, 1])
        inputs = {"chain_length": chain_len, "root_slot": slot, "other_root_hashes": others, "alignment": align}
        problems: list = []
        try:
            ck = [keys[0]] + [keys[1 + (i % 3)] for i in range(chain_len - 1)]
            certs = []
            for i in range(chain_len):
                certs.append(mk(f"c{i}", f"c{max(i - 1, 0)}", ck[i], ck[max(i - 1, 0)], ca=i < chain_len - 1))
            blk = CertBlockV1(build_number=rnd.getrandbits(16))
            blk.alignment = align
            table = [bytes(32)] * 4
            for j in range(others):
                idx = (slot + 1 + j) % 4
                if idx == slot:
                    continue
                table[idx] = hashlib.sha256(bytes([j, idx])).digest()
                blk.set_root_key_hash(idx, table[idx])
            table[slot] = rkh(keys[0])
            blk.set_root_key_hash(slot, certs[0])
            for c in certs:
                blk.add_certificate(c)
            blob = blk.export()
            sig, _maj, _min, hlen, _fl, _bn, _il, count, tlen = struct.unpack_from("<4s2H6I", blob, 0)
            if sig != b"cert" or hlen != 32 or count != chain_len:
                problems.append(f"header {sig!r} length {hlen} count {count}")
            off = 32
            for i in range(chain_len):
                (ln,) = struct.unpack_from("<I", blob, off)
                der = blob[off + 4: off + 4 + ln]
                if der != certs[i].export():
                    problems.append(f"certificate {i} is not stored behind its length word")
                off += 4 + ln
            if off - 32 != tlen:
                problems.append(f"certificate table length {tlen} but the table takes {off - 32} bytes")
            if blob[off: off + 128] != b"".join(table):
                problems.append("root key hash table differs from the slots that were set")
            if len(blob) % align or any(blob[off + 128:]):
                problems.append("padding behind the table is not zero up to the alignment")
            exp = hashlib.sha256(b"".join(table)).digest()
            if blk.rkth != exp or blk.rkth_fuses != list(struct.unpack("<8I", exp)):
                problems.append("RKTH / fuse words differ from SHA-256 over the 4-slot table")
            if blk.rkh_index != slot:
                problems.append(f"rkh_index {blk.rkh_index} is not the slot {slot} of the root certificate")
            back = CertBlockV1.parse(blob)
            back.alignment = align
            if back.export() != blob or back.rkth != exp:
                problems.append("parse(export(x)) differs (bytes or RKTH)")
        except Exception as e:  # pylint: disable=broad-except
            problems.append(f"{type(e).__name__}: {e}")
        if problems and len(fails) < 4:
            fails.append({"inputs": inputs, "detail": "; ".join(problems), "obligation": "cert-block-v1-decoded-by-hand-and-round-trip"})
    return {"name": "certificate block v1 decoded by hand and parse/export round trip", "function": "spsdk.utils.crypto.cert_blocks:CertBlockV1.export / parse",
            "method": "generated RSA-2048 certificate chains (1..3), root in every slot, 0..3 other hashes, alignments 16/4/1; struct + hashlib reference",
            "bound": f"{n} blocks", "cases": n, "label": "bounded", "failures": fails}
