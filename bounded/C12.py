"""Bounded stand-ins for C12 (exhaustive over configurations): (1) every register JSON file under spsdk/data satisfies the generic
theorem's precondition; (2) every PFR area of every family: default -> export (fixed size) -> parse -> export identity, and
config -> load -> export, with seeded in-range values written to every writable bit-field (known finding C12-KF1: computed inverse
fields are not established in the reset state)."""
from __future__ import annotations

import glob
import json
import os
import random
from typing import Any


def _bitfields(reg: dict) -> list:
    out = []
    pos = 0
    for bf in reg.get("bitfields", []):
        w = int(str(bf.get("width", 0)), 0)
        off = pos
        pos += w
        if bf.get("name") is None and bf.get("id") is None and "reserved" in str(bf).lower():
            continue
        out.append((bf.get("name") or bf.get("id"), off, w, bf))
    return out


def run(tier: str, seed: int, reg: Any, jobs: int = 16) -> list:
    import spsdk

    rnd = random.Random(seed)
    data_dir = spsdk.SPSDK_DATA_FOLDER
    files = sorted(glob.glob(os.path.join(data_dir, "devices", "*", "*.json")))
    fails = []
    nreg = nbf = 0
    for fp in files:
        try:
            spec = json.load(open(fp))
        except Exception:  # pylint: disable=broad-except
            continue
        groups = spec.get("groups") if isinstance(spec, dict) else None
        if not groups:
            continue
        for g in groups:
            for r in g.get("registers", []):
                nreg += 1
                width = int(str(r.get("reg_width", r.get("width", 32))), 0)
                total = 0
                for (name, off, w, bf) in _bitfields(r):
                    nbf += 1
                    total = max(total, off + w)
                    rv = bf.get("reset_value")
                    if rv is not None:
                        try:
                            v = int(str(rv), 0)
                            if v < 0 or v >= (1 << w):
                                fails.append({"inputs": {"file": os.path.relpath(fp, data_dir), "register": r.get("name"), "bitfield": name},
                                              "detail": f"reset value {rv} does not fit {w} bits", "obligation": "register-file-wf"})
                        except ValueError:
                            pass
                    for en in bf.get("values", []) or []:
                        try:
                            ev = int(str(en.get("value")), 0)
                            if ev < 0 or ev >= (1 << w):
                                fails.append({"inputs": {"file": os.path.relpath(fp, data_dir), "register": r.get("name"), "bitfield": name},
                                              "detail": f"enum value {en.get('value')} does not fit {w} bits", "obligation": "register-file-wf"})
                        except (ValueError, TypeError):
                            pass
                if total > width:
                    fails.append({"inputs": {"file": os.path.relpath(fp, data_dir), "register": r.get("name")},
                                  "detail": f"bit-fields occupy {total} bits of a {width}-bit register", "obligation": "register-file-wf"})
    out = [{"name": "register files of the live database satisfy the generic theorem's precondition", "function": "spsdk/data/devices/*/*.json",
            "method": "complete enumeration of registers / bit-fields / reset and enum values", "bound": f"{len(files)} files, {nreg} registers, {nbf} bit-fields",
            "cases": max(nreg, 1), "exhaustive": True, "label": "bounded", "failures": fails[:5]}]
    # PFR areas
    from spsdk.pfr.pfr import CFPA, CMPA
    from spsdk.utils.database import DatabaseManager, get_families

    fails2 = []
    n = 0
    for fam in get_families(DatabaseManager.PFR):
        for cls in (CMPA, CFPA):
            try:
                area = cls(family=fam)
            except Exception:  # pylint: disable=broad-except
                continue
            n += 1
            try:
                b0 = area.export(draw=False) if "draw" in area.export.__code__.co_varnames else area.export()
                if len(b0) != area.BINARY_SIZE:
                    fails2.append({"inputs": {"family": fam, "area": cls.__name__}, "detail": f"export is {len(b0)} bytes, documented size {area.BINARY_SIZE}",
                                   "obligation": "area-fixed-size"})
                a2 = cls(family=fam)
                a2.parse(b0)
                if a2.export() != b0:
                    fails2.append({"inputs": {"family": fam, "area": cls.__name__}, "detail": "parse(export) re-exports differently", "obligation": "area-parse-export-identity"})
                # seeded in-range values in writable, non-computed bit-fields, then binary -> config -> binary
                a3 = cls(family=fam)
                computed = set()
                for rname, fields in (getattr(a3, "computed_fields", None) or {}).items():
                    computed.add(rname)
                for r in a3.registers.get_registers():
                    if r.uid in computed or r.name in computed or r.has_group_registers():
                        continue
                    for bf in r.get_bitfields():
                        if bf.width <= 32 and rnd.random() < 0.3:
                            try:
                                bf.set_value(rnd.getrandbits(bf.width), raw=True)
                            except Exception:  # pylint: disable=broad-except
                                pass
                b3 = a3.export()
                a4 = cls(family=fam)
                a4.parse(b3)
                cfg = a4.get_config()
                a5 = cls.load_from_config(cfg) if hasattr(cls, "load_from_config") else None
                if a5 is not None:
                    b5 = a5.export()
                    if b5 != b3:
                        diff = [i for i in range(min(len(b3), len(b5))) if b3[i] != b5[i]]
                        hit = [r for r in a4.registers.get_registers() if any(r.offset <= i < r.offset + r.width // 8 for i in diff)]
                        regs_hit = sorted({r.name for r in hit})
                        known = "C12-KF1" if hit and all(r.uid in computed or r.name in computed for r in hit) else None
                        if known or len([f for f in fails2 if not f.get("known_id")]) < 4:
                            fails2.append({"inputs": {"family": fam, "area": cls.__name__, "registers": regs_hit[:6]},
                                           "detail": f"binary -> config -> binary differs in {len(diff)} bytes (registers {regs_hit[:6]})",
                                           "obligation": "area-config-roundtrip", "known_id": known})
            except Exception as e:  # pylint: disable=broad-except
                if len(fails2) < 6:
                    fails2.append({"inputs": {"family": fam, "area": cls.__name__}, "detail": f"{type(e).__name__}: {str(e)[:150]}", "obligation": "area-roundtrip"})
    out.append({"name": "PFR CMPA/CFPA of every family: size, parse/export identity, binary-config-binary with seeded values", "function": "spsdk.pfr.pfr",
                "method": "every family of the live database", "bound": f"{n} areas", "cases": max(n, 1), "exhaustive": True, "label": "bounded", "failures": fails2[:12]})
    out.append(_xmcd(tier))
    out.append(_trustzone(tier, seed))
    return out


def _xmcd(tier: str = "thorough") -> dict:
    """XMCD blocks of every (family, memory, configuration type): the header word, decoded by hand, announces exactly the exported length -
    for the generated template, for a configuration whose size field is wrong, and (where the block has an option-size field) for the
    one-word variant with a stale or omitted size; the area's verifier and parser accept the export and parse->export is the identity."""
    import copy
    import struct

    import yaml

    from spsdk.image.xmcd.xmcd import XMCD

    fails: list = []
    n = 0

    def check(family: str, label: str, cfg: dict) -> Any:
        nonlocal n
        n += 1
        x = XMCD.load_from_config(copy.deepcopy(cfg))
        b = x.export()
        (word,) = struct.unpack_from("<I", b, 0)
        problems = []
        if word >> 28 != 0xC:
            problems.append("tag")
        if word & 0xFFF != len(b):
            problems.append(f"header announces {word & 0xFFF} bytes but the exported block has {len(b)}")
        if x.verify().has_errors:
            problems.append("the area's own verifier rejects the exported object")
        p2 = XMCD.parse(b, family=family)
        if p2.export() != b:
            problems.append("parse -> export is not the identity")
        if problems and len(fails) < 5:
            fails.append({"inputs": {"family": family, "mem_type": cfg.get("mem_type"), "config_type": cfg.get("config_type"), "scenario": label},
                          "detail": "; ".join(problems), "obligation": "xmcd-header-announces-the-exported-length"})
        return b

    seen_kinds: set = set()
    for family in XMCD.get_supported_families():
        for mem_type in XMCD.get_supported_memory_types(family):
            for cfg_type in XMCD.get_supported_configuration_types(family, mem_type):
                if tier == "quick":          # quick: one family per (memory type, configuration type); thorough: every family
                    if (str(mem_type), str(cfg_type)) in seen_kinds:
                        continue
                    seen_kinds.add((str(mem_type), str(cfg_type)))
                try:
                    base = yaml.safe_load(XMCD.generate_config_template(family, mem_type, cfg_type))
                    ref = check(family, "template", base)
                    cfg = copy.deepcopy(base)
                    cfg["xmcd_settings"]["header"]["configurationBlockSize"] = len(ref) + 4
                    check(family, "wrong size in the configuration", cfg)
                    if "optionSize" in base["xmcd_settings"].get("configOption0", {}):
                        cfg = copy.deepcopy(base)
                        cfg["xmcd_settings"]["configOption0"]["optionSize"] = 0
                        check(family, "optionSize=0 with the template's (stale) size", cfg)
                        cfg["xmcd_settings"].pop("configOption1", None)
                        cfg["xmcd_settings"]["header"].pop("configurationBlockSize", None)
                        check(family, "optionSize=0 with the size omitted", cfg)
                except Exception as e:  # pylint: disable=broad-except
                    if len(fails) < 5:
                        fails.append({"inputs": {"family": family, "mem_type": str(mem_type), "config_type": str(cfg_type)}, "detail": f"{type(e).__name__}: {e}",
                                      "obligation": "xmcd-header-announces-the-exported-length"})
    return {"name": "XMCD header size field against the exported block", "function": "spsdk.image.xmcd.xmcd:XMCD.load_from_config/export/parse",
            "method": ("every" if tier != "quick" else "one family per") + " (memory type, configuration type) of the live database; template, wrong size, stale size, omitted size", "bound": f"{n} configurations",
            "cases": max(n, 1), "exhaustive": tier != "quick", "label": "bounded", "failures": fails}


def _trustzone(tier: str, seed: int) -> dict:
    """TrustZone preset blocks of every family in the database: the block is one little-endian word per preset register, in preset order;
    a register takes the configured value whenever one is given - as a number (0 included) or as a string - and the preset otherwise;
    parse(export) exports the same bytes; the generated template loads and exports the pure preset block."""
    import random
    import struct

    from spsdk.image.trustzone import TrustZone
    from spsdk.utils.database import DatabaseManager, get_db
    from spsdk.utils.misc import load_configuration, value_to_int

    rnd = random.Random(seed + 12)
    fams = sorted(TrustZone.get_supported_families())
    if tier == "quick":
        fams = fams[:: max(1, len(fams) // 6)]
    fails: list = []
    n = 0
    for fam in fams:
        try:
            presets = DatabaseManager().db.load_db_cfg_file(get_db(fam, "latest").get_file_path(DatabaseManager.TZ, "reg_spec"))
        except Exception as e:  # pylint: disable=broad-except
            fails.append({"inputs": {"family": fam}, "detail": f"cannot read the preset table: {e}", "obligation": "trustzone-block-is-config-over-presets"})
            continue
        names = list(presets)
        ref = [value_to_int(v) for v in presets.values()]
        for trial in range(4 if tier == "quick" else 12):
            n += 1
            picked = rnd.sample(names, min(len(names), rnd.choice([0, 1, 3, 8])))
            customs: dict = {}
            for name in picked:
                v = rnd.choice([0, 0, 1, 0xFFFFFFFF, rnd.getrandbits(32)])
                customs[name] = rnd.choice([v, v, hex(v), str(v)])
            problems: list = []
            try:
                blob = TrustZone.from_config({"family": fam, "revision": "latest", "trustZonePreset": dict(customs)}).export()
                want = [value_to_int(customs[nm]) if nm in customs else ref[i] for i, nm in enumerate(names)]
                if len(blob) != 4 * len(names) or len(blob) != TrustZone.get_preset_data_size(fam):
                    problems.append(f"block has {len(blob)} bytes for {len(names)} preset registers")
                else:
                    got = list(struct.unpack(f"<{len(names)}I", blob))
                    bad = [(names[i], hex(got[i]), hex(want[i])) for i in range(len(names)) if got[i] != want[i]]
                    if bad:
                        problems.append(f"register words differ from configuration-over-presets (name, exported, expected): {bad[:3]}")
                    if TrustZone.from_binary(fam, blob).export() != blob:
                        problems.append("parse(export) exports differently")
                if trial == 0:
                    tmpl = load_configuration_text(TrustZone.generate_config_template(fam)[f"{fam}_tz"])
                    if TrustZone.from_config(tmpl).export() != struct.pack(f"<{len(ref)}I", *ref):
                        problems.append("the generated template does not export the preset block")
            except Exception as e:  # pylint: disable=broad-except
                problems.append(f"{type(e).__name__}: {e}")
            if problems and len(fails) < 4:
                fails.append({"inputs": {"family": fam, "customizations": {k: customs[k] for k in list(customs)[:4]}}, "detail": "; ".join(problems),
                              "obligation": "trustzone-block-is-config-over-presets"})
    del load_configuration
    return {"name": "TrustZone preset block = configuration over presets, for the families of the database", "function": "spsdk.image.trustzone:TrustZone.from_config/export/from_binary",
            "method": "random subsets of registers customised with 0, all-ones and random words given as numbers or strings; struct reference over the preset table",
            "bound": f"{n} configurations over {len(fams)} families", "cases": n, "label": "bounded", "failures": fails}


def load_configuration_text(text: str) -> dict:
    from ruamel.yaml import YAML

    return dict(YAML(typ="safe").load(text))
