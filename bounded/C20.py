"""Bounded stand-ins for C20 (never counted as proved): string -> number grammar, BCD strings, reverse_bits."""
from __future__ import annotations

import itertools
import multiprocessing as mp
import random
import re
from typing import Any

ALPHABET = "0123456789abcdefxoul_ +-"
_DIG = {2: "01", 8: "01234567", 10: "0123456789", 16: "0123456789abcdef"}


def ref_parse(text: str) -> Any:
    """Independent recogniser/evaluator written from the property statement.
    number := ('0x' H | '0b' B | '0o' O | D) suffix ; X := digit ('_'? digit)* ; suffix := [ul]{0,3}
    surrounding white space is ignored, letters are case-insensitive.  Returns int or None (rejected)."""
    s = text.strip().lower()
    base = 10
    if s[:2] in ("0x", "0b", "0o"):
        base = {"0x": 16, "0b": 2, "0o": 8}[s[:2]]
        s = s[2:]
    n = len(s)
    k = 0
    while k < 3 and n - k > 0 and s[n - k - 1] in "ul":
        k += 1
    # the suffix is the longest run of at most three trailing u/l characters that leaves a valid body
    for cut in range(k, -1, -1):
        body = s[: n - cut]
        if not body:
            continue
        ok = body[0] in _DIG[base] and body[-1] in _DIG[base]
        prev_us = False
        if ok:
            for ch in body:
                if ch == "_":
                    if prev_us:
                        ok = False
                        break
                    prev_us = True
                elif ch in _DIG[base]:
                    prev_us = False
                else:
                    ok = False
                    break
        if ok:
            v = 0
            for ch in body:
                if ch != "_":
                    v = v * base + _DIG[16].index(ch)
            return v
    return None


def _sweep_chunk(job: tuple) -> dict:
    from spsdk.exceptions import SPSDKError
    from spsdk.utils.misc import value_to_int

    first, length = job
    fails = []
    n = 0
    for tail in itertools.product(ALPHABET, repeat=length - 1):
        s = first + "".join(tail)
        n += 1
        exp = ref_parse(s) if s != "" else None
        try:
            got: Any = value_to_int(s)
        except SPSDKError:
            got = None
        except Exception as e:  # pylint: disable=broad-except
            got = f"escaped {type(e).__name__}"
        if got != exp and len(fails) < 3:
            fails.append({"inputs": {"value": s}, "detail": f"value_to_int({s!r}) -> {got!r}, grammar says {exp!r}",
                          "obligation": "value_to_int#str-grammar"})
    return {"n": n, "fails": fails}


def run(tier: str, seed: int, reg: Any, jobs: int = 16) -> list:
    out = []
    maxlen = 4 if tier == "quick" else 5
    tasks = [(c, L) for L in range(1, maxlen + 1) for c in ALPHABET]
    ctx = mp.get_context("fork")
    total, fails = 0, []
    with ctx.Pool(min(jobs, 16)) as pool:
        for r in pool.imap_unordered(_sweep_chunk, tasks, chunksize=1):
            total += r["n"]
            fails.extend(r["fails"])
    out.append({"name": "value_to_int string grammar", "function": "spsdk.utils.misc:value_to_int",
                "method": "exhaustive enumeration against an independent recogniser/evaluator",
                "bound": f"all strings of length 1..{maxlen} over {ALPHABET!r}", "cases": total, "exhaustive": True,
                "label": "bounded", "failures": fails[:5]})
    # seeded long / upper-case strings
    from spsdk.exceptions import SPSDKError
    from spsdk.utils.misc import value_to_int

    rnd = random.Random(seed)
    fails = []
    n = 0
    for _ in range(3000 if tier == "quick" else 100000):
        base = rnd.choice([2, 8, 10, 16])
        v = rnd.getrandbits(rnd.choice([8, 32, 64, 128, 512]))
        body = {2: format(v, "b"), 8: format(v, "o"), 10: str(v), 16: format(v, "x")}[base]
        if rnd.random() < 0.5 and len(body) > 2:
            k = rnd.randrange(1, len(body))
            body = body[:k] + "_" + body[k:]
        s = {2: "0b", 8: "0o", 10: "", 16: "0x"}[base] + body + rnd.choice(["", "u", "l", "ul", "ull", "UL"])
        if rnd.random() < 0.3:
            s = s.upper()
        if rnd.random() < 0.2:
            s = " " + s + " "
        n += 1
        try:
            got: Any = value_to_int(s)
        except SPSDKError:
            got = None
        if got != v and len(fails) < 3:
            fails.append({"inputs": {"value": s}, "detail": f"value_to_int({s!r}) -> {got!r}, expected {v}",
                          "obligation": "value_to_int#str-value"})
    out.append({"name": "value_to_int large values", "function": "spsdk.utils.misc:value_to_int",
                "method": "seeded generation up to 2^512, all bases, underscores, suffixes, case, white space",
                "bound": f"{n} seeded strings", "cases": n, "label": "bounded", "failures": fails})
    # BcdVersion3 string round trip: complete over the 10^4 BCD values of one component (components are independent)
    from spsdk.sbfile.misc import BcdVersion3

    fails = []
    n = 0
    for d in range(10000):
        num = int(str(d), 16)
        n += 1
        for pos in range(3):
            parts = [1, 2, 3]
            parts[pos] = num
            v = BcdVersion3(*parts)
            try:
                got: Any = BcdVersion3.from_str(str(v)).nums
            except Exception as e:  # pylint: disable=broad-except
                got = f"{type(e).__name__}: {e}"
            if got != v.nums and len(fails) < 3:
                fails.append({"inputs": {"version": str(v)}, "detail": f"from_str(str(v)) = {got} != {v.nums}",
                              "obligation": "BcdVersion3#str-roundtrip"})
    # and every non-BCD value in [0, 0xFFFF] + the two out-of-range neighbours is rejected
    for num in list(range(-2, 0x10002)):
        is_bcd = 0 <= num <= 0x9999 and all(((num >> (4 * i)) & 0xF) <= 9 for i in range(4))
        n += 1
        try:
            BcdVersion3(num, 0, 0)
            ok = True
        except SPSDKError:
            ok = False
        if ok != is_bcd and len(fails) < 3:
            fails.append({"inputs": {"major": num}, "detail": f"BcdVersion3({num:#x}) accepted={ok}, bcd={is_bcd}",
                          "obligation": "BcdVersion3#range"})
    out.append({"name": "BcdVersion3 string round trip", "function": "spsdk.sbfile.misc:BcdVersion3.from_str",
                "method": "complete enumeration of BCD values per component; all 16-bit values for acceptance",
                "bound": "10^4 BCD values x 3 positions; integers -2..0x10001", "cases": n, "exhaustive": True,
                "label": "bounded", "failures": fails})
    # reverse_bits: string implementation vs bit definition
    from spsdk.utils.misc import reverse_bits

    fails = []
    n = 0
    for bits in range(1, 13 if tier == "quick" else 17):
        for x in range(1 << bits):
            n += 1
            r = reverse_bits(x, bits)
            exp = sum(((x >> i) & 1) << (bits - 1 - i) for i in range(bits))
            if (r != exp or reverse_bits(r, bits) != x) and len(fails) < 3:
                fails.append({"inputs": {"x": x, "bits_cnt": bits}, "detail": f"reverse_bits -> {r}, expected {exp}",
                              "obligation": "reverse_bits#definition+involution"})
    out.append({"name": "reverse_bits definition and involution", "function": "spsdk.utils.misc:reverse_bits",
                "method": "exhaustive for small widths (string formatting is outside the subset)",
                "bound": f"all x < 2^n for n = 1..{12 if tier == 'quick' else 16}", "cases": n, "exhaustive": True,
                "label": "bounded", "failures": fails})
    return out
