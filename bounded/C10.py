"""Bounded stand-in for C10 (never counted as proved): McuBoot.read_memory against a fake bootloader with fault injection in the
device-to-host stream.  The fake protocol object answers READ_MEMORY from a fixed memory function (the one the contracts call DEVMEM);
faults: a lost data packet, an error status at the end of the data phase, no final response (timeout).  Checked: the call never ends
with status SUCCESS and data that are not exactly the requested device bytes; without a fault it returns them exactly."""
from __future__ import annotations

import random
import struct
from typing import Any


def _mem(addr: int) -> int:
    return (addr * 7 + (addr >> 8) + 3) & 0xFF


def run(tier: str, seed: int, reg: Any, jobs: int = 16) -> list:
    from spsdk.mboot.commands import CmdHeader, CommandTag, GenericResponse, ReadMemoryResponse, ResponseTag
    from spsdk.mboot.error_codes import StatusCode
    from spsdk.mboot.exceptions import McuBootError
    from spsdk.mboot.mcuboot import McuBoot
    from spsdk.utils.interfaces.device.usb_device import UsbDevice

    class FakeIf:
        def __init__(self, usb: bool, fault: str, fault_cmd: int, report: int):
            self.device = object.__new__(UsbDevice) if usb else object()
            self.is_opened = True
            self.queue: list = []
            self.fault, self.fault_cmd, self.report, self.count = fault, fault_cmd, report, 0
            self.requests: list = []

        def write_command(self, packet: Any) -> None:
            addr, ln = packet.params[0], packet.params[1]
            self.requests.append((addr, ln))
            self.count += 1
            hit = self.fault != "none" and self.count == self.fault_cmd
            self.queue.append(ReadMemoryResponse(CmdHeader(ResponseTag.READ_MEMORY.tag, 0, 0, 2), struct.pack("<2I", 0, ln)))
            data = bytes(_mem(addr + k) for k in range(ln))
            packets = [data[i: i + self.report] for i in range(0, len(data), self.report)]
            if hit and self.fault == "lost-packet" and packets:
                del packets[len(packets) // 2]
            if hit and self.fault == "error-status":
                packets = packets[: len(packets) // 2]
            self.queue.extend(packets)
            if hit and self.fault == "timeout":
                self.queue.append(TimeoutError())
                return
            status = 10100 if hit and self.fault == "error-status" else 0
            self.queue.append(GenericResponse(CmdHeader(ResponseTag.GENERIC.tag, 0, 0, 2), struct.pack("<2I", status, CommandTag.READ_MEMORY.tag)))

        def read(self, length: Any = None) -> Any:
            if not self.queue:
                raise TimeoutError()
            r = self.queue.pop(0)
            if isinstance(r, Exception):
                raise r
            return r

    rnd = random.Random(seed)
    fails: list = []
    n = 0
    for _ in range(400 if tier == "quick" else 6000):
        ps = rnd.choice([32, 56, 1016])
        length = rnd.choice([1, ps - 1, ps, ps + 1, 2 * ps, 2 * ps + 5, 3 * ps + 1, rnd.randrange(1, 4000)])
        usb = rnd.random() < 0.6
        fault = rnd.choice(["none", "none", "lost-packet", "error-status", "timeout"])
        exc_mode = rnd.random() < 0.3
        addr = rnd.choice([0, 0x20000000, rnd.getrandbits(31)])
        n_cmds = (length + ps - 1) // ps if usb else 1
        iface = FakeIf(usb, fault, rnd.randrange(1, n_cmds + 1), 32)
        mb = object.__new__(McuBoot)
        mb._interface, mb.max_packet_size, mb._status_code, mb._cmd_exception, mb.reopen = iface, ps, 0, exc_mode, False
        n += 1
        exp = bytes(_mem(addr + k) for k in range(length))
        try:
            got = mb.read_memory(addr, length)
            raised = None
        except McuBootError as e:
            got, raised = None, e
        except Exception as e:  # pylint: disable=broad-except
            fails.append({"inputs": {"fault": fault, "usb": usb, "length": length, "packet": ps}, "detail": f"undocumented {type(e).__name__}: {e}",
                          "obligation": "read-memory-under-fault-injection"})
            continue
        problem, known = None, None
        if fault == "none":
            if raised is not None or got != exp or mb.status_code != StatusCode.SUCCESS:
                problem = f"no fault injected but got {None if got is None else len(got)} bytes (equal: {got == exp}), status {mb.status_code}, raised {raised!r}"
        elif raised is None and mb.status_code == StatusCode.SUCCESS and got != exp:
            problem = (f"fault '{fault}' in command {iface.fault_cmd}: the call ends with status SUCCESS but returns "
                       f"{None if got is None else len(got)} of {length} bytes / wrong bytes")
            if fault == "lost-packet" and not exc_mode:
                known = "C10-KF1"
        if problem and (known is None or not any(f.get("known_id") for f in fails)) and len([f for f in fails if not f.get("known_id")]) < 4:
            fails.append({"inputs": {"fault": fault, "usb_hid_chunked": usb, "cmd_exception": exc_mode, "address": hex(addr), "length": length, "max_packet": ps,
                                     "faulty_command": iface.fault_cmd}, "detail": problem, "obligation": "read-memory-under-fault-injection", "known_id": known})
    return [{"name": "read_memory against a fake bootloader with fault injection", "function": "spsdk.mboot.mcuboot:McuBoot.read_memory",
             "method": "seeded sweep: lengths around the packet size, USB-HID chunked and single-command paths, faults {none, lost data packet, error status in "
                       "the data phase, timeout} at a random command, cmd_exception on/off", "bound": f"{n} calls", "cases": n, "label": "bounded", "failures": fails}]
