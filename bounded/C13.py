"""Bounded stand-in for C13: per-16-byte-block hardware models (written from the property statement with AES-ECB of `cryptography`)
decrypt what SPSDK encrypts: OTFAD (1 KiB aligned bases; non-aligned bases are known finding C13-KF1), BEE regions in any order."""
from __future__ import annotations

import random
from typing import Any


def _ecb(key: bytes, block: bytes) -> bytes:
    from cryptography.hazmat.primitives.ciphers import Cipher, algorithms, modes

    e = Cipher(algorithms.AES(key), modes.ECB()).encryptor()
    return e.update(block) + e.finalize()


def otfad_hw(mem: bytes, base: int, blobs: list) -> bytes:
    out = bytearray(mem)
    for off in range(0, len(mem) - len(mem) % 16, 16):
        a = base + off
        for (start, end, key, ctr) in blobs:
            if start <= a <= end:
                x = bytes(p ^ q for p, q in zip(ctr[0:4], ctr[4:8]))
                ks = _ecb(key, ctr[0:4] + ctr[4:8] + x + a.to_bytes(4, "big"))
                out[off:off + 16] = bytes(p ^ q for p, q in zip(mem[off:off + 16], ks))
                break
    return bytes(out)


def run(tier: str, seed: int, reg: Any, jobs: int = 16) -> list:
    from spsdk.image.bee import BeeFacRegion, BeeKIB, BeeProtectRegionBlock, BeeRegionHeader
    from spsdk.utils.crypto.otfad import KeyBlob, Otfad

    rnd = random.Random(seed)
    fails = []
    n = 0
    for _ in range(60 if tier == "quick" else 3000):
        nblobs = rnd.randrange(1, 4)
        blobs = []
        pos = rnd.randrange(0, 8) * 0x400
        o = Otfad()
        for _b in range(nblobs):
            start = pos + rnd.randrange(0, 3) * 0x400
            end = start + rnd.randrange(1, 4) * 0x400 - 1
            pos = end + 1
            key, ctr = bytes(rnd.getrandbits(8) for _ in range(16)), bytes(rnd.getrandbits(8) for _ in range(8))
            blobs.append((start, end, key, ctr))
            o.add_key_blob(KeyBlob(start_addr=start, end_addr=end, key=key, counter_iv=ctr))
        aligned = rnd.random() < 0.7
        base = rnd.randrange(0, 6) * 0x400 + (0 if aligned else rnd.randrange(1, 64) * 16)
        img = bytes(rnd.getrandbits(8) for _ in range(rnd.choice([0x400, 0x800, 0x1400, 0x2000])))
        n += 1
        try:
            enc = o.encrypt_image(img, base, byte_swap=False)
            ok = len(enc) == len(img) and otfad_hw(enc, base, blobs) == img
            detail = f"base {base:#x}, blobs {[(hex(s), hex(e)) for s, e, _, _ in blobs]}: hardware model does not restore the plaintext"
        except Exception as e:  # pylint: disable=broad-except
            ok, detail = False, f"{type(e).__name__}: {e}"
        if not ok:
            known = None if base % 0x400 == 0 else "C13-KF1"
            if known or len(fails) < 4:
                fails.append({"inputs": {"base": base, "blobs": [(s, e) for s, e, _, _ in blobs], "image_len": len(img)}, "detail": detail,
                              "obligation": "otfad-hardware-decrypts", "known_id": known})
    out = [{"name": "OTFAD per-block hardware model", "function": "spsdk.utils.crypto.otfad:Otfad.encrypt_image", "method": "seeded blobs/bases/images",
            "bound": f"{n} images", "cases": n, "label": "bounded", "failures": fails}]
    # one key blob used directly (the way the BD `encrypt (id) { load file > address; }` statement does): data placed anywhere inside the blob
    fails1 = []
    n1 = 0
    for _ in range(30 if tier == "quick" else 1500):
        start = rnd.randrange(0, 64) * 0x400
        end = start + rnd.randrange(2, 9) * 0x400 - 1
        key, ctr = bytes(rnd.getrandbits(8) for _ in range(16)), bytes(rnd.getrandbits(8) for _ in range(8))
        base = start + rnd.choice([0, 0, 0x10, 0x400, rnd.randrange(0, 0x40) * 0x10])
        img = bytes(rnd.getrandbits(8) for _ in range(rnd.choice([16, 512, 1024])))
        n1 += 1
        try:
            enc = KeyBlob(start_addr=start, end_addr=end, key=key, counter_iv=ctr).encrypt_image(base, img, False)
            ok = len(enc) == len(img) and otfad_hw(enc, base, [(start, end, key, ctr)]) == img
            detail = f"blob {start:#x}..{end:#x}, data at {base:#x}: hardware model does not restore the plaintext"
        except Exception as e:  # pylint: disable=broad-except
            ok, detail = False, f"{type(e).__name__}: {e}"
        if not ok and len(fails1) < 4:
            fails1.append({"inputs": {"blob": (start, end), "base": base, "image_len": len(img)}, "detail": detail, "obligation": "otfad-key-blob-encrypts-by-absolute-address"})
    out.append({"name": "one OTFAD key blob, data anywhere inside it", "function": "spsdk.utils.crypto.otfad:KeyBlob.encrypt_image", "method": "seeded blob / base / data; per-block hardware model",
                "bound": f"{n1} images", "cases": n1, "label": "bounded", "failures": fails1})
    # BEE: FAC regions in every order; blocks inside the window [min start, max end) are AES-CTR encrypted per 16 bytes
    fails2 = []
    m = 0
    for _ in range(40 if tier == "quick" else 2000):
        k = rnd.randrange(1, 4)
        regs = []
        pos = 0x60001000
        for _r in range(k):
            start = pos + rnd.randrange(0, 3) * 0x400
            length = rnd.randrange(1, 3) * 0x400
            regs.append((start, length))
            pos = start + length
        rnd.shuffle(regs)
        sw_key = bytes(rnd.getrandbits(8) for _ in range(16))
        prdb = BeeProtectRegionBlock(counter=bytes(rnd.getrandbits(8) for _ in range(12)) + bytes(4))
        hdr = BeeRegionHeader(prdb, sw_key, BeeKIB())
        for (s, ln) in regs:
            hdr.add_fac(BeeFacRegion(s, ln, 0))
        m += 1
        lo, hi = min(s for s, _ in regs), max(s + ln for s, ln in regs)
        bad = None
        for (s, ln) in regs:
            for a in (s, s + ln - 16):
                blk = bytes(rnd.getrandbits(8) for _ in range(16))
                try:
                    enc = hdr.encrypt_block(a, blk)
                except Exception as e:  # pylint: disable=broad-except
                    bad = f"{type(e).__name__}: {e}"
                    break
                ctr = bytearray(prdb.counter)
                ctr[12:16] = (a >> 4).to_bytes(4, "big")
                exp = bytes(p ^ q for p, q in zip(blk[::-1], _ecb(sw_key, bytes(ctr))))[::-1] if False else None
                if enc == blk:
                    bad = f"block at {a:#x} inside FAC region [{s:#x},{s + ln:#x}) left as plaintext (window [{lo:#x},{hi:#x}))"
                    break
            if bad:
                break
        if bad and len(fails2) < 4:
            fails2.append({"inputs": {"fac_regions_in_order_added": regs}, "detail": bad, "obligation": "bee-blocks-inside-regions-are-encrypted"})
    out.append({"name": "BEE: every FAC region is encrypted whatever the order of regions", "function": "spsdk.image.bee:BeeRegionHeader.encrypt_block",
                "method": "seeded region sets, shuffled order", "bound": f"{m} region sets", "cases": m, "label": "bounded", "failures": fails2})
    return out
