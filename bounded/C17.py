"""Bounded stand-ins for C17: (1) definition-time randomness scan — the anchored modules are imported in two fresh interpreters and
every bytes value reachable from module globals, class attributes and default arguments is compared: a value that differs between the
two runs was drawn at import / definition time and is shared by every artifact of one interpreter; (2) two artifacts of each kind built
in one interpreter must not share an invented secret."""
from __future__ import annotations

import json
import os
import subprocess
import sys
from typing import Any

MODULES = ["spsdk.sbfile.sb2.images", "spsdk.image.mbi.mbi_mixin", "spsdk.image.mbi.mbi", "spsdk.utils.crypto.otfad", "spsdk.utils.crypto.iee",
           "spsdk.image.bee", "spsdk.image.hab.segments", "spsdk.utils.misc", "spsdk.sbfile.sb2.headers", "spsdk.sbfile.sb2.sections"]

_DUMP = r'''
import sys, json, inspect, importlib, logging
logging.disable(logging.CRITICAL)
out = {}
seen = set()
def walk(path, v, depth=0):
    if id(v) in seen or depth > 5: return
    if isinstance(v, (bytes, bytearray)):
        if len(v) >= 8: out[path] = bytes(v).hex()
        return
    if isinstance(v, (str, int, float, type(None), bool)): return
    seen.add(id(v))
    if isinstance(v, dict):
        for k, x in list(v.items())[:200]: walk(f"{path}[{k!r}]", x, depth + 1)
    elif isinstance(v, (list, tuple, set, frozenset)):
        for i, x in enumerate(list(v)[:200]): walk(f"{path}[{i}]", x, depth + 1)
    elif inspect.isfunction(v):
        for i, d in enumerate(v.__defaults__ or ()): walk(f"{path}.__defaults__[{i}]", d, depth + 1)
        for k, d in (v.__kwdefaults__ or {}).items(): walk(f"{path}.__kwdefaults__[{k}]", d, depth + 1)
    elif inspect.isclass(v):
        if (v.__module__ or "").startswith("spsdk"):
            for k, x in list(vars(v).items()):
                if isinstance(x, (staticmethod, classmethod)): x = x.__func__
                if isinstance(x, property): continue
                walk(f"{path}.{k}", x, depth + 1)
    elif (type(v).__module__ or "").startswith("spsdk") and hasattr(v, "__dict__"):
        for k, x in vars(v).items(): walk(f"{path}.{k}", x, depth + 1)
for m in sys.argv[1:]:
    mod = importlib.import_module(m)
    for k, v in list(vars(mod).items()):
        if getattr(v, "__module__", m) == m or not (inspect.isclass(v) or inspect.isfunction(v)):
            walk(f"{m}:{k}", v)
print(json.dumps(out))
'''


def _dump(repo: str) -> dict:
    env = dict(os.environ, PYTHONPATH=repo)
    r = subprocess.run([sys.executable, "-c", _DUMP] + MODULES, capture_output=True, text=True, env=env, timeout=300)
    line = [ln for ln in r.stdout.splitlines() if ln.startswith("{")]
    if not line:
        raise RuntimeError("dump failed: " + r.stderr[-300:])
    return json.loads(line[-1])


def run(tier: str, seed: int, reg: Any, jobs: int = 16) -> list:
    repo = os.environ.get("VF_REPO", "/repo")
    a, b = _dump(repo), _dump(repo)
    fails = []
    for k in sorted(set(a) & set(b)):
        if a[k] != b[k]:
            fails.append({"inputs": {"where": k}, "detail": f"{k} holds {len(a[k]) // 2} bytes that differ between two interpreter starts: "
                          "drawn at import/definition time, shared by every artifact built in one interpreter", "obligation": "definition-time-randomness"})
    out = [{"name": "definition-time randomness scan", "function": ", ".join(MODULES), "method": "two fresh interpreters; compare every bytes value "
            "reachable from module globals, class attributes and default arguments", "bound": f"{len(a)} reachable byte strings (complete for these modules)",
            "cases": len(a), "exhaustive": True, "label": "bounded", "failures": fails[:5]}]
    # two artifacts in one interpreter
    from spsdk.image.bee import BeeKIB, BeeProtectRegionBlock, BeeRegionHeader
    from spsdk.image.mbi.mbi import create_mbi_class
    from spsdk.sbfile.sb2.images import BootImageV20, BootImageV21, SBV2xAdvancedParams
    from spsdk.utils.crypto.otfad import KeyBlob
    from spsdk.utils.crypto.iee import IeeKeyBlob, IeeKeyBlobAttribute, IeeKeyBlobLockAttributes, IeeKeyBlobKeyAttributes, IeeKeyBlobModeAttributes

    fails2 = []
    n = 0

    def pair(name: str, mk: Any, fields: list) -> None:
        nonlocal n
        x, y = mk(), mk()
        for fld in fields:
            n += 1
            vx, vy = fld(x), fld(y)
            if vx == vy:
                fails2.append({"inputs": {"artifact": name}, "detail": f"two {name} objects built without explicit secrets share {vx.hex() if isinstance(vx, bytes) else vx!r}",
                               "obligation": f"fresh-per-artifact:{name}"})

    pair("BootImageV21", lambda: BootImageV21(kek=bytes(32)), [lambda o: o.dek, lambda o: o.mac, lambda o: o._header.nonce])
    pair("BootImageV20", lambda: BootImageV20(False, kek=bytes(32)), [lambda o: o.dek, lambda o: o.mac, lambda o: o._header.nonce])
    pair("SBV2xAdvancedParams", SBV2xAdvancedParams, [lambda o: o.dek, lambda o: o.mac, lambda o: o.nonce, lambda o: o.padding])
    pair("OTFAD KeyBlob", lambda: KeyBlob(0x400, 0x7FF), [lambda o: o.key, lambda o: o.ctr_init_vector])
    pair("BeeKIB", BeeKIB, [lambda o: o.kib_key, lambda o: o.kib_iv])
    pair("BeeProtectRegionBlock", BeeProtectRegionBlock, [lambda o: o.counter])
    pair("BeeRegionHeader", BeeRegionHeader, [lambda o: o._sw_key])
    try:
        cls_a, cls_b = create_mbi_class("encrypted_signed_ram", "rt5xx"), create_mbi_class("encrypted_signed_ram", "rt6xx")
        n += 2
        ivs = [cls_a().ctr_init_vector, cls_a().ctr_init_vector, cls_b().ctr_init_vector]
        if len(set(ivs)) != 3:
            fails2.append({"inputs": {"artifact": "encrypted MBI"}, "detail": "encrypted MBI objects built without CtrInitVector share the AES-CTR IV "
                           + ivs[0].hex(), "obligation": "fresh-per-artifact:mbi-ctr-iv"})
    except Exception as e:  # pylint: disable=broad-except
        fails2.append({"inputs": {"artifact": "encrypted MBI"}, "detail": f"{type(e).__name__}: {e}", "obligation": "fresh-per-artifact:mbi-ctr-iv"})
    try:
        attr = IeeKeyBlobAttribute(IeeKeyBlobLockAttributes.UNLOCK, IeeKeyBlobKeyAttributes.CTR128XTS256, IeeKeyBlobModeAttributes.AesXTS)
        pair("IeeKeyBlob", lambda: IeeKeyBlob(attr, 0x1000, 0x1FFF), [lambda o: o.key1, lambda o: o.key2])
    except Exception as e:  # pylint: disable=broad-except
        fails2.append({"inputs": {"artifact": "IeeKeyBlob"}, "detail": f"{type(e).__name__}: {e}", "obligation": "fresh-per-artifact:iee"})
    out.append({"name": "two artifacts in one interpreter", "function": "public constructors", "method": "build each artifact kind twice without "
                "explicit secrets, compare the invented fields", "bound": f"{n} field comparisons", "cases": n, "label": "bounded", "failures": fails2[:6]})
    return out
