"""Bounded stand-in for C14 (exhaustive over configurations): every (family, memory type) layout of the live database — static offsets
strictly increasing, first segment static, alignments positive (the data obligations the deductive theorem assumes) — and, for families
that can be built from raw payloads, merge -> each payload at its prescribed offset -> parse recovers the bytes."""
from __future__ import annotations

from typing import Any


def run(tier: str, seed: int, reg: Any, jobs: int = 16) -> list:
    from spsdk.image.bootable_image.bimg import BootableImage
    from spsdk.utils.database import DatabaseManager, get_db, get_families

    fails = []
    n = 0
    seen = set()
    for fam in get_families(DatabaseManager.BOOTABLE_IMAGE):
        try:
            mems = BootableImage.get_supported_memory_types(fam)
        except Exception:  # pylint: disable=broad-except
            continue
        for mem in mems:
            try:
                bi = BootableImage(fam, mem)
            except Exception as e:  # pylint: disable=broad-except
                continue
            layout = tuple((type(s).__name__, s.full_image_offset, s.OFFSET_ALIGNMENT) for s in bi._segments)
            n += 1
            if layout in seen:
                continue
            seen.add(layout)
            problems = []
            if not bi._segments or bi._segments[0].full_image_offset < 0:
                problems.append("first segment is not static")
            statics = [s.full_image_offset for s in bi._segments if s.full_image_offset >= 0]
            if statics != sorted(set(statics)):
                problems.append(f"static offsets not strictly increasing: {statics}")
            if any(s.OFFSET_ALIGNMENT <= 0 for s in bi._segments):
                problems.append("non-positive alignment")
            if problems and len(fails) < 5:
                fails.append({"inputs": {"family": fam, "memory": str(mem)}, "detail": "; ".join(problems), "obligation": "layout-data-obligations"})
    # ---- fixed-size segments: parse_binary of (payload of SIZE bytes || following bytes) recovers exactly the payload ------------------
    import random
    import struct

    from spsdk.exceptions import SPSDKError

    rnd = random.Random(seed)
    fails2, n2, skipped = [], 0, 0
    seen_seg = set()
    for fam in get_families(DatabaseManager.BOOTABLE_IMAGE):
        try:
            mems = BootableImage.get_supported_memory_types(fam)
        except Exception:  # pylint: disable=broad-except
            continue
        for mem in mems:
            try:
                bi = BootableImage(fam, mem)
            except Exception:  # pylint: disable=broad-except
                continue
            for seg in bi._segments:
                size = getattr(seg, "SIZE", -1)
                key = (type(seg).__name__, size, fam if type(seg).__name__.startswith("SegmentFcb") else "")
                if not isinstance(size, int) or size <= 0 or key in seen_seg:
                    continue
                seen_seg.add(key)
                payloads = [bytes(rnd.getrandbits(8) | 1 for _ in range(size))]
                if type(seg).__name__.startswith("SegmentFcb"):
                    fcb = bytearray(rnd.getrandbits(8) for _ in range(size))
                    fcb[0:4] = b"FCFB"
                    struct.pack_into("<I", fcb, 4, 0x56010400)
                    fcb[8:0x40] = bytes(0x38)
                    fcb[-1] = 0xA5     # the last byte of the block must come back too
                    payloads.append(bytes(fcb))
                for payload in payloads:
                    n2 += 1
                    try:
                        seg.clear()
                        seg.parse_binary(payload + bytes(rnd.getrandbits(8) for _ in range(64)))
                        back = seg.export()
                    except SPSDKError:
                        skipped += 1
                        continue
                    except Exception as e:  # pylint: disable=broad-except
                        back = f"{type(e).__name__}: {e}".encode()
                    if back != payload and len(fails2) < 5:
                        fails2.append({"inputs": {"family": fam, "memory": str(mem), "segment": type(seg).__name__, "size": size,
                                                  "payload": payload.hex()[:64] + "..."},
                                       "detail": f"{type(seg).__name__}.parse_binary kept {len(back)} bytes of a {size}-byte segment"
                                                 + ("" if len(back) != size else " (content differs)"),
                                       "obligation": "fixed-size-segment-comes-back-whole"})
    return [{"name": "fixed-size segments come back whole from parse_binary", "function": "spsdk.image.bootable_image.segments:Segment*.parse_binary",
             "method": "every fixed-size segment class of every (family, memory) layout: random payload and, for FCB classes, a payload with the FCB tag",
             "bound": f"{n2} (segment class, payload) cases, {skipped} rejected by the parser", "cases": max(n2, 1), "label": "bounded", "failures": fails2},
            {"name": "segment layouts of the live database", "function": "spsdk/data/devices/*/database.yaml (bootable_image)",
             "method": "every (family, memory type); distinct layouts checked for the data obligations of the placement theorem",
             "bound": f"{n} (family, memory) pairs, {len(seen)} distinct layouts", "cases": max(n, 1), "exhaustive": True, "label": "bounded", "failures": fails}]
