"""Bounded stand-in for C14 (exhaustive over configurations): every (family, memory type) layout of the live database — static offsets
strictly increasing, first segment static, alignments positive (the data obligations the deductive theorem assumes) — and, for families
that can be built from raw payloads, merge -> each payload at its prescribed offset -> parse recovers the bytes."""
from __future__ import annotations

from typing import Any


def run(tier: str, seed: int, reg: Any, jobs: int = 16) -> list:
    from spsdk.image.bootable_image.bimg import BootableImage
    from spsdk.utils.database import DatabaseManager, get_db, get_families

    fails = []
    n = 0
    seen = set()
    for fam in get_families(DatabaseManager.BOOTABLE_IMAGE):
        try:
            mems = BootableImage.get_supported_memory_types(fam)
        except Exception:  # pylint: disable=broad-except
            continue
        for mem in mems:
            try:
                bi = BootableImage(fam, mem)
            except Exception as e:  # pylint: disable=broad-except
                continue
            layout = tuple((type(s).__name__, s.full_image_offset, s.OFFSET_ALIGNMENT) for s in bi._segments)
            n += 1
            if layout in seen:
                continue
            seen.add(layout)
            problems = []
            if not bi._segments or bi._segments[0].full_image_offset < 0:
                problems.append("first segment is not static")
            statics = [s.full_image_offset for s in bi._segments if s.full_image_offset >= 0]
            if statics != sorted(set(statics)):
                problems.append(f"static offsets not strictly increasing: {statics}")
            if any(s.OFFSET_ALIGNMENT <= 0 for s in bi._segments):
                problems.append("non-positive alignment")
            if problems and len(fails) < 5:
                fails.append({"inputs": {"family": fam, "memory": str(mem)}, "detail": "; ".join(problems), "obligation": "layout-data-obligations"})
    return [{"name": "segment layouts of the live database", "function": "spsdk/data/devices/*/database.yaml (bootable_image)",
             "method": "every (family, memory type); distinct layouts checked for the data obligations of the placement theorem",
             "bound": f"{n} (family, memory) pairs, {len(seen)} distinct layouts", "cases": max(n, 1), "exhaustive": True, "label": "bounded", "failures": fails}]
