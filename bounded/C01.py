"""Bounded stand-in for C01: for every (family, MBI image type) in the live database whose class can be built from a generic payload
without keys, export -> header words decoded by hand -> parse -> re-export (exhaustive over configurations at fixed option values)."""
from __future__ import annotations

import random
from struct import unpack_from
from typing import Any


def run(tier: str, seed: int, reg: Any, jobs: int = 16) -> list:
    from spsdk.image.mbi.mbi import MasterBootImage, create_mbi_class, get_all_mbi_classes
    from spsdk.image.mbi.mbi_mixin import Mbi_MixinIvt
    from spsdk.image.trustzone import TrustZone
    from spsdk.utils.database import DatabaseManager, get_db, get_families

    rnd = random.Random(seed)
    fails = []
    n = built = 0
    seen = set()
    for fam in get_families(DatabaseManager.MBI):
        db = get_db(fam)
        classes = db.get_dict(DatabaseManager.MBI, "mbi_classes")
        for name, descr in classes.items():
            key = (tuple(descr["mixins"]), descr["image_type"])
            if key in seen and tier == "quick":
                continue
            seen.add(key)
            n += 1
            try:
                cls = create_mbi_class(name, fam)
                app = bytes(rnd.getrandbits(8) for _ in range(rnd.choice([0x400, 0x404, 0x1000, 0x1010])))
                kw: dict = {"app": app}
                mix = descr["mixins"]
                if "Mbi_MixinLoadAddress" in mix:
                    kw["load_address"] = rnd.choice([0, 0x20000000, 0xFFFFFFF0])
                if any("TrustZone" in m for m in mix):
                    kw["trust_zone"] = TrustZone.disabled() if "Mbi_MixinTrustZoneMandatory" not in mix else TrustZone.enabled()
                if any(k in " ".join(mix) for k in ("CertBlock", "Hmac", "KeyStore", "Manifest", "Ahab", "Bca", "Fcf", "EccSign", "RsaSign", "Vx")):
                    continue  # needs keys / device-specific blocks: covered by the repository's own golden files, not here
                if "Mbi_MixinImageSubType" in mix:
                    kw["image_subtype"] = 0
                if "Mbi_MixinImageVersion" in mix or "Mbi_MixinFwVersion" in mix:
                    kw["image_version" if "Mbi_MixinImageVersion" in mix else "firmware_version"] = rnd.choice([0, 1, 0xFFFF])
                mbi = cls(**kw)
                mbi.family = fam
                data = mbi.export()
                built += 1
                total, flags, crc_off, load = unpack_from("<3I", data, 0x20) + unpack_from("<I", data, 0x34)
                problems = []
                if total not in (0, len(data)):
                    problems.append(f"total length word {total} vs {len(data)} bytes emitted")
                if flags & 0x3F != cls.IMAGE_TYPE[0]:
                    problems.append(f"image type bits {flags & 0x3F} vs {cls.IMAGE_TYPE[0]}")
                if "load_address" in kw and load != kw["load_address"]:
                    problems.append(f"load address word {load:#x} vs {kw['load_address']:#x}")
                back = MasterBootImage.parse(fam, data)
                if back.app[: len(app)] != Mbi_MixinIvt.clean_ivt(mbi, app)[: len(app)] and back.app[: len(app)] != app:
                    problems.append("application payload differs after parse")
                known_id = None
                if back.export() != data:
                    # known finding C01-KF1: parse() selects the class by image-type code only; where a family has two classes with
                    # the same code (load-to-RAM vs XIP with zeroed total length) a RAM image is parsed as the XIP class
                    if type(back).__name__ != name and type(back).IMAGE_TYPE == cls.IMAGE_TYPE and not problems:
                        known_id = "C01-KF1"
                    problems.append(f"re-export differs (parsed as class {type(back).__name__})")
                if problems and (len(fails) < 5 or known_id):
                    fails.append({"inputs": {"family": fam, "image": name}, "detail": "; ".join(problems), "obligation": "export-parse-reexport",
                                  "known_id": known_id})
            except Exception as e:  # pylint: disable=broad-except
                if len(fails) < 5 and type(e).__name__ not in ("SPSDKUnsupportedImageType",):
                    fails.append({"inputs": {"family": fam, "image": name}, "detail": f"{type(e).__name__}: {e}", "obligation": "export-parse-reexport"})
    return [{"name": "key-less MBI compositions: export / header decode / parse / re-export", "function": "spsdk.image.mbi.mbi:MasterBootImage",
             "method": "every distinct (mixin list, image type) in the live database that needs no keys", "bound": f"{built} built of {n} compositions",
             "cases": max(built, 1), "label": "bounded", "failures": fails}]
