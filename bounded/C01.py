"""Bounded stand-in for C01: for every (family, MBI image type) in the live database whose class can be built from a generic payload
without keys, export -> header words decoded by hand -> parse -> re-export (exhaustive over configurations at fixed option values)."""
from __future__ import annotations

import random
from struct import unpack_from
from typing import Any


def run(tier: str, seed: int, reg: Any, jobs: int = 16) -> list:
    from spsdk.image.mbi.mbi import MasterBootImage, create_mbi_class, get_all_mbi_classes
    from spsdk.image.mbi.mbi_mixin import Mbi_MixinIvt
    from spsdk.image.trustzone import TrustZone
    from spsdk.utils.database import DatabaseManager, get_db, get_families

    rnd = random.Random(seed)
    fails = []
    n = built = 0
    seen = set()
    for fam in get_families(DatabaseManager.MBI):
        db = get_db(fam)
        classes = db.get_dict(DatabaseManager.MBI, "mbi_classes")
        for name, descr in classes.items():
            key = (tuple(descr["mixins"]), descr["image_type"])
            if key in seen and tier == "quick":
                continue
            seen.add(key)
            n += 1
            try:
                cls = create_mbi_class(name, fam)
                app = bytes(rnd.getrandbits(8) for _ in range(rnd.choice([0x400, 0x404, 0x1000, 0x1010])))
                kw: dict = {"app": app}
                mix = descr["mixins"]
                if "Mbi_MixinLoadAddress" in mix:
                    kw["load_address"] = rnd.choice([0, 0x20000000, 0xFFFFFFF0])
                if any("TrustZone" in m for m in mix):
                    kw["trust_zone"] = TrustZone.disabled() if "Mbi_MixinTrustZoneMandatory" not in mix else TrustZone.enabled()
                if any(k in " ".join(mix) for k in ("CertBlock", "Hmac", "KeyStore", "Manifest", "Ahab", "Bca", "Fcf", "EccSign", "RsaSign", "Vx")):
                    continue  # needs keys / device-specific blocks: covered by the repository's own golden files, not here
                if "Mbi_MixinImageSubType" in mix:
                    kw["image_subtype"] = 0
                if "Mbi_MixinImageVersion" in mix or "Mbi_MixinFwVersion" in mix:
                    kw["image_version" if "Mbi_MixinImageVersion" in mix else "firmware_version"] = rnd.choice([0, 1, 0xFFFF])
                mbi = cls(**kw)
                mbi.family = fam
                data = mbi.export()
                built += 1
                total, flags, crc_off, load = unpack_from("<3I", data, 0x20) + unpack_from("<I", data, 0x34)
                problems = []
                if total not in (0, len(data)):
                    problems.append(f"total length word {total} vs {len(data)} bytes emitted")
                if flags & 0x3F != cls.IMAGE_TYPE[0]:
                    problems.append(f"image type bits {flags & 0x3F} vs {cls.IMAGE_TYPE[0]}")
                if "load_address" in kw and load != kw["load_address"]:
                    problems.append(f"load address word {load:#x} vs {kw['load_address']:#x}")
                back = MasterBootImage.parse(fam, data)
                if back.app[: len(app)] != Mbi_MixinIvt.clean_ivt(mbi, app)[: len(app)] and back.app[: len(app)] != app:
                    problems.append("application payload differs after parse")
                known_id = None
                if back.export() != data:
                    # known finding C01-KF1: parse() selects the class by image-type code only; where a family has two classes with
                    # the same code (load-to-RAM vs XIP with zeroed total length) a RAM image is parsed as the XIP class
                    if type(back).__name__ != name and type(back).IMAGE_TYPE == cls.IMAGE_TYPE and not problems:
                        known_id = "C01-KF1"
                    problems.append(f"re-export differs (parsed as class {type(back).__name__})")
                if problems and (len(fails) < 5 or known_id):
                    fails.append({"inputs": {"family": fam, "image": name}, "detail": "; ".join(problems), "obligation": "export-parse-reexport",
                                  "known_id": known_id})
            except Exception as e:  # pylint: disable=broad-except
                if len(fails) < 5 and type(e).__name__ not in ("SPSDKUnsupportedImageType",):
                    fails.append({"inputs": {"family": fam, "image": name}, "detail": f"{type(e).__name__}: {e}", "obligation": "export-parse-reexport"})
    signed = _signed_v1(tier, rnd)
    return [signed, {"name": "key-less MBI compositions: export / header decode / parse / re-export", "function": "spsdk.image.mbi.mbi:MasterBootImage",
             "method": "every distinct (mixin list, image type) in the live database that needs no keys", "bound": f"{built} built of {n} compositions",
             "cases": max(built, 1), "label": "bounded", "failures": fails}]


def _signed_v1(tier: str, rnd: Any) -> dict:
    """Certificate-block-v1 signed images (RSA-2048 test keys of the repository) decoded by hand: the IVT words describe the emitted bytes,
    the certificate block is where word 0x28 says, relocation entries describe their images, the RSA signature verifies independently."""
    import os
    import struct

    from cryptography import x509
    from cryptography.hazmat.primitives import hashes
    from cryptography.hazmat.primitives.asymmetric import padding

    from spsdk.crypto.certificate import Certificate
    from spsdk.crypto.signature_provider import SignatureProvider
    from spsdk.image.mbi.mbi import create_mbi_class
    from spsdk.image.mbi.mbi_mixin import MultipleImageEntry, MultipleImageTable
    from spsdk.image.trustzone import TrustZone
    from spsdk.utils.crypto.cert_blocks import CertBlockV1

    repo = os.environ.get("VF_REPO", "/repo")
    keys = os.path.join(repo, "tests", "image", "mbi", "data", "keys_and_certs")
    der = open(os.path.join(keys, "selfsign_2048_v3.der.crt"), "rb").read()
    fails: list = []
    n = 0

    def pad4(v: int) -> int:
        return (v + 3) & ~3

    cases = []
    for app_len in ([0x400, 0x3FD] if tier == "quick" else [0x400, 0x3FD, 0x401, 0x1232, 0x2000]):
        for k in (0, 1, 2):
            cases.append(("rt5xx", "signed_ram", app_len, k, True))
        cases.append(("lpc55s6x", "signed_xip", app_len, 0, False))
    for fam, cname, app_len, k, has_hmac in cases:
        n += 1
        label = {"family": fam, "image": cname, "app_len": hex(app_len), "relocation_entries": k}
        try:
            app = bytearray((7 * i + 3) & 0xFF for i in range(app_len))
            app[0x20:0x2C] = bytes(12)
            app[0x34:0x38] = bytes(4)
            images = [bytes((11 * i + 5 + j) & 0xFF for i in range(366 - 6 * j)) for j in range(k)]
            table = None
            if images:
                table = MultipleImageTable()
                for j, img in enumerate(images):
                    table.add_entry(MultipleImageEntry(img, 0x80000 + 0x1000 * j))
            blk = CertBlockV1(build_number=1)
            blk.add_certificate(der)
            blk.set_root_key_hash(0, Certificate.parse(der))
            kw: dict = dict(app=bytes(app), trust_zone=TrustZone.disabled(), cert_block=blk,
                            signature_provider=SignatureProvider.create(f"type=file;file_path={os.path.join(keys, 'selfsign_privatekey_rsa2048.pem')}"))
            if has_hmac:
                kw.update(app_table=table, load_address=0x20080000, hmac_key="E39FD7AB61AE6DDDA37158A0FC3008C6D61100A03C7516EA1BE55A39F546BAD5", key_store=None)
            image = create_mbi_class(cname, fam)(**kw).export()
            raw = image[:0x40] + image[0x60:] if has_hmac else image
            total_len, flags, cert_offset = struct.unpack_from("<3I", image, 0x20)
            problems = []
            reloc_len = sum(pad4(len(i)) for i in images) + 16 * (len(images) + 1) if images else 0
            expected = pad4(app_len) + reloc_len
            if total_len != len(image):
                problems.append(f"IVT total length {total_len} != emitted {len(image)}")
            if raw[expected: expected + 4] != b"cert":
                problems.append(f"no certificate block at the independently computed place {expected:#x}")
            if cert_offset != expected:
                problems.append(f"IVT word 0x28 says the certificate block is at {cert_offset:#x}, it was emitted at {expected:#x}")
            if bool(flags & 0x800) != bool(images):
                problems.append(f"relocation flag in {flags:#x}")
            if images and not problems:
                marker, _ver, count, entries_ptr = struct.unpack_from("<4I", raw, expected - 16)
                if (marker, count) != (0x4C54424C, len(images)):
                    problems.append("relocation table header")
                else:
                    for j, img in enumerate(images):
                        src, _dst, size, _f = struct.unpack_from("<4I", raw, entries_ptr + 16 * j)
                        if raw[src: src + size] != img:
                            problems.append(f"relocation entry {j} does not describe its image")
            if not problems:
                (cert_len,) = struct.unpack_from("<I", raw, expected + 32)
                c = raw[expected + 36: expected + 36 + cert_len]
                c = c[: 4 + int.from_bytes(c[2:4], "big")]
                try:
                    x509.load_der_x509_certificate(c).public_key().verify(raw[-256:], raw[:-256], padding.PKCS1v15(), hashes.SHA256())
                except Exception as e:  # pylint: disable=broad-except
                    problems.append(f"RSA signature over the image does not verify independently ({type(e).__name__})")
            if problems and len(fails) < 5:
                fails.append({"inputs": label, "detail": "; ".join(problems), "obligation": "signed-image-header-describes-the-bytes"})
        except Exception as e:  # pylint: disable=broad-except
            if len(fails) < 5:
                fails.append({"inputs": label, "detail": f"{type(e).__name__}: {e}", "obligation": "signed-image-header-describes-the-bytes"})
    return {"name": "certificate-block-v1 signed images decoded by hand", "function": "spsdk.image.mbi.mbi:MasterBootImage.export (signed_ram / signed_xip)",
            "method": "RSA-2048 repository test keys; with and without relocation table; IVT words, cert block position, relocation entries, independent "
                      "signature verification", "bound": f"{n} images", "cases": n, "label": "bounded", "failures": fails}
