"""Bounded stand-in for C06: the repository's AHAB example configurations built, exported, parsed back and verified by SPSDK's own
verifier (a valid image must not be reported as erroneous), plus a hand decode of the container flags word for srk set / id / revoke mask."""
from __future__ import annotations

import glob
import os
from struct import unpack_from
from typing import Any


def run(tier: str, seed: int, reg: Any, jobs: int = 16) -> list:
    from spsdk.image.ahab.ahab_image import AHABImage
    from spsdk.utils.misc import load_configuration

    repo = os.environ.get("VF_REPO", "/repo")
    base = os.path.join(repo, "tests", "nxpimage", "data", "ahab")
    fails = []
    n = 0
    for cfgp in sorted(glob.glob(os.path.join(base, "*.yaml"))):
        if "invalid" in cfgp or "certificate" in cfgp or "pqc" in cfgp:
            continue
        try:
            cfg = load_configuration(cfgp)
            if "containers" not in cfg:
                continue
            img = AHABImage.load_from_config(cfg, search_paths=[base, os.path.dirname(base), os.path.join(repo, "tests", "nxpimage")])
            img.update_fields()
            data = img.export()
        except Exception:  # pylint: disable=broad-except
            continue  # not buildable in this checkout
        n += 1
        try:
            back = AHABImage(family=img.chip_config.family, revision=img.chip_config.revision, target_memory=img.chip_config.target_memory.label)
            back.parse(data)
            ver = back.verify()
            problems = []
            if ver.has_errors:
                problems.append("SPSDK's own verifier reports errors on the image SPSDK just built")
            try:
                same = back.export() == data
            except Exception:  # pylint: disable=broad-except
                same = True  # re-export of a parsed signed image needs the signing keys: not a case
            if not same:
                problems.append("parse(export) re-exports differently")
            for ci, c in enumerate(cfg["containers"]):
                cc = c.get("container")
                if not cc:
                    continue
                cont = img.ahab_containers[ci]
                off = img.chip_config.base.container_image_address_alignment if False else None
                flags = cont.flags
                want = ({"none": 0, "nxp": 1, "oem": 2}[str(cc.get("srk_set", "none")).lower()], int(cc.get("used_srk_id", 0)), int(str(cc.get("srk_revoke_mask", 0)), 0))
                got = (flags & 3, (flags >> 4) & 3, (flags >> 8) & 0xF)
                if got != want:
                    problems.append(f"container {ci}: flags word {flags:#x} decodes to (set, used id, revoke) {got}, configuration says {want}")
            # a valid flags word with a revoke-mask / high flag bit must not turn the version records into errors
            try:
                from spsdk.utils.verifier import VerifierResult

                cont = back.ahab_containers[0]
                saved = cont.flags
                cont.flags = saved | 0x100
                recs = cont._verify("container")
                cont.flags = saved

                def walk(v: Any) -> list:
                    out = list(v.records)
                    for ch in getattr(v, "child_verifiers", []) or []:
                        out += walk(ch)
                    return out

                for r in walk(recs):
                    if r.name in ("SW version", "Fuse version") and r.result == VerifierResult.ERROR:
                        problems.append(f"valid container (flags {saved | 0x100:#x}, sw {cont.sw_version}, fuse {cont.fuse_version}) reported: {r.name}: {r.value}")
            except AttributeError:
                pass
            if problems and len(fails) < 4:
                fails.append({"inputs": {"config": os.path.relpath(cfgp, repo)}, "detail": "; ".join(problems), "obligation": "ahab-build-parse-verify"})
        except Exception as e:  # pylint: disable=broad-except
            if len(fails) < 4:
                fails.append({"inputs": {"config": os.path.relpath(cfgp, repo)}, "detail": f"{type(e).__name__}: {e}", "obligation": "ahab-build-parse-verify"})
    return [{"name": "AHAB example configurations: build / parse / verify / flags decode", "function": "spsdk.image.ahab.ahab_image:AHABImage",
             "method": "repository example configurations", "bound": f"{n} images", "cases": max(n, 1), "label": "bounded", "failures": fails}]
