"""Bounded stand-in for C06: the repository's AHAB example configurations built, exported, parsed back and verified by SPSDK's own
verifier (a valid image must not be reported as erroneous), plus a hand decode of the container flags word for srk set / id / revoke mask."""
from __future__ import annotations

import glob
import os
from struct import unpack_from
from typing import Any


def run(tier: str, seed: int, reg: Any, jobs: int = 16) -> list:
    from spsdk.image.ahab.ahab_image import AHABImage
    from spsdk.utils.misc import load_configuration

    repo = os.environ.get("VF_REPO", "/repo")
    base = os.path.join(repo, "tests", "nxpimage", "data", "ahab")
    fails = []
    n = 0
    for cfgp in sorted(glob.glob(os.path.join(base, "*.yaml"))):
        if "invalid" in cfgp or "certificate" in cfgp or "pqc" in cfgp:
            continue
        try:
            cfg = load_configuration(cfgp)
            if "containers" not in cfg:
                continue
            img = AHABImage.load_from_config(cfg, search_paths=[base, os.path.dirname(base), os.path.join(repo, "tests", "nxpimage")])
            img.update_fields()
            data = img.export()
        except Exception:  # pylint: disable=broad-except
            continue  # not buildable in this checkout
        n += 1
        try:
            back = AHABImage(family=img.chip_config.family, revision=img.chip_config.revision, target_memory=img.chip_config.target_memory.label)
            back.parse(data)
            ver = back.verify()
            problems = []
            if ver.has_errors:
                problems.append("SPSDK's own verifier reports errors on the image SPSDK just built")
            try:
                same = back.export() == data
            except Exception:  # pylint: disable=broad-except
                same = True  # re-export of a parsed signed image needs the signing keys: not a case
            if not same:
                problems.append("parse(export) re-exports differently")
            for ci, c in enumerate(cfg["containers"]):
                cc = c.get("container")
                if not cc:
                    continue
                cont = img.ahab_containers[ci]
                off = img.chip_config.base.container_image_address_alignment if False else None
                flags = cont.flags
                want = ({"none": 0, "nxp": 1, "oem": 2}[str(cc.get("srk_set", "none")).lower()], int(cc.get("used_srk_id", 0)), int(str(cc.get("srk_revoke_mask", 0)), 0))
                got = (flags & 3, (flags >> 4) & 3, (flags >> 8) & 0xF)
                if got != want:
                    problems.append(f"container {ci}: flags word {flags:#x} decodes to (set, used id, revoke) {got}, configuration says {want}")
            # a valid flags word with a revoke-mask / high flag bit must not turn the version records into errors
            try:
                from spsdk.utils.verifier import VerifierResult

                cont = back.ahab_containers[0]
                saved = cont.flags
                cont.flags = saved | 0x100
                recs = cont._verify("container")
                cont.flags = saved

                def walk(v: Any) -> list:
                    out = list(v.records)
                    for ch in getattr(v, "child_verifiers", []) or []:
                        out += walk(ch)
                    return out

                for r in walk(recs):
                    if r.name in ("SW version", "Fuse version") and r.result == VerifierResult.ERROR:
                        problems.append(f"valid container (flags {saved | 0x100:#x}, sw {cont.sw_version}, fuse {cont.fuse_version}) reported: {r.name}: {r.value}")
            except AttributeError:
                pass
            if problems and len(fails) < 4:
                fails.append({"inputs": {"config": os.path.relpath(cfgp, repo)}, "detail": "; ".join(problems), "obligation": "ahab-build-parse-verify"})
        except Exception as e:  # pylint: disable=broad-except
            if len(fails) < 4:
                fails.append({"inputs": {"config": os.path.relpath(cfgp, repo)}, "detail": f"{type(e).__name__}: {e}", "obligation": "ahab-build-parse-verify"})
    return [_revocation_sweep(repo, tier), {"name": "AHAB example configurations: build / parse / verify / flags decode", "function": "spsdk.image.ahab.ahab_image:AHABImage",
             "method": "repository example configurations", "bound": f"{n} images", "cases": max(n, 1), "label": "bounded", "failures": fails}]


def _revocation_sweep(repo: str, tier: str) -> dict:
    """Every (used SRK, revocation mask) pair of an OEM-signed container: the flags word carries both, the signature verifies - checked with
    cryptography over the bytes in front of the signature container with the key taken from the exported SRK table - and SPSDK's own verifier,
    run on the parsed binary, reports an error exactly when the used key's own revocation bit is set."""
    import struct
    import tempfile

    from cryptography.exceptions import InvalidSignature
    from cryptography.hazmat.primitives import hashes
    from cryptography.hazmat.primitives.asymmetric import ec
    from cryptography.hazmat.primitives.asymmetric.utils import encode_dss_signature

    from spsdk.image.ahab.ahab_image import AHABImage
    from spsdk.utils.verifier import VerifierResult

    keys = os.path.join(repo, "tests", "_data", "keys", "ecc256")
    fails: list = []
    n = 0
    pairs = [(u, m) for u in range(4) for m in range(16)]

    def errors_of(v: Any, path: list) -> list:
        out = []
        for r in v.records:
            if hasattr(r, "records"):
                out += errors_of(r, path + [r.name])
            elif r.result == VerifierResult.ERROR:
                out.append("/".join(path + [r.name]))
        return out

    with tempfile.TemporaryDirectory(prefix="vf-c06-") as tmp:
        app = os.path.join(tmp, "app.bin")
        with open(app, "wb") as fh:
            fh.write(bytes((i * 11 + 5) & 0xFF for i in range(1234)))
        for used, mask in pairs:
            n += 1
            problems: list = []
            try:
                cfg = {"family": "mimxrt1189", "revision": "a0", "target_memory": "standard", "output": "x.bin", "containers": [{"container": {
                    "srk_set": "oem", "used_srk_id": used, "srk_revoke_mask": mask, "fuse_version": 0, "sw_version": 0,
                    "signing_key": os.path.join(keys, f"srk{used}_ecc256.pem"),
                    "images": [{"image_path": app, "image_offset": 0x2000, "load_address": 0x1FFE0000, "entry_point": 0x1FFE0000, "image_type": "executable",
                                "core_id": "cortex-m33", "is_encrypted": False, "hash_type": "sha256"}],
                    "srk_table": {"srk_array": [os.path.join(keys, f"srk{i}_ecc256.pub") for i in range(4)]}}}]}
                img = AHABImage.load_from_config(cfg, search_paths=[tmp])
                img.update_fields()
                data = img.export()
                flags, _sw, _fv, _ni, sb_off, _r = struct.unpack_from("<IHBBHH", data, 4)
                if (flags & 3, (flags >> 4) & 3, (flags >> 8) & 0xF) != (2, used, mask):
                    problems.append(f"flags word {flags:#x} does not carry OEM / used key {used} / mask {mask:#x}")
                _v, _l, _t, _cert, srk_off, sig_off, _blob, _kid = struct.unpack_from("<BHBHHHHI", data, sb_off)
                rec = sb_off + srk_off + 4
                pubs = []
                for _ in range(4):
                    _rt, r_len, _alg, _h, _c, _x, _f, len_x, len_y = struct.unpack_from("<BHBBBBBHH", data, rec)
                    pubs.append(ec.EllipticCurvePublicNumbers(int.from_bytes(data[rec + 12: rec + 12 + len_x], "big"),
                                                              int.from_bytes(data[rec + 12 + len_x: rec + 12 + len_x + len_y], "big"), ec.SECP256R1()).public_key())
                    rec += r_len
                _sv, s_len, _st = struct.unpack_from("<BHB", data, sb_off + sig_off)
                raw = data[sb_off + sig_off + 8: sb_off + sig_off + s_len]
                try:
                    pubs[used].verify(encode_dss_signature(int.from_bytes(raw[:32], "big"), int.from_bytes(raw[32:], "big")), bytes(data[: sb_off + sig_off]),
                                      ec.ECDSA(hashes.SHA256()))
                except InvalidSignature:
                    problems.append("the container signature does not verify under the SRK the flags word selects")
                back = AHABImage("mimxrt1189", "a0", "standard")
                back.parse(data)
                ver = back.verify()
                errs = errors_of(ver, [ver.name])
                revoked = bool((mask >> used) & 1)
                if revoked and not any("Used SRK key ID" in e for e in errs):
                    problems.append("the used key is revoked by the mask but the verifier does not say so")
                if not revoked and errs:
                    problems.append(f"valid container (used key not revoked) reported as erroneous: {errs[:3]}")
            except Exception as e:  # pylint: disable=broad-except
                problems.append(f"{type(e).__name__}: {e}")
            if problems and len(fails) < 4:
                fails.append({"inputs": {"used_srk_id": used, "srk_revoke_mask": mask}, "detail": "; ".join(problems), "obligation": "ahab-revocation-mask-and-used-key"})
    return {"name": "AHAB OEM-signed container over every used key x revocation mask", "function": "spsdk.image.ahab.ahab_image:AHABImage (export / parse / verify)",
            "method": "repository P-256 SRK test keys; flags and SRK table decoded with struct, signature verified with cryptography, SPSDK verifier on the parsed binary",
            "bound": f"{n} (used key, mask) pairs", "cases": n, "label": "bounded", "failures": fails}
