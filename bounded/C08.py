"""Bounded stand-ins for C08 (never counted as proved): the half of the property that lives in `cryptography`/OpenSSL.

Seeded sweeps over freshly generated keys (every supported type; ECC keys searched for leading-zero coordinates), every
serialisation x password, sign/verify over the parameter matrix with an independent verification done directly with
`cryptography` primitives (not through SPSDK), single-bit modifications, and raw <-> DER ECDSA conversion over (r, s) values
biased to leading zero bytes."""
from __future__ import annotations

import random
from typing import Any


def _indep_verify(pub: Any, sig: bytes, msg: bytes, hname: str, *, pss: bool = False, prehashed: bool = False, raw_cs: int = 0) -> bool:
    """Verification that does not go through SPSDK: cryptography's key object rebuilt from DER, its own padding/hash objects."""
    from cryptography.exceptions import InvalidSignature
    from cryptography.hazmat.primitives import hashes, serialization
    from cryptography.hazmat.primitives.asymmetric import ec, padding, utils

    h = {"sha256": hashes.SHA256, "sha384": hashes.SHA384, "sha512": hashes.SHA512}[hname]()
    if prehashed:
        d = hashes.Hash(h)
        d.update(msg)
        data, alg = d.finalize(), utils.Prehashed(h)
    else:
        data, alg = msg, h
    key = serialization.load_der_public_key(pub)
    try:
        if isinstance(key, ec.EllipticCurvePublicKey):
            if raw_cs:
                if len(sig) != 2 * raw_cs:
                    return False
                sig = utils.encode_dss_signature(int.from_bytes(sig[:raw_cs], "big"), int.from_bytes(sig[raw_cs:], "big"))
            key.verify(sig, data, ec.ECDSA(alg))
        else:
            pad = padding.PSS(mgf=padding.MGF1(h), salt_length=padding.PSS.DIGEST_LENGTH) if pss else padding.PKCS1v15()
            key.verify(sig, data, pad, alg)
        return True
    except (InvalidSignature, ValueError):
        return False


def run(tier: str, seed: int, reg: Any, jobs: int = 16) -> list:
    from cryptography.hazmat.primitives import serialization

    from spsdk.crypto.crypto_types import SPSDKEncoding
    from spsdk.crypto.hash import EnumHashAlgorithm, get_hash
    from spsdk.crypto.keys import ECDSASignature, EccCurve, PrivateKey, PrivateKeyEcc, PrivateKeyRsa, PublicKey, PublicKeyEcc, PublicKeyRsa
    from spsdk.crypto.signature_provider import PlainFileSP  # noqa: F401  (import check only)

    rnd = random.Random(seed)
    thorough = tier == "thorough"
    out = []
    CS = {EccCurve.SECP256R1: 32, EccCurve.SECP384R1: 48, EccCurve.SECP521R1: 66}
    HASHES = [EnumHashAlgorithm.SHA256, EnumHashAlgorithm.SHA384, EnumHashAlgorithm.SHA512]

    # ---------------------------------------------------------------------------------------- raw <-> DER signatures
    fails, n = [], 0
    for _ in range(20000 if thorough else 1500):
        curve = rnd.choice(list(CS))
        cs = CS[curve]
        top = 8 * cs if curve != EccCurve.SECP521R1 else 521

        def coord() -> int:
            c = rnd.random()
            bits = top if c < 0.5 else top - rnd.choice([1, 7, 8, 9, 16]) if c < 0.9 else rnd.randrange(1, top)
            return max(1, rnd.getrandbits(bits))

        r, s = coord(), coord()
        n += 1
        sig = ECDSASignature(r, s, curve)
        raw = sig.export(SPSDKEncoding.NXP)
        der = sig.export(SPSDKEncoding.DER)
        problems = []
        try:
            b = ECDSASignature.parse(raw)
            if (b.r, b.s, b.ecc_curve) != (r, s, curve) or b.export(SPSDKEncoding.DER) != der:
                problems.append("raw -> parse -> DER differs")
        except Exception as e:  # pylint: disable=broad-except
            problems.append(f"raw parse raised {type(e).__name__}: {e}")
        known = None
        try:
            b = ECDSASignature.parse(der)
            if (b.r, b.s, b.ecc_curve) != (r, s, curve) or b.export(SPSDKEncoding.NXP) != raw:
                problems.append(f"DER({len(der)} bytes) -> parse -> raw differs")
        except Exception as e:  # pylint: disable=broad-except
            problems.append(f"DER({len(der)} bytes) parse raised {type(e).__name__}: {e}")
        if problems and not any(p.startswith("raw") for p in problems) and not 2 * cs + 3 <= len(der) <= 2 * cs + 8:
            known = "C08-KF1"   # DER length outside the window ECDSASignature.get_ecc_curve accepts for this curve
        if problems and (known or len([f for f in fails if not f.get("known_id")]) < 4):
            if not known or not any(f.get("known_id") for f in fails):
                fails.append({"inputs": {"r": hex(r), "s": hex(s), "curve": curve.value}, "detail": "; ".join(problems),
                              "obligation": "ecdsa-raw-der-conversion", "known_id": known})
    out.append({"name": "ECDSASignature raw <-> DER conversion", "function": "spsdk.crypto.keys:ECDSASignature.parse/export",
                "method": "seeded sweep over (r, s) biased to leading zero bits/bytes, all three curves", "bound": f"{n} signatures",
                "cases": n, "label": "bounded", "failures": fails})

    # ---------------------------------------------------------------------------------------- keys
    keys: list = []
    for curve in CS:
        keys.append((f"ecc-{curve.value}", PrivateKeyEcc.generate_key(curve)))
        # a key with a leading-zero coordinate (probability 2/256 per key): search
        for _ in range(3000 if thorough else 600):
            k = PrivateKeyEcc.generate_key(curve)
            pub = k.get_public_key()
            lim = 1 << (8 * CS[curve] - 8) if curve != EccCurve.SECP521R1 else 1 << 512
            if pub.x < lim or pub.y < lim:
                keys.append((f"ecc-{curve.value}-leading-zero", k))
                break
    for size in (2048, 3072, 4096):
        keys.append((f"rsa-{size}", PrivateKeyRsa.generate_key(size)))

    fails, n = [], 0

    def bad(name: str, what: str, ob: str) -> None:
        if len(fails) < 6:
            fails.append({"inputs": {"key": name}, "detail": what, "obligation": ob})

    for name, prv in keys:
        pub = prv.get_public_key()
        for enc in (SPSDKEncoding.PEM, SPSDKEncoding.DER):
            for pwd in (None, "pass wordé"):
                n += 1
                try:
                    blob = prv.export(password=pwd, encoding=enc)
                    for entry in (type(prv).parse, PrivateKey.parse):
                        back = entry(blob, password=pwd)
                        if back != prv or type(back) is not type(prv) or back.export(encoding=SPSDKEncoding.DER) != prv.export(encoding=SPSDKEncoding.DER):
                            bad(name, f"private {enc.value} pwd={pwd!r} via {entry.__qualname__}: not the same key", "private-key-roundtrip")
                except Exception as e:  # pylint: disable=broad-except
                    bad(name, f"private {enc.value} pwd={pwd!r}: {type(e).__name__}: {e}", "private-key-roundtrip")
        for enc in (SPSDKEncoding.PEM, SPSDKEncoding.DER, SPSDKEncoding.NXP):
            n += 1
            try:
                blob = pub.export(encoding=enc)
                for entry in (type(pub).parse, PublicKey.parse):
                    back = entry(blob)
                    if back != pub or type(back) is not type(pub) or back.export(SPSDKEncoding.NXP) != pub.export(SPSDKEncoding.NXP):
                        bad(name, f"public {enc.value} via {entry.__qualname__}: not the same key", "public-key-roundtrip")
            except Exception as e:  # pylint: disable=broad-except
                bad(name, f"public {enc.value}: {type(e).__name__}: {e}", "public-key-roundtrip")
    out.append({"name": "key serialisation round trips", "function": "spsdk.crypto.keys:PrivateKey*/PublicKey*.export/parse",
                "method": "freshly generated keys of every supported type (ECC keys searched for a leading-zero coordinate) x PEM/DER/NXP x password, "
                          "type-specific and auto-detecting entry points",
                "bound": f"{len(keys)} keys, {n} (key, encoding, password) cases", "cases": n, "label": "bounded", "failures": fails})

    # ---------------------------------------------------------------------------------------- sign / verify
    fails, n = [], 0
    other = {True: PrivateKeyEcc.generate_key(EccCurve.SECP256R1), False: PrivateKeyRsa.generate_key(2048)}
    reps = 6 if thorough else 1
    for name, prv in keys:
        pub = prv.get_public_key()
        is_ecc = isinstance(prv, PrivateKeyEcc)
        spki = pub.key.public_bytes(serialization.Encoding.DER, serialization.PublicFormat.SubjectPublicKeyInfo)
        for alg in HASHES:
            for variant in ((False, True) if True else ()):      # der_format (ECC) / pss_padding (RSA)
                for prehashed in (False, True):
                    for _ in range(reps):
                        n += 1
                        msg = bytes(rnd.getrandbits(8) for _ in range(rnd.choice([0, 1, 31, 32, 33, 200])))
                        data = get_hash(msg, alg) if prehashed else msg
                        kw = {"algorithm": alg, "prehashed": prehashed, ("der_format" if is_ecc else "pss_padding"): variant}
                        vkw = {k: v for k, v in kw.items() if k != "der_format"}
                        tag = f"{name} {alg.label} {kw}"
                        try:
                            sig = prv.sign(data, **kw)
                            if not pub.verify_signature(sig, data, **vkw):
                                bad(tag, "own signature does not verify under the matching key with the same parameters", "sign-then-verify")
                                continue
                            # a pre-hashed signature is a signature of the message: verify the un-hashed way, independently
                            raw_cs = pub.coordinate_size if (is_ecc and not variant) else 0
                            if not _indep_verify(spki, sig, msg, alg.label, pss=(not is_ecc and variant), prehashed=False, raw_cs=raw_cs):
                                bad(tag, "independent verification (cryptography, message hashed once) rejects the signature", "independent-verify")
                                continue
                            if is_ecc and not variant and len(sig) != 2 * pub.coordinate_size:
                                bad(tag, f"raw signature has {len(sig)} bytes", "raw-signature-width")
                            # negative: modified message, modified signature, other key
                            if msg:
                                m2 = bytearray(msg)
                                m2[rnd.randrange(len(m2))] ^= 1 << rnd.randrange(8)
                                d2 = get_hash(bytes(m2), alg) if prehashed else bytes(m2)
                                if pub.verify_signature(sig, d2, **vkw):
                                    bad(tag, "verifies for a message with one bit flipped", "rejects-modified-message")
                            s2 = bytearray(sig)
                            s2[rnd.randrange(len(s2))] ^= 1 << rnd.randrange(8)
                            try:
                                acc = pub.verify_signature(bytes(s2), data, **vkw)
                            except Exception:  # pylint: disable=broad-except
                                acc = False   # malformed DER after the flip: a rejection
                            if acc:
                                bad(tag, "verifies with one signature bit flipped", "rejects-modified-signature")
                            o = other[is_ecc].get_public_key()
                            try:
                                acc = o.verify_signature(sig, data, **vkw) if (not is_ecc or pub.curve == o.curve) else False
                            except Exception:  # pylint: disable=broad-except
                                acc = False
                            if acc:
                                bad(tag, "verifies under a different key", "rejects-other-key")
                        except Exception as e:  # pylint: disable=broad-except
                            bad(tag, f"{type(e).__name__}: {e}", "sign-then-verify")
    out.append({"name": "sign / verify matrix with independent verification", "function": "spsdk.crypto.keys:PrivateKey*.sign / PublicKey*.verify_signature",
                "method": "every key x SHA-256/384/512 x (raw|DER) or (PKCS#1 v1.5|PSS) x pre-hashed; independent check with cryptography primitives; "
                          "single-bit modifications of message and signature; a different key",
                "bound": f"{n} signatures", "cases": n, "label": "bounded", "failures": fails})
    return out
