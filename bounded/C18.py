"""Bounded stand-in for C18: byte-exact prefixes of the *real* cache files fed to the real loaders in fresh interpreters
(the deductive part quantifies over every pickle.load behaviour; this confirms the assumed raises-set on the real files)."""
from __future__ import annotations

import glob
import multiprocessing as mp
import os
import random
import shutil
import subprocess
import sys
import tempfile
from typing import Any

_Q = ("import logging; logging.disable(logging.CRITICAL)\n"
      "from spsdk.utils.database import get_families, get_db\n"
      "f = get_families('mbi'); d = get_db('lpc55s69'); print('ANSWER', len(f), sorted(f)[:3], d.get_str('mbi', 'images', 'x') if False else len(get_families('pfr')))\n")


def _ask(repo: str, cache: str, disabled: bool = False) -> tuple:
    env = dict(os.environ, PYTHONPATH=repo, SPSDK_CACHE_FOLDER=cache)
    env.pop("SPSDK_CACHE_DISABLED", None)
    if disabled:
        env["SPSDK_CACHE_DISABLED"] = "1"
    r = subprocess.run([sys.executable, "-c", _Q], capture_output=True, text=True, env=env, timeout=300)
    ans = [ln for ln in r.stdout.splitlines() if ln.startswith("ANSWER")]
    return r.returncode, (ans[-1] if ans else None), r.stderr[-400:]


def _case(job: tuple) -> dict:
    repo, master, fname, length, ref = job
    d = tempfile.mkdtemp(prefix="vf-c18-")
    try:
        for f in os.listdir(master):
            if f.endswith(".cache"):
                shutil.copy(os.path.join(master, f), os.path.join(d, f))
        target = os.path.join(d, fname)
        with open(target, "rb") as fh:
            data = fh.read()
        with open(target, "wb") as fh:
            fh.write(data[:length])
        rc, ans, err = _ask(repo, d)
        ok = rc == 0 and ans == ref
        # and the damaged cache must have been replaced: a second start is clean as well
        rc2, ans2, _ = _ask(repo, d)
        ok = ok and rc2 == 0 and ans2 == ref
        return {"file": fname, "length": length, "ok": ok, "detail": f"exit={rc} answer={ans!r} (reference {ref!r}) {err[-200:] if rc else ''}"}
    finally:
        shutil.rmtree(d, ignore_errors=True)


_CHILD = ("import json, sys, logging; logging.disable(logging.CRITICAL)\n"
          "from spsdk.utils.database import get_schema_file\n"
          "print('RESULT' + json.dumps({f: get_schema_file(f) for f in sys.argv[1:]}, sort_keys=True))\n")


def _schemas(repo: str, features: list, data: str, cache: str, disabled: bool = False) -> Any:
    import json

    env = {k: v for k, v in os.environ.items() if not k.startswith("SPSDK_")}
    env.update(PYTHONPATH=repo, SPSDK_DATA_FOLDER=data, SPSDK_CACHE_FOLDER=cache, SPSDK_DEBUG_LOGGING_DISABLED="1")
    if disabled:
        env["SPSDK_CACHE_DISABLED"] = "1"
    r = subprocess.run([sys.executable, "-c", _CHILD, *features], capture_output=True, text=True, env=env, timeout=600)
    line = [ln for ln in r.stdout.splitlines() if ln.startswith("RESULT")]
    if r.returncode or not line:
        return f"process failed: exit={r.returncode} {r.stderr[-300:]}"
    return json.loads(line[-1][6:])


def _edited_data_under_warm_cache(repo: str) -> dict:
    """A data file is edited while a warm configuration cache exists: every later process - whichever file it asks for first - must answer
    with the new content (oracle: a process with the cache disabled), and the cache left behind must not hold the old content."""
    work = tempfile.mkdtemp(prefix="vf-c18-stale-")
    fails: list = []
    n = 0
    try:
        data = os.path.join(work, "data")
        shutil.copytree(os.path.join(repo, "spsdk", "data"), data)
        tz_file = os.path.join(data, "jsonschemas", "sch_tz.yaml")
        for order in (["general", "tz"], ["tz"], ["tz", "general"]):
            n += 1
            cache = os.path.join(work, "cache" + str(n))
            text0 = open(tz_file, encoding="utf-8").read()
            try:
                first = _schemas(repo, ["general", "tz"], data, cache)                      # warm: both files cached
                marker = f"edited_by_check_{n}.bin"
                open(tz_file, "w", encoding="utf-8").write(text0.replace("my_tz_file.bin", marker))
                st = os.stat(tz_file)
                os.utime(tz_file, ns=(st.st_atime_ns, st.st_mtime_ns + 5_000_000_000))
                ref = _schemas(repo, ["general", "tz"], data, os.path.join(work, "ref" + str(n)), disabled=True)
                problems = []
                if isinstance(first, str) or isinstance(ref, str) or marker not in str(ref.get("tz")):
                    problems.append(f"cannot build the scenario: {str(first)[:100]} / {str(ref)[:100]}")
                else:
                    second = _schemas(repo, order, data, cache)
                    third = _schemas(repo, ["tz"], data, cache)
                    for name, got in (("first process after the edit", second), ("a later process", third)):
                        if isinstance(got, str):
                            problems.append(f"{name}: {got}")
                        elif got.get("tz") != ref["tz"]:
                            problems.append(f"{name} (asks {order if got is second else ['tz']}) answers with the OLD content of the edited file")
                if problems:
                    fails.append({"inputs": {"warm_cache": ["general", "tz"], "edited": "jsonschemas/sch_tz.yaml", "next_process_asks": order},
                                  "detail": "; ".join(problems), "obligation": "edited-data-file-is-never-answered-from-a-stale-cache"})
            finally:
                open(tz_file, "w", encoding="utf-8").write(text0)
    finally:
        shutil.rmtree(work, ignore_errors=True)
    return {"name": "data file edited under a warm configuration cache", "function": "spsdk.utils.database:Database.DatabaseData (fresh interpreters)",
            "method": "copy of spsdk/data, warm the cache with two files, edit one (mtime moved), start processes asking in different orders; oracle = cache disabled",
            "bound": f"{n} orders", "cases": n, "label": "bounded", "failures": fails}


def run(tier: str, seed: int, reg: Any, jobs: int = 16) -> list:
    repo = os.environ.get("VF_REPO", "/repo")
    master = tempfile.mkdtemp(prefix="vf-c18-master-")
    try:
        rc0, ref, err0 = _ask(repo, os.path.join(master, "unused"), disabled=True)     # the oracle: cache disabled
        rc1, warm, err1 = _ask(repo, master)                                            # creates the real cache files
        files = sorted(os.path.basename(f) for f in glob.glob(os.path.join(master, "*.cache")))
        if rc0 or rc1 or not files or ref is None:
            return [{"name": "cache prefixes", "error": f"cannot build reference: rc={rc0},{rc1} files={files} {err0} {err1}", "cases": 0, "failures": []}]
        fails = []
        if warm != ref:
            fails.append({"inputs": {"state": "cold cache"}, "detail": f"cached answer {warm!r} differs from cache-disabled answer {ref!r}",
                          "obligation": "answers-as-with-cache-disabled"})
        rnd = random.Random(seed)
        tasks = []
        for fn in files:
            size = os.path.getsize(os.path.join(master, fn))
            lens = {0, 1, 2, 10, 100, 1023, 1024, 4096, size // 2, size - 1}
            n_rand = 6 if tier == "quick" else 200
            lens |= {rnd.randrange(0, size) for _ in range(n_rand)}
            tasks += [(repo, master, fn, ln, ref) for ln in sorted(x for x in lens if 0 <= x < size)]
        with mp.get_context("fork").Pool(min(jobs, 16)) as pool:
            res = pool.map(_case, tasks)
        for r in res:
            if not r["ok"] and len(fails) < 5:
                fails.append({"inputs": {"cache_file": r["file"], "truncated_to": r["length"]}, "detail": r["detail"],
                              "obligation": "start-normally-on-truncated-cache"})
        stale = _edited_data_under_warm_cache(repo)
        return [stale, {"name": "real cache files truncated at byte-exact prefixes", "function": "spsdk.utils.database (fresh interpreter per case)",
                 "method": "truncate each real cache file, start SPSDK, compare answers with the cache-disabled oracle, start again",
                 "bound": f"{len(tasks)} prefix lengths over {len(files)} cache files", "cases": len(tasks), "label": "bounded", "failures": fails}]
    finally:
        shutil.rmtree(master, ignore_errors=True)
