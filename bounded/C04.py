"""Bounded stand-ins for C04: every SB2 command class through export -> independent header decode -> parse, and whole boot sections
(encrypted, with HMAC table) through export -> parse; pack_timestamp (float arithmetic, outside the subset)."""
from __future__ import annotations

import random
from datetime import datetime, timezone
from struct import unpack_from
from typing import Any


def run(tier: str, seed: int, reg: Any, jobs: int = 16) -> list:
    from spsdk.crypto.symmetric import Counter
    from spsdk.mboot.memories import ExtMemId
    from spsdk.sbfile.misc import pack_timestamp, unpack_timestamp
    from spsdk.sbfile.sb2 import commands as C
    from spsdk.sbfile.sb2.sections import BootSectionV2

    rnd = random.Random(seed)
    fails = []
    n = 0
    u32 = lambda: rnd.choice([0, 1, 0xFFFFFFFF, 0x80000000, rnd.getrandbits(32)])  # noqa: E731

    def mk() -> Any:
        k = rnd.randrange(11)
        if k == 0:
            return C.CmdNop()
        if k == 1:
            return C.CmdTag()
        if k == 2:
            return C.CmdLoad(u32(), bytes(rnd.getrandbits(8) for _ in range(rnd.choice([0, 1, 15, 16, 17, 33, 100]))),
                             mem_id=rnd.choice([0, 1, 8, 9, 0x110]), zero_filling=True)
        if k == 3:
            return C.CmdFill(u32(), rnd.choice([0, 0x55, 0x1122, 0x11223344, 0xA1B2C3]), rnd.choice([None, 4, 8, 4096]))
        if k == 4:
            return C.CmdJump(u32(), u32(), rnd.choice([None, 0, 1, 0x20002000, 0xFFFFFFFF]))
        if k == 5:
            return C.CmdCall(u32(), u32())
        if k == 6:
            return C.CmdErase(u32(), u32(), rnd.choice([0, 1]), rnd.choice([0, 1, 8, 9]))
        if k == 7:
            return C.CmdReset()
        if k == 8:
            return C.CmdMemEnable(u32(), rnd.choice([4, 8, 0x100]), rnd.choice([1, 8, 9]))
        if k == 9:
            return C.CmdVersionCheck(rnd.choice(list(C.VersionCheckType)), u32())
        return C.CmdKeyStoreBackup(u32(), rnd.choice([ExtMemId.QUAD_SPI0, ExtMemId.FLEX_SPI_NOR]))

    for _ in range(400 if tier == "quick" else 20000):
        cmd = mk()
        n += 1
        try:
            raw = cmd.export()
            crc, tag, flags, addr, count, data = unpack_from("<2BH3L", raw)
            ok = crc == (0x5A + sum(raw[1:16])) % 256 and tag == cmd.header.tag and (flags, addr, count, data) == (
                cmd.header.flags, cmd.header.address, cmd.header.count, cmd.header.data)
            back = C.parse_command(raw)
            ok = ok and type(back) is type(cmd) and back.export() == raw
            if isinstance(cmd, C.CmdJump):
                ok = ok and back.spreg == cmd.spreg and (flags == 2) == (cmd.spreg is not None)
            detail = f"{cmd!s}: header {(crc, tag, flags, addr, count, data)} parsed back as {back!s}"
        except Exception as e:  # pylint: disable=broad-except
            ok, detail = False, f"{cmd!s}: {type(e).__name__}: {e}"
        if not ok and len(fails) < 4:
            fails.append({"inputs": {"command": str(cmd)}, "detail": detail, "obligation": "command-export-rom-decode-parse"})
    out = [{"name": "SB2 commands export / independent decode / parse", "function": "spsdk.sbfile.sb2.commands", "method": "seeded commands of every class",
            "bound": f"{n} commands", "cases": n, "label": "bounded", "failures": fails}]
    # sections
    fails2 = []
    m = 0
    for _ in range(40 if tier == "quick" else 2000):
        cmds = [mk() for _ in range(rnd.randrange(1, 6))]
        for c in cmds:
            if isinstance(c, C.CmdLoad):
                c.zero_filling = True
        dek, mac = bytes(rnd.getrandbits(8) for _ in range(32)), bytes(rnd.getrandbits(8) for _ in range(32))
        nonce = bytes(rnd.getrandbits(8) for _ in range(12)) + rnd.choice([bytes(4), b"\xf0\xff\xff\x7f"])
        m += 1
        try:
            sec = BootSectionV2(rnd.getrandbits(16), *cmds, hmac_count=rnd.choice([1, 2, 3, 10]), zero_filling=True)
            c1 = Counter(nonce)
            raw = sec.export(dek=dek, mac=mac, counter=c1)
            ok = len(raw) == sec.raw_size and c1._ctr - Counter(nonce)._ctr == len(raw) // 16
            back = BootSectionV2.parse(raw, 0, False, dek, mac, Counter(nonce))
            ok = ok and back.uid == sec.uid and [x.export() for x in back._commands] == [x.export() for x in sec._commands]
            detail = f"section {sec.uid} with {len(cmds)} commands: len {len(raw)} raw_size {sec.raw_size}, parsed {len(back._commands)} commands"
        except Exception as e:  # pylint: disable=broad-except
            ok, detail = False, f"{type(e).__name__}: {e}"
        if not ok and len(fails2) < 4:
            fails2.append({"inputs": {"commands": [str(c) for c in cmds]}, "detail": detail, "obligation": "section-export-parse"})
    out.append({"name": "SB2 boot section export / parse", "function": "spsdk.sbfile.sb2.sections:BootSectionV2", "method": "seeded sections, AES-CTR + HMAC table",
                "bound": f"{m} sections", "cases": m, "label": "bounded", "failures": fails2})
    fails3 = []
    k = 0
    for ts in [946684800, 946684801, 1000000000, 1700000000, 4102444799] + [rnd.randrange(946684800, 4102444800) for _ in range(200)]:
        k += 1
        dt = datetime.fromtimestamp(ts, tz=timezone.utc)
        v = pack_timestamp(dt)
        if v != (ts - 946684800) * 1000000 or unpack_timestamp(v).timestamp() != ts:
            fails3.append({"inputs": {"timestamp": ts}, "detail": f"pack_timestamp -> {v}", "obligation": "timestamp-microseconds-since-2000"})
            break
    out.append({"name": "pack/unpack timestamp", "function": "spsdk.sbfile.misc:pack_timestamp", "method": "second-resolution timestamps 2000..2100",
                "bound": f"{k} timestamps", "cases": k, "label": "bounded", "failures": fails3})
    return out
