"""Bounded stand-in for C02: CRC images of every family (no keys needed) checked by an independent CRC-32/MPEG-2 over the image
with the CRC word excluded; HMAC / encryption of encrypted_signed_ram where the repository's test keys allow building it."""
from __future__ import annotations

import random
from struct import unpack_from
from typing import Any


def crc32_mpeg2(data: bytes) -> int:
    crc = 0xFFFFFFFF
    for b in data:
        crc ^= b << 24
        for _ in range(8):
            crc = ((crc << 1) ^ 0x04C11DB7) & 0xFFFFFFFF if crc & 0x80000000 else (crc << 1) & 0xFFFFFFFF
    return crc


def run(tier: str, seed: int, reg: Any, jobs: int = 16) -> list:
    from spsdk.image.mbi.mbi import create_mbi_class
    from spsdk.image.trustzone import TrustZone
    from spsdk.utils.database import DatabaseManager, get_db, get_families

    rnd = random.Random(seed)
    fails = []
    n = 0
    seen = set()
    for fam in get_families(DatabaseManager.MBI):
        classes = get_db(fam).get_dict(DatabaseManager.MBI, "mbi_classes")
        for name, descr in classes.items():
            if descr["image_type"] not in ("CRC_RAM_IMAGE", "CRC_XIP_IMAGE"):
                continue
            mix = descr["mixins"]
            key = tuple(mix)
            if (key in seen and tier == "quick") or any(k in " ".join(mix) for k in ("Bca", "Fcf", "Vx")):
                continue
            seen.add(key)
            try:
                cls = create_mbi_class(name, fam)
                kw: dict = {"app": bytes(rnd.getrandbits(8) for _ in range(rnd.choice([0x100, 0x104, 0x400, 0x1234 & ~3])))}
                if "Mbi_MixinLoadAddress" in mix:
                    kw["load_address"] = 0x20000000
                if any("TrustZone" in m for m in mix):
                    kw["trust_zone"] = TrustZone.enabled() if "Mbi_MixinTrustZoneMandatory" in mix else TrustZone.disabled()
                if "Mbi_MixinImageVersion" in mix:
                    kw["image_version"] = 3
                m = cls(**kw)
                m.family = fam
                data = m.export()
                n += 1
                word = unpack_from("<I", data, 0x28)[0]
                exp = crc32_mpeg2(data[:0x28] + data[0x2C:])
                if word != exp and len(fails) < 4:
                    fails.append({"inputs": {"family": fam, "image": name}, "detail": f"CRC word {word:#010x}, ROM computes {exp:#010x} over the image without that word",
                                  "obligation": "crc-word-matches-image-without-it"})
            except Exception as e:  # pylint: disable=broad-except
                if len(fails) < 4 and "MUST" not in str(e) and "mandatory" not in str(e).lower():
                    fails.append({"inputs": {"family": fam, "image": name}, "detail": f"{type(e).__name__}: {e}", "obligation": "crc-word-matches-image-without-it"})
    enc = _encrypted_signed(tier, seed)
    return [enc, {"name": "CRC images against an independent CRC-32/MPEG-2", "function": "spsdk.image.mbi.mbi_mixin:Mbi_ExportMixinCrcSign.sign",
             "method": "every distinct key-less CRC composition of the live database, bit-serial reference CRC", "bound": f"{n} images", "cases": max(n, 1),
             "label": "bounded", "failures": fails}]


def _encrypted_signed(tier: str, seed: int) -> dict:
    """Encrypted + signed load-to-RAM images (rt5xx, cert block v1, RSA-2048 repository test keys) decoded by hand the way the ROM does:
    HMAC over the first 64 bytes, IVT words, certificate block header (image length = bytes in front of the signature), RSA signature over
    exactly those bytes, AES-CTR decryption with the stored IV gives back application and TrustZone data."""
    import hashlib
    import hmac as py_hmac
    import os
    import random
    import struct

    from cryptography import x509
    from cryptography.hazmat.primitives import hashes
    from cryptography.hazmat.primitives.asymmetric import padding
    from cryptography.hazmat.primitives.ciphers import Cipher, algorithms, modes

    from spsdk.crypto.certificate import Certificate
    from spsdk.crypto.signature_provider import SignatureProvider
    from spsdk.image.keystore import KeySourceType, KeyStore
    from spsdk.image.mbi.mbi import create_mbi_class
    from spsdk.image.mbi.mbi_mixin import MultipleImageEntry, MultipleImageTable
    from spsdk.image.trustzone import TrustZone
    from spsdk.utils.crypto.cert_blocks import CertBlockV1
    from spsdk.utils.misc import load_configuration

    repo = os.environ.get("VF_REPO", "/repo")
    data = os.path.join(repo, "tests", "image", "mbi", "data")
    user_key = bytes.fromhex("E39FD7AB61AE6DDDA37158A0FC3008C6D61100A03C7516EA1BE55A39F546BAD5")
    rnd = random.Random(seed)
    der = open(os.path.join(data, "keys_and_certs", "selfsign_2048_v3.der.crt"), "rb").read()
    presets = load_configuration(os.path.join(data, "multicore", "rt5xxA0.yaml"))["trustZonePreset"]

    def ecb(key: bytes, d: bytes) -> bytes:
        e = Cipher(algorithms.AES(key), modes.ECB()).encryptor()
        return e.update(d) + e.finalize()

    def ctr(key: bytes, d: bytes, nonce: bytes) -> bytes:
        e = Cipher(algorithms.AES(key), modes.CTR(nonce)).encryptor()
        return e.update(d) + e.finalize()

    fails: list = []
    n = 0
    cases = [("disabled", False), ("custom", False), ("custom", True), ("enabled", False)]
    if tier == "thorough":
        cases = cases * 3
    for tz_kind, with_table in cases:
        n += 1
        label = {"trust_zone": tz_kind, "relocation_table": with_table}
        try:
            app = bytearray(rnd.getrandbits(8) for _ in range(rnd.choice([0x400, 0x7FC, 0x1230])))
            app[0x20:0x2C] = bytes(12)
            app[0x34:0x38] = bytes(4)
            app = bytes(app)
            iv = bytes(rnd.getrandbits(8) for _ in range(16))
            tz = {"disabled": TrustZone.disabled, "enabled": TrustZone.enabled, "custom": lambda: TrustZone.custom("rt5xx", presets)}[tz_kind]()
            blk = CertBlockV1(build_number=1)
            blk.add_certificate(der)
            blk.set_root_key_hash(0, Certificate.parse(der))
            kw: dict = {}
            if with_table:
                table = MultipleImageTable()
                table.add_entry(MultipleImageEntry(bytes(range(200)), 0x80000))
                kw["app_table"] = table
            key = os.path.join(data, "keys_and_certs", "selfsign_privatekey_rsa2048.pem")
            image = create_mbi_class("encrypted_signed_ram", "rt5xx")(
                app=app, load_address=0x00180000, trust_zone=tz, cert_block=blk, signature_provider=SignatureProvider.create(f"type=file;file_path={key}"),
                hmac_key=user_key, key_store=KeyStore(KeySourceType.OTP), ctr_init_vector=iv, **kw).export()
            tz_data = tz.export()
            problems = []
            if image[64:96] != py_hmac.new(ecb(user_key, bytes(16)), image[:64], hashlib.sha256).digest():
                problems.append("HMAC over the first 64 bytes")
            body = image[:64] + image[96:]
            total_len, flags, cert_off = struct.unpack_from("<3I", body, 0x20)
            if total_len != len(image):
                problems.append(f"IVT total length {total_len} != {len(image)}")
            magic, _a, _b, hdr_len, _f, _bn, image_length, cert_count, table_len = struct.unpack_from("<4s2H6I", body, cert_off)
            if magic != b"cert":
                problems.append("no certificate block where IVT word 0x28 points")
            else:
                (size,) = struct.unpack_from("<I", body, cert_off + hdr_len)
                c = body[cert_off + hdr_len + 4: cert_off + hdr_len + 4 + size]
                c = c[: 4 + int.from_bytes(c[2:4], "big")]
                pub = x509.load_der_x509_certificate(c).public_key()
                end = cert_off + hdr_len + table_len + 4 * 32
                signed, sig = body[:-256], body[-256:]
                try:
                    pub.verify(sig, signed, padding.PKCS1v15(), hashes.SHA256())
                except Exception as e:  # pylint: disable=broad-except
                    problems.append(f"RSA signature over the bytes in front of it does not verify ({type(e).__name__})")
                if image_length != len(signed):
                    problems.append(f"certificate block header authenticates {image_length} bytes but {len(signed)} bytes precede the signature")
                if signed[end + 56: end + 72] != iv:
                    problems.append("IV is not stored behind the encrypted IVT copy")
                else:
                    aes_key = ecb(user_key, bytes([1] + [0] * 15 + [2] + [0] * 15))
                    plain = ctr(aes_key, signed[end: end + 56] + signed[56:cert_off] + signed[end + 72:], iv)
                    exp = bytearray(app)
                    struct.pack_into("<3I", exp, 0x20, total_len, flags, cert_off)
                    struct.pack_into("<I", exp, 0x34, 0x00180000)
                    if plain[: len(app)] != bytes(exp):
                        problems.append("AES-CTR decryption with the stored IV does not restore the application")
                    if plain[cert_off:] != tz_data:
                        problems.append("decrypted TrustZone data differ")
            if problems and len(fails) < 5:
                fails.append({"inputs": label, "detail": "; ".join(problems), "obligation": "encrypted-signed-image-passes-the-rom-checks"})
        except Exception as e:  # pylint: disable=broad-except
            if len(fails) < 5:
                fails.append({"inputs": label, "detail": f"{type(e).__name__}: {e}", "obligation": "encrypted-signed-image-passes-the-rom-checks"})
    return {"name": "encrypted + signed images decoded by hand", "function": "spsdk.image.mbi.mbi:MasterBootImage.export (encrypted_signed_ram)",
            "method": "rt5xx, RSA-2048 repository test keys, OTP key source; TrustZone disabled / enabled / custom preset, with and without relocation table; HMAC, IVT, "
                      "cert block header, independent signature verification and AES-CTR decryption", "bound": f"{n} images", "cases": n, "label": "bounded", "failures": fails}
