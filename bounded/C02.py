"""Bounded stand-in for C02: CRC images of every family (no keys needed) checked by an independent CRC-32/MPEG-2 over the image
with the CRC word excluded; HMAC / encryption of encrypted_signed_ram where the repository's test keys allow building it."""
from __future__ import annotations

import random
from struct import unpack_from
from typing import Any


def crc32_mpeg2(data: bytes) -> int:
    crc = 0xFFFFFFFF
    for b in data:
        crc ^= b << 24
        for _ in range(8):
            crc = ((crc << 1) ^ 0x04C11DB7) & 0xFFFFFFFF if crc & 0x80000000 else (crc << 1) & 0xFFFFFFFF
    return crc


def run(tier: str, seed: int, reg: Any, jobs: int = 16) -> list:
    from spsdk.image.mbi.mbi import create_mbi_class
    from spsdk.image.trustzone import TrustZone
    from spsdk.utils.database import DatabaseManager, get_db, get_families

    rnd = random.Random(seed)
    fails = []
    n = 0
    seen = set()
    for fam in get_families(DatabaseManager.MBI):
        classes = get_db(fam).get_dict(DatabaseManager.MBI, "mbi_classes")
        for name, descr in classes.items():
            if descr["image_type"] not in ("CRC_RAM_IMAGE", "CRC_XIP_IMAGE"):
                continue
            mix = descr["mixins"]
            key = tuple(mix)
            if (key in seen and tier == "quick") or any(k in " ".join(mix) for k in ("Bca", "Fcf", "Vx")):
                continue
            seen.add(key)
            try:
                cls = create_mbi_class(name, fam)
                kw: dict = {"app": bytes(rnd.getrandbits(8) for _ in range(rnd.choice([0x100, 0x104, 0x400, 0x1234 & ~3])))}
                if "Mbi_MixinLoadAddress" in mix:
                    kw["load_address"] = 0x20000000
                if any("TrustZone" in m for m in mix):
                    kw["trust_zone"] = TrustZone.enabled() if "Mbi_MixinTrustZoneMandatory" in mix else TrustZone.disabled()
                if "Mbi_MixinImageVersion" in mix:
                    kw["image_version"] = 3
                m = cls(**kw)
                m.family = fam
                data = m.export()
                n += 1
                word = unpack_from("<I", data, 0x28)[0]
                exp = crc32_mpeg2(data[:0x28] + data[0x2C:])
                if word != exp and len(fails) < 4:
                    fails.append({"inputs": {"family": fam, "image": name}, "detail": f"CRC word {word:#010x}, ROM computes {exp:#010x} over the image without that word",
                                  "obligation": "crc-word-matches-image-without-it"})
            except Exception as e:  # pylint: disable=broad-except
                if len(fails) < 4 and "MUST" not in str(e) and "mandatory" not in str(e).lower():
                    fails.append({"inputs": {"family": fam, "image": name}, "detail": f"{type(e).__name__}: {e}", "obligation": "crc-word-matches-image-without-it"})
    return [{"name": "CRC images against an independent CRC-32/MPEG-2", "function": "spsdk.image.mbi.mbi_mixin:Mbi_ExportMixinCrcSign.sign",
             "method": "every distinct key-less CRC composition of the live database, bit-serial reference CRC", "bound": f"{n} images", "cases": max(n, 1),
             "label": "bounded", "failures": fails}]
