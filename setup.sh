#!/bin/bash
# Builds /verif/.venv offline (python 3.12 overlay on /venv) with z3-solver, cvc5, crosshair, deal, icontract, hypothesis.
set -e
cd "$(dirname "$0")"
export PIP_NO_INDEX=1
if [ ! -x .venv/bin/python ] || ! .venv/bin/python -c "import z3, cvc5, jsonschema" 2>/dev/null; then
  rm -rf .venv
  /venv/bin/python -m venv .venv
  .venv/bin/pip install -q --no-index --find-links /opt/veriftools/wheels z3-solver cvc5 crosshair-tool deal icontract hypothesis jsonschema >/dev/null
  SP=$(.venv/bin/python -c "import sysconfig; print(sysconfig.get_paths()['purelib'])")
  echo "import site; site.addsitedir('/venv/lib/python3.12/site-packages')" > "$SP/zz_venv_overlay.pth"
fi
PYTHONPATH=/repo .venv/bin/python -c "import z3, cvc5, spsdk, sys; print('setup ok: z3', z3.get_version_string(), 'spsdk from', spsdk.__file__)"
