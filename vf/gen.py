"""Concrete input generation from contract type descriptors (bounded stand-in / encoder cross-check)."""
from __future__ import annotations

import enum
import random
import typing
from typing import Any

from . import api

_LENS = [0, 1, 2, 3, 4, 5, 7, 8, 12, 15, 16, 17, 20, 31, 32, 33, 48, 63, 64, 65, 100, 128, 255, 256, 257]


def gen_int(rnd: random.Random, lo: Any = None, hi: Any = None) -> int:
    if lo is not None and hi is not None:
        c = rnd.random()
        if c < 0.15:
            return lo
        if c < 0.3:
            return hi
        if c < 0.4 and hi - lo >= 2:
            return rnd.choice([lo + 1, hi - 1])
        if c < 0.6:
            k = rnd.randrange(0, max(1, (hi - lo).bit_length()))
            v = lo + (1 << k) + rnd.choice([-1, 0, 1])
            return min(hi, max(lo, v))
        return rnd.randint(lo, hi)
    c = rnd.random()
    if c < 0.25:
        v = rnd.choice([0, 1, 2, 3, 4, 5, 7, 8, 15, 16, 17, 255, 256, 257, 0xFFFF, 0x10000, 0xFFFFFFFF, 0x100000000])
    elif c < 0.5:
        k = rnd.randrange(0, 70)
        v = (1 << k) + rnd.choice([-1, 0, 1])
    elif c < 0.55:
        v = rnd.getrandbits(rnd.choice([128, 256, 512]))
    elif c < 0.8:
        v = rnd.randrange(0, 1000)
    else:
        v = rnd.getrandbits(rnd.randrange(1, 65))
    if lo is None and hi is None and rnd.random() < 0.2:
        v = -v
    if lo is not None:
        v = max(lo, v) if rnd.random() < 0.9 else lo
    if hi is not None:
        v = min(hi, v)
    return v


def gen_bytes(rnd: random.Random, n: Any = None, lo: Any = None, hi: Any = None) -> bytes:
    if n is None:
        cands = [x for x in _LENS if (lo is None or x >= lo) and (hi is None or x <= hi)]
        if not cands or rnd.random() < 0.2:
            n = rnd.randint(lo or 0, hi if hi is not None else (lo or 0) + 300)
        else:
            n = rnd.choice(cands)
    c = rnd.random()
    if c < 0.1:
        return bytes(n)
    if c < 0.2:
        return b"\xff" * n
    if c < 0.3:
        return bytes((i & 0xFF) for i in range(n))
    return bytes(rnd.getrandbits(8) for _ in range(n))


def gen_value(reg: Any, typ: Any, rnd: random.Random) -> Any:
    if typ is int:
        return gen_int(rnd)
    if typ is bool:
        return rnd.random() < 0.5
    if typ is bytes:
        return gen_bytes(rnd)
    if typ is bytearray:
        return bytearray(gen_bytes(rnd))
    if typ is str:
        return rnd.choice(["", "0", "abc", "0x10", "zeros"])
    if typ is None or typ is type(None):
        return None
    if isinstance(typ, api.Range):
        return gen_int(rnd, typ.lo, typ.hi)
    if isinstance(typ, api.Bytes):
        b = gen_bytes(rnd, typ.n, typ.lo, typ.hi)
        return bytearray(b) if typ.mutable else b
    if isinstance(typ, api.Const):
        return typ.value
    if isinstance(typ, api.OneOf):
        return rnd.choice(list(typ.values))
    if isinstance(typ, api.ListOf):
        return [gen_value(reg, typ.elem, rnd) for _ in range(typ.n)]
    if isinstance(typ, api.DictOf):
        return {k: gen_value(reg, t, rnd) for k, t in typ.fields.items()}
    if isinstance(typ, api.Seq):
        n = rnd.choice([typ.lo, typ.lo + 1, typ.lo + 2, typ.lo + 5]) if typ.hi is None else rnd.randint(typ.lo, min(typ.hi, typ.lo + 8))
        return [gen_value(reg, typ.elem, rnd) for _ in range(n)]
    if isinstance(typ, api.Obj):
        cls = reg._resolve_class(typ.cls) if isinstance(typ.cls, str) else typ.cls
        o = object.__new__(cls)
        for k, t in typ.fields.items():
            object.__setattr__(o, k, gen_value(reg, t, rnd))
        return o
    if isinstance(typ, api.GhostDevice):
        from specs.mboot import FakeDevice

        return FakeDevice(bytes(rnd.getrandbits(8) for _ in range(rnd.randrange(0, 80))))
    if isinstance(typ, api.Opaque):
        return None
    origin = typing.get_origin(typ)
    if origin is typing.Union:
        return gen_value(reg, rnd.choice(typing.get_args(typ)), rnd)
    if isinstance(typ, type) and (typ.__module__ or "").startswith("spsdk"):
        key = f"{typ.__module__}:{typ.__qualname__}"
        if key in reg.shapes:
            return gen_value(reg, api.Obj(typ, **reg.shapes[key]()), rnd)
        if issubclass(typ, enum.Enum):
            return rnd.choice(list(typ))
    raise ValueError(f"cannot generate a value of type {typ!r}")
