"""Symbolic value domain of vf.

Python ints are SMT Ints (exact).  Byte strings use the *pointwise view*: a value is (n, at) with
n an Int term and at a Python closure mapping an Int index term to an Int term in [0, 256).
Base atoms are uninterpreted functions Int -> Int with a range axiom (pattern-triggered).
Objects have a concrete shape (dict of fields) and symbolic leaves.
"""
from __future__ import annotations

import itertools
from typing import Any, Callable, Optional

import z3


class Unsupported(Exception):
    """The construct is outside the verified subset (never a verdict)."""


class DeadPath(Exception):
    """Current path condition is unsatisfiable."""


class Sym:
    """Base of symbolic (immutable) values."""

    def __deepcopy__(self, memo: dict) -> "Sym":
        return self

    def __copy__(self) -> "Sym":
        return self

    def __bool__(self) -> bool:
        raise Unsupported(f"implicit concretisation (bool) of symbolic value {self!r}")

    def __eq__(self, other: Any) -> bool:  # type: ignore[override]
        if other is self:
            return True
        raise Unsupported(f"implicit concretisation (==) of symbolic value {self!r}")

    def __ne__(self, other: Any) -> bool:  # type: ignore[override]
        if other is self:
            return False
        raise Unsupported(f"implicit concretisation (!=) of symbolic value {self!r}")

    def __hash__(self) -> int:
        return id(self)


class SInt(Sym):
    __slots__ = ("t", "tz", "prov", "bits")

    def __init__(self, t: z3.ArithRef, tz: int = 0, prov: Any = None, bits: Any = None):
        self.t = t
        self.tz = tz  # number of low bits syntactically known to be zero
        self.bits = bits  # ("within", lo, w): only bits [lo, lo+w) may be set; ("clear", lo, w): those bits are zero
        self.prov = prov  # ("from_bytes", SBytes, order, n): positional-notation provenance (A-struct identities)

    def __repr__(self) -> str:
        return f"SInt({self.t})"


class SBool(Sym):
    __slots__ = ("t",)

    def __init__(self, t: z3.BoolRef):
        self.t = t

    def __repr__(self) -> str:
        return f"SBool({self.t})"


class SBytes(Sym):
    """Immutable byte string (bytes).  n: Int term, at: index term -> Int term in [0,256)."""

    __slots__ = ("n", "at", "name", "prov", "parts")

    def __init__(self, n: Any, at: Callable[[Any], Any], name: str = "", prov: Any = None, parts: Any = None):
        self.n = n if z3.is_expr(n) else z3.IntVal(n)
        self.at = at
        self.name = name
        self.prov = prov
        self.parts = parts  # for concatenations of concrete-length pieces: [(offset, piece)] so that exact sub-slices keep their identity  # ("to_bytes", int term, order, n): these bytes are the n-digit base-256 notation of a value

    def __repr__(self) -> str:
        return f"SBytes({self.name or '?'}, n={self.n})"

    def conc_len(self) -> Optional[int]:
        s = z3.simplify(self.n)
        return s.as_long() if z3.is_int_value(s) else None


class SByteArray:
    """Mutable box around an SBytes (bytearray).  Copied on deepcopy."""

    def __init__(self, v: SBytes):
        self.v = v

    def __repr__(self) -> str:
        return f"SByteArray({self.v!r})"

    def __deepcopy__(self, memo: dict) -> "SByteArray":
        r = SByteArray(self.v)
        memo[id(self)] = r
        return r


class SMemView:
    """memoryview over a bytes value or a bytearray box: window [lo, lo+n)."""

    def __init__(self, base: Any, lo: Any, n: Any):
        self.base, self.lo, self.n = base, lo, n

    def view(self) -> SBytes:
        b = self.base.v if isinstance(self.base, SByteArray) else self.base
        lo = self.lo
        return SBytes(self.n, lambda i, b=b, lo=lo: b.at(lo + i), "mv")

    def __deepcopy__(self, memo: dict) -> "SMemView":
        import copy as _copy

        r = SMemView(_copy.deepcopy(self.base, memo), self.lo, self.n)
        memo[id(self)] = r
        return r


class SStr(Sym):
    """Opaque symbolic string: supports only == / != against strings and truthiness via its tag term."""

    __slots__ = ("t", "name")

    def __init__(self, t: Any, name: str = ""):
        self.t = t  # term of sort StrSort (uninterpreted)
        self.name = name

    def __repr__(self) -> str:
        return f"SStr({self.name})"


class SSeq(Sym):
    """Symbolic-length immutable sequence of values: n Int term, at(i) -> value."""

    __slots__ = ("n", "at", "name")

    def __init__(self, n: Any, at: Callable[[Any], Any], name: str = ""):
        self.n = n if z3.is_expr(n) else z3.IntVal(n)
        self.at = at
        self.name = name

    def __repr__(self) -> str:
        return f"SSeq({self.name}, n={self.n})"


class SObj:
    """Object of a real class with a concrete shape and symbolic leaves."""

    _ids = itertools.count()

    def __init__(self, cls: type, fields: Optional[dict] = None, name: str = ""):
        self.cls = cls
        self.fields = fields if fields is not None else {}
        self.name = name or f"{cls.__name__}#{next(SObj._ids)}"

    def __repr__(self) -> str:
        return f"SObj({self.name})"


class SExc:
    """A raised exception value inside the interpreted program."""

    def __init__(self, cls: type, args: tuple = ()):
        self.cls = cls
        self.args = args

    def __repr__(self) -> str:
        return f"SExc({self.cls.__name__})"


class PyRaise(Exception):
    """Interpreted program raised an exception."""

    def __init__(self, exc: SExc):
        super().__init__(exc.cls.__name__)
        self.exc = exc


StrSort = z3.DeclareSort("PyStr")
_str_consts: dict = {}


def str_const(s: str) -> Any:
    """Distinct constant of StrSort per concrete string (distinctness asserted by the context)."""
    if s not in _str_consts:
        _str_consts[s] = z3.Const(f"str!{len(_str_consts)}!{s[:20]}", StrSort)
    return _str_consts[s]


def is_sym(v: Any) -> bool:
    return isinstance(v, Sym)


def is_int_like(v: Any) -> bool:
    return isinstance(v, (SInt, SBool)) or (isinstance(v, int))


def is_bytes_like(v: Any) -> bool:
    return isinstance(v, (SBytes, SByteArray, bytes, bytearray, SMemView))


def int_term(v: Any) -> Any:
    """Int term of an int-like value (bool counts as 0/1)."""
    if isinstance(v, SInt):
        return v.t
    if isinstance(v, SBool):
        return z3.If(v.t, z3.IntVal(1), z3.IntVal(0))
    if isinstance(v, bool):
        return z3.IntVal(1 if v else 0)
    if isinstance(v, int):
        return z3.IntVal(v)
    raise Unsupported(f"not an int-like value: {v!r}")


def bool_term(v: Any) -> Any:
    if isinstance(v, SBool):
        return v.t
    if isinstance(v, bool):
        return z3.BoolVal(v)
    raise Unsupported(f"not a bool value: {v!r}")


def mk_int(t: Any, tz: int = 0) -> Any:
    """Wrap an Int term, concretising literal values."""
    if isinstance(t, int):
        return t
    s = z3.simplify(t)
    if z3.is_int_value(s):
        return s.as_long()
    return SInt(t, tz)


def mk_bool(t: Any) -> Any:
    if isinstance(t, bool):
        return t
    s = z3.simplify(t)
    if z3.is_true(s):
        return True
    if z3.is_false(s):
        return False
    return SBool(t)


def as_sbytes(v: Any) -> SBytes:
    """View any bytes-like value as SBytes."""
    if isinstance(v, SBytes):
        return v
    if isinstance(v, SByteArray):
        return v.v
    if isinstance(v, SMemView):
        return v.view()
    if isinstance(v, (bytes, bytearray)):
        data = bytes(v)
        n = len(data)
        if n == 0:
            return SBytes(0, lambda i: z3.IntVal(0), "b''")
        if len(set(data)) == 1:
            c = data[0]
            return SBytes(n, lambda i, c=c: z3.IntVal(c), f"const{c}*{n}")

        def at(i: Any, data: bytes = data) -> Any:
            if isinstance(i, int):
                return z3.IntVal(data[i]) if 0 <= i < len(data) else z3.IntVal(0)
            si = z3.simplify(i)
            if z3.is_int_value(si):
                k = si.as_long()
                return z3.IntVal(data[k]) if 0 <= k < len(data) else z3.IntVal(0)
            if len(data) > 4096:
                raise Unsupported("symbolic index into a long concrete byte string")
            e: Any = z3.IntVal(data[-1])
            for k in range(len(data) - 2, -1, -1):
                e = z3.If(i == k, z3.IntVal(data[k]), e)
            return e

        return SBytes(n, at, f"lit{n}")
    raise Unsupported(f"not bytes-like: {v!r}")


class SReal(Sym):
    """Exact rational (models Python float under assumption A-float)."""

    __slots__ = ("t",)

    def __init__(self, t: Any):
        self.t = t

    def __repr__(self) -> str:
        return f"SReal({self.t})"


class BoundMethod:
    """Method of the interpreted program bound to a (symbolic) receiver."""

    def __init__(self, func: Any, recv: Any, defcls: Optional[type] = None):
        self.func = func
        self.recv = recv
        self.defcls = defcls

    def __repr__(self) -> str:
        return f"BoundMethod({getattr(self.func, '__qualname__', self.func)})"


class Closure:
    """Lambda / nested def of the interpreted program."""

    def __init__(self, node: Any, frame: Any):
        self.node = node
        self.frame = frame
