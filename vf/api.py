"""Names imported by sidecar contract files.  Clause functions are *markers*: contract bodies are
never executed by CPython in symbolic mode; they are parsed and interpreted by vf.  The runtime form
(replay, bounded checks) compiles the same clause expressions and evaluates them with the helpers
defined at the bottom of this file.
"""
from __future__ import annotations

import typing
from typing import Any, Callable, Optional

REGISTRY: dict = {"contracts": [], "invariants": [], "inline": set(), "lemmas": [], "shapes": {}, "ufs": {},
                  "assumed": [], "concrete_ok": set()}


# ---- decorators ---------------------------------------------------------------------------------
def contract(target: str, **opts: Any) -> Callable:
    """Contract of a real function `module:qualname`, verified against its body."""

    def deco(fn: Callable) -> Callable:
        REGISTRY["contracts"].append({"target": target, "fn": fn, "opts": opts, "assumed": False})
        return fn

    return deco


def assumed(target: str, reason: str = "", **opts: Any) -> Callable:
    """Contract that is *assumed* (dependency / outside subset); listed in the trusted base."""

    def deco(fn: Callable) -> Callable:
        REGISTRY["contracts"].append({"target": target, "fn": fn, "opts": opts, "assumed": True, "reason": reason})
        return fn

    return deco


def invariant(target: str, loop: int = 0, **opts: Any) -> Callable:
    def deco(fn: Callable) -> Callable:
        REGISTRY["invariants"].append({"target": target, "loop": loop, "fn": fn, "opts": opts})
        return fn

    return deco


def lemma(name: str, **opts: Any) -> Callable:
    """A lemma over contracts / spec functions: params are universally quantified, body = clauses."""

    def deco(fn: Callable) -> Callable:
        REGISTRY["lemmas"].append({"name": name, "fn": fn, "opts": opts})
        return fn

    return deco


def inline(*targets: str) -> None:
    """Transparent callees: their real body is executed in place of a contract (listed in evidence)."""
    REGISTRY["inline"].update(targets)


def concrete_ok(*targets: str) -> None:
    """Pure repository callables that may be executed natively when every argument is concrete."""
    REGISTRY["concrete_ok"].update(targets)


def shape(target: str) -> Callable:
    """Shape (fields and their types) of objects of a real class, as a function returning a dict."""

    def deco(fn: Callable) -> Callable:
        REGISTRY["shapes"][target] = fn
        return fn

    return deco


class _UF:
    def __init__(self, fn: Callable, result: Any, length: Any, name: str, inverse_of: Any = None, upper: Any = None, blockwise: Any = None,
                 native: bool = False):
        self.native = native  # int -> int symbol that is a genuine solver function (usable under quantifiers), never evaluated concretely
        self.blockwise = blockwise  # (block size, index of the counter arg, index of the payload arg): counter-mode definition law
        self.upper = upper  # optional: upper bound of an int result as a function of the (concrete) arguments
        self.fn = fn
        self.result = result
        self.length = length
        self.name = name
        self.inverse_of = inverse_of  # (name of the forward UF, indices of the shared args, index of the payload arg)
        self.__name__ = name

    def __call__(self, *a: Any, **k: Any) -> Any:
        return self.fn(*a, **k)


def uninterpreted(result: Any = bytes, length: Any = None, name: Optional[str] = None, inverse_of: Any = None, upper: Any = None,
                  blockwise: Any = None, native: bool = False) -> Callable:
    """Spec-level uninterpreted function.  Symbolically: fresh result + congruence; at run time: fn.
    inverse_of=(F, shared, payload) adds the law  G(shared.., F(shared.., x)) == x  (A-crypto-laws).
    blockwise=(bs, counter_idx, payload_idx) adds the definition of counter mode: on a payload of k*bs bytes (k concrete, > 1) the
    function is the concatenation of its applications to the single blocks with the big-endian 128-bit counter advanced by the block
    number (so only the single-block function stays uninterpreted)."""

    def deco(fn: Callable) -> _UF:
        u = _UF(fn, result, length, name or fn.__name__, inverse_of, upper, blockwise, native)
        REGISTRY["ufs"][u.name] = u
        return u

    return deco


# ---- clause markers (only meaningful inside contract bodies) ----------------------------------------
def requires(cond: Any, label: str = "") -> None: ...
def ensures(cond: Any, label: str = "") -> None: ...
def returns(expr: Any, label: str = "") -> None: ...
def raises(exc: type, when: Any = True, label: str = "") -> None: ...
def may_raise(exc: type) -> None: ...
def modifies(*targets: Any) -> None: ...
def pure() -> None: ...
def let(**bindings: Any) -> None: ...
def cover(**kwargs: Any) -> None: ...
def holds(cond: Any, label: str = "") -> None: ...
def variant(expr: Any) -> None: ...
def declare(**types: Any) -> None: ...
def assume(cond: Any, reason: str = "") -> None: ...
def check(cond: Any, label: str = "") -> None: ...
def fresh_result(typ: Any = None) -> None: ...
def sample(**types: Any) -> None: ...
def sample_with(generator: Any) -> None: ...
def verify_types(**types: Any) -> None: ...
def replay_with(realize: Any) -> None: ...
def known_finding(finding_id: str, when: Any = True) -> None: ...


# ---- type descriptors -----------------------------------------------------------------------------
class TypeDesc:
    pass


class Range(TypeDesc):
    def __init__(self, lo: Optional[int] = None, hi: Optional[int] = None):
        self.lo, self.hi = lo, hi


Nat = Range(0, None)
U8 = Range(0, 0xFF)
U16 = Range(0, 0xFFFF)
U32 = Range(0, 0xFFFFFFFF)
U64 = Range(0, (1 << 64) - 1)


class Bytes(TypeDesc):
    """bytes of fixed length n (int) or of a length in [lo, hi]."""

    def __init__(self, n: Optional[int] = None, lo: Optional[int] = None, hi: Optional[int] = None, mutable: bool = False):
        self.n, self.lo, self.hi, self.mutable = n, lo, hi, mutable


class OneOf(TypeDesc):
    def __init__(self, *values: Any):
        self.values = values


class Const(TypeDesc):
    def __init__(self, value: Any):
        self.value = value


class Obj(TypeDesc):
    """Object of a real class (given as class or 'module:Class') with typed fields."""

    def __init__(self, cls: Any, **fields: Any):
        self.cls, self.fields = cls, fields


class SubObj(Obj):
    """Like Obj, but at call sites objects of subclasses are accepted too (for methods that use nothing a subclass overrides:
    stated by the contract author, listed in the evidence as an assumption of the call site)."""


class ListOf(TypeDesc):
    """List of concrete length n with elements of type elem."""

    def __init__(self, elem: Any, n: int):
        self.elem, self.n = elem, n


class DictOf(TypeDesc):
    """dict with exactly these (concrete) keys and typed values."""

    def __init__(self, **fields: Any):
        self.fields = fields


class Seq(TypeDesc):
    """Sequence of symbolic length with elements of type elem (read-only)."""

    def __init__(self, elem: Any, lo: int = 0, hi: Optional[int] = None):
        self.elem, self.lo, self.hi = elem, lo, hi


class GhostDevice(TypeDesc):
    """A DeviceBase seen as two ghost byte streams: rx (what the device will deliver, universally quantified) and tx (what was written)."""


class Alias(TypeDesc):
    """The parameter is the very object another parameter path denotes, e.g. Alias("self._segments[1]")."""

    def __init__(self, path: str):
        self.path = path


class Opaque(TypeDesc):
    """A value the function only passes around."""


# ---- spec helpers with a runtime meaning ---------------------------------------------------------
class _Result:
    def __repr__(self) -> str:
        return "<result>"


result = _Result()  # placeholder; bound by the evaluator


def old(x: Any) -> Any:  # replaced by the evaluator
    return x


def implies(a: Any, b: Any) -> bool:
    return (not a) or bool(b)


def forall(lo: int, hi: int, pred: Callable[[int], Any]) -> bool:
    return all(pred(k) for k in range(lo, hi))


def exists(lo: int, hi: int, pred: Callable[[int], Any]) -> bool:
    return any(pred(k) for k in range(lo, hi))


def ite(c: Any, a: Any, b: Any) -> Any:
    return a if c else b


def raised(exc: type) -> bool:  # replaced by the evaluator (post-state of exceptional paths)
    return False


RNG_RECORDER: list = []  # run-time form: outputs of the OS generator drawn during the call under check


def fresh_in_call(x: Any, except_at: tuple = ()) -> bool:
    """x is a value the random generator produced *during this call* (ghost: rng.tick advanced inside the call), possibly
    with the bytes at the listed indices altered afterwards."""
    if not isinstance(x, (bytes, bytearray)):
        return False
    for d in RNG_RECORDER:
        if len(d) == len(x) and all(x[i] == d[i] for i in range(len(x)) if i not in except_at):
            return True
    return False


def drawn_tick(x: Any) -> int:
    """Tick (position in the sequence of draws of this call) at which x was produced, -1 if x is not a draw of this call."""
    for i, d in enumerate(RNG_RECORDER):
        if isinstance(x, (bytes, bytearray)) and bytes(x) == d:
            return i
    return -1


def ghost_const(name: str, typ: Any = bytes) -> Any:
    """A fixed but unknown value of the environment (same value at every use within one execution)."""
    raise NotImplementedError("ghost constants have no run-time form")


def ghost_exists(path: str) -> bool:
    """Whether the file system has the path; run-time form: the real os.path.exists."""
    import os

    return os.path.exists(path)


def ghost_stat(path: str) -> tuple:
    """(modification time in ns, size) the file system reports for a path; run-time form: the real os.stat."""
    import os

    st = os.stat(path)
    return (st.st_mtime_ns, st.st_size)


def typed(x: Any, t: Any) -> bool:
    return isinstance(x, t)


def bit(x: int, i: int) -> bool:
    return bool((x >> i) & 1)


def byte_at(v: int, j: int) -> int:
    """Little-endian digit j of a non-negative integer."""
    return (v >> (8 * j)) & 0xFF


def pow2(n: int) -> int:
    return 1 << n


Optional = typing.Optional
Union = typing.Union
