"""Contract registry: loads sidecar files, extracts real function ASTs from the repository tree,
applies contracts at call sites, builds symbolic parameters."""
from __future__ import annotations

import ast
import copy
import hashlib
import importlib
import importlib.util
import inspect
import os
import sys
import types
import typing
from typing import Any, Optional

import z3

from . import api, ops
from .path import Path
from .sym import (
    DeadPath,
    PyRaise,
    SBool,
    SByteArray,
    SBytes,
    SExc,
    SInt,
    SObj,
    SSeq,
    SStr,
    Sym,
    Unsupported,
    as_sbytes,
    bool_term,
    int_term,
    is_bytes_like,
    is_int_like,
    is_sym,
    mk_bool,
    mk_int,
)

REPO = os.environ.get("VF_REPO", "/repo")
VERIF = os.path.dirname(os.path.dirname(os.path.abspath(__file__)))

CLAUSES = {"requires", "ensures", "returns", "raises", "may_raise", "modifies", "pure", "let", "cover", "holds",
           "variant", "declare", "assume", "check", "fresh_result", "sample", "sample_with", "verify_types", "replay_with", "known_finding"}


class Clause:
    def __init__(self, kind: str, node: ast.Call, idx: int):
        self.kind = kind
        self.node = node
        self.idx = idx
        self.label = ""
        for kw in node.keywords:
            if kw.arg == "label" and isinstance(kw.value, ast.Constant):
                self.label = str(kw.value.value)

    def arg(self, i: int = 0) -> Optional[ast.expr]:
        return self.node.args[i] if len(self.node.args) > i else None

    def kwarg(self, name: str) -> Optional[ast.expr]:
        for kw in self.node.keywords:
            if kw.arg == name:
                return kw.value
        return None


class Contract:
    def __init__(self, target: str, fn: Any, node: ast.FunctionDef, module: Any, opts: dict, assumed: bool,
                 reason: str = ""):
        self.target = target
        self.fn = fn
        self.node = node
        self.module = module
        self.opts = opts
        self.assumed = assumed
        self.reason = reason
        self.clauses: list[Clause] = []
        self.pre_stmts: list = []
        for i, st in enumerate(node.body):
            if isinstance(st, ast.Expr) and isinstance(st.value, ast.Call) and isinstance(st.value.func, ast.Name) \
                    and st.value.func.id in CLAUSES:
                self.clauses.append(Clause(st.value.func.id, st.value, i))
            elif isinstance(st, ast.Expr) and isinstance(st.value, ast.Constant):
                continue
            elif isinstance(st, ast.Pass):
                continue
            else:
                raise SyntaxError(f"{target}: contract bodies may contain only clause calls (line {st.lineno})")
        self.params = [a.arg for a in node.args.posonlyargs + node.args.args + node.args.kwonlyargs]
        self.ann: dict = {}
        for a in node.args.posonlyargs + node.args.args + node.args.kwonlyargs:
            if a.annotation is not None:
                self.ann[a.arg] = eval(compile(ast.Expression(a.annotation), module.__file__, "eval"), module.__dict__)
        self.ret_ann = None
        if node.returns is not None:
            self.ret_ann = eval(compile(ast.Expression(node.returns), module.__file__, "eval"), module.__dict__)
        self.source = ast.get_source_segment(open(module.__file__).read(), node) or ""

    def of(self, *kinds: str) -> list:
        return [c for c in self.clauses if c.kind in kinds]

    @property
    def is_pure(self) -> bool:
        return bool(self.of("pure")) or not self.of("modifies")


class OpaqueValue:
    """A value the function only passes around (any use other than storing / passing it is outside the contract)."""

    def __init__(self, name: str):
        self.name = name

    def __repr__(self) -> str:
        return f"<opaque {self.name}>"


class AstFunc:
    """A function known only by its AST (sly grammar actions share one name: located by production string)."""

    def __init__(self, target: str, node: ast.FunctionDef, module: Any, path: str):
        self.target = target
        self.node = node
        self.module = module
        self.path = path
        self.__module__ = module.__name__
        self.__qualname__ = target.split(":")[1]
        self.__name__ = node.name


class Registry:
    def __init__(self) -> None:
        self.contracts: dict = {}
        self.invariants: dict = {}
        self.lemmas: list = []
        self.inline: set = set()
        self.shapes: dict = {}
        self._ast_cache: dict = {}
        self._fn_cache: dict = {}
        self._sig_cache: dict = {}
        self.unroll_limit = 0
        self.verifying: Optional[str] = None
        self.force_inline: set = set()
        self.files: list = []
        self.concrete_ok: set = set()

    # ---- loading ------------------------------------------------------------------------------
    def load_file(self, path: str) -> None:
        path = os.path.abspath(path)
        modname = "contracts." + os.path.splitext(os.path.basename(path))[0]
        for key in ("contracts", "invariants", "lemmas"):
            api.REGISTRY[key] = []
        spec = importlib.util.spec_from_file_location(modname, path)
        assert spec and spec.loader
        mod = importlib.util.module_from_spec(spec)
        sys.modules[modname] = mod
        spec.loader.exec_module(mod)
        tree = ast.parse(open(path).read(), path)
        by_line = {}
        for n in ast.walk(tree):
            if isinstance(n, ast.FunctionDef):
                by_line[n.lineno] = n
                for d in n.decorator_list:
                    by_line[d.lineno] = n

        def node_of(fn: Any) -> ast.FunctionDef:
            ln = fn.__code__.co_firstlineno
            for cand in (ln, ln + 1, ln - 1):
                if cand in by_line:
                    return by_line[cand]
            raise KeyError(f"cannot locate AST of {fn} in {path}")

        for c in api.REGISTRY["contracts"]:
            con = Contract(c["target"], c["fn"], node_of(c["fn"]), mod, c["opts"], c["assumed"], c.get("reason", ""))
            if con.target in self.contracts:
                raise KeyError(f"duplicate contract for {con.target}")
            self.contracts[con.target] = con
        for iv in api.REGISTRY["invariants"]:
            con = Contract(iv["target"], iv["fn"], node_of(iv["fn"]), mod, iv["opts"], False)
            self.invariants[(iv["target"], iv["loop"])] = con
        for lm in api.REGISTRY["lemmas"]:
            con = Contract("lemma:" + lm["name"], lm["fn"], node_of(lm["fn"]), mod, lm["opts"], False)
            self.lemmas.append(con)
        self.inline |= api.REGISTRY["inline"]
        self.concrete_ok |= api.REGISTRY["concrete_ok"]
        self.shapes.update(api.REGISTRY["shapes"])
        self.files.append(path)

    # ---- real functions -----------------------------------------------------------------------
    def qualname(self, func: Any) -> str:
        if isinstance(func, AstFunc):
            return func.target
        return f"{func.__module__}:{func.__qualname__}"

    def resolve(self, target: str) -> tuple:
        """'module:Class.method' -> (function object, defining class or None)."""
        if target in self._fn_cache:
            return self._fn_cache[target]
        modname, qual = target.split(":")
        mod = importlib.import_module(modname)
        if qual.endswith("@setter"):
            obj2: Any = mod
            owner2 = None
            for part in qual[: -len("@setter")].split("."):
                owner2 = obj2 if isinstance(obj2, type) else None
                obj2 = inspect.getattr_static(obj2, part)
            if not isinstance(obj2, property) or obj2.fset is None:
                raise Unsupported(f"{target} is not a property with a setter")
            self._fn_cache[target] = (obj2.fset, owner2)
            return obj2.fset, owner2
        if "@" in qual:
            qn, prod = qual.split("@", 1)
            clsname, meth = qn.split(".")
            path = mod.__file__
            tree = ast.parse(open(path).read(), path)
            found = None
            for c in ast.walk(tree):
                if isinstance(c, ast.ClassDef) and c.name == clsname:
                    for n in c.body:
                        if isinstance(n, ast.FunctionDef) and n.name == meth:
                            prods = [a.value for d in n.decorator_list if isinstance(d, ast.Call)
                                     for a in d.args if isinstance(a, ast.Constant)]
                            if prod in prods:
                                found = n
            if found is None:
                raise Unsupported(f"{target}: no action with that production")
            res = (AstFunc(target, found, mod, path), getattr(mod, clsname))
            self._fn_cache[target] = res
            return res
        obj: Any = mod
        owner = None
        for part in qual.split("."):
            owner = obj if isinstance(obj, type) else None
            obj = inspect.getattr_static(obj, part)
        if isinstance(obj, (staticmethod, classmethod)):
            obj = obj.__func__
        if isinstance(obj, property):
            obj = obj.fget
        if not isinstance(obj, types.FunctionType):
            raise Unsupported(f"{target} is not a python function")
        self._fn_cache[target] = (obj, owner)
        return obj, owner

    def function_ast(self, func: Any) -> tuple:
        """AST of the real function, parsed from the working tree, and its module globals."""
        if isinstance(func, AstFunc):
            return (func.node, func.module.__dict__)
        key = (func.__module__, func.__qualname__, func.__code__.co_firstlineno)
        if key in self._ast_cache:
            return self._ast_cache[key]
        mod = sys.modules[func.__module__]
        path = inspect.getsourcefile(func) or mod.__file__
        assert path
        src = open(path).read()
        tree = self._ast_cache.get(("file", path))
        if tree is None:
            tree = ast.parse(src, path)
            self._ast_cache[("file", path)] = tree
        line = func.__code__.co_firstlineno
        found = None
        for n in ast.walk(tree):
            if isinstance(n, (ast.FunctionDef, ast.AsyncFunctionDef)) and n.name == func.__name__:
                first = min([n.lineno] + [d.lineno for d in n.decorator_list])
                if first == line or n.lineno == line:
                    found = n
                    break
        if found is None:
            raise Unsupported(f"cannot locate source of {self.qualname(func)}")
        res = (found, mod.__dict__)
        self._ast_cache[key] = res
        return res

    def source_info(self, func: Any) -> dict:
        node, _ = self.function_ast(func)
        stripped = strip_for_hash(node)
        text = ast.unparse(stripped)
        return {"file": os.path.relpath((func.path if isinstance(func, AstFunc) else inspect.getsourcefile(func)) or "", REPO), "line": node.lineno,
                "sha256": hashlib.sha256(text.encode()).hexdigest(), "text": text}

    def signature(self, func: Any) -> inspect.Signature:
        k = id(func)
        if k not in self._sig_cache:
            if isinstance(func, AstFunc):
                a = func.node.args
                names = [x.arg for x in a.posonlyargs + a.args]
                prms = [inspect.Parameter(nm, inspect.Parameter.POSITIONAL_OR_KEYWORD) for nm in names]
                self._sig_cache[k] = inspect.Signature(prms)
            else:
                self._sig_cache[k] = inspect.signature(func)
        return self._sig_cache[k]

    def contract_for(self, func: Any) -> Optional[Contract]:
        if isinstance(func, AstFunc):
            return self.contracts.get(func.target)
        if not isinstance(func, types.FunctionType):
            return None
        return self.contracts.get(self.qualname(func))

    def is_under_inline(self, func: Any) -> bool:
        return self.qualname(func) in self.force_inline

    def may_inline(self, func: Any) -> bool:
        q = self.qualname(func)
        return q in self.inline or q in self.force_inline

    def invariant_for(self, qual: str, k: int) -> Optional[Contract]:
        return self.invariants.get((qual, k))

    # ---- symbolic values from type descriptors --------------------------------------------------
    def make_symbolic(self, it: Any, name: str, typ: Any) -> Any:
        p: Path = it.p
        if typ is int:
            return p.fresh_int(name)
        if typ is bool:
            return p.fresh_bool(name)
        if typ is bytes:
            return p.fresh_bytes(name)
        if typ is bytearray:
            return SByteArray(p.fresh_bytes(name))
        if typ is str:
            return p.fresh_str(name)
        if typ is type(None) or typ is None:
            return None
        if isinstance(typ, api.Range):
            return p.fresh_int(name, typ.lo, typ.hi)
        if isinstance(typ, api.Bytes):
            b = p.fresh_bytes(name, typ.n)
            if typ.lo is not None:
                p.assume(b.n >= typ.lo)
            if typ.hi is not None:
                p.assume(b.n <= typ.hi)
            return SByteArray(b) if typ.mutable else b
        if isinstance(typ, api.GhostDevice):
            from .extmodels import GhostDev

            return GhostDev(it, name)
        if isinstance(typ, api.Opaque):
            return OpaqueValue(name)
        if isinstance(typ, api.Const):
            return typ.value
        if isinstance(typ, api.OneOf):
            d = p.choose(len(typ.values), f"oneof:{name}")
            return typ.values[d]
        if isinstance(typ, api.ListOf):
            return [self.make_symbolic(it, f"{name}[{i}]", typ.elem) for i in range(typ.n)]
        if isinstance(typ, api.DictOf):
            return {k: self.make_symbolic(it, f"{name}[{k!r}]", t) for k, t in typ.fields.items()}
        if isinstance(typ, api.Seq):
            nm = p._name(name)
            n = z3.Int(nm + ".len")
            p.assume(n >= typ.lo)
            if typ.hi is not None:
                p.assume(n <= typ.hi)
            if typ.elem is int or isinstance(typ.elem, api.Range):
                fn = z3.Function(nm, z3.IntSort(), z3.IntSort())
                p.atoms[nm] = ("intseq", fn, n)
                if isinstance(typ.elem, api.Range):
                    k = z3.Int("k!ax")
                    cs = []
                    if typ.elem.lo is not None:
                        cs.append(fn(k) >= typ.elem.lo)
                    if typ.elem.hi is not None:
                        cs.append(fn(k) <= typ.elem.hi)
                    if cs:
                        p.assume(z3.ForAll([k], z3.And(cs), patterns=[fn(k)]))
                return SSeq(n, lambda i, fn=fn: SInt(fn(i)), nm)
            raise Unsupported("Seq of non-int elements")
        if isinstance(typ, api.Obj):
            cls = typ.cls
            if isinstance(cls, str):
                cls = self._resolve_class(cls)
            o = SObj(cls, {}, name=name)
            for fname, ftyp in typ.fields.items():
                o.fields[fname] = self.make_symbolic(it, f"{name}.{fname}", ftyp)
            return o
        origin = typing.get_origin(typ)
        if origin is typing.Union:
            alts = typing.get_args(typ)
            d = p.choose(len(alts), f"union:{name}")
            return self.make_symbolic(it, name, alts[d])
        if isinstance(typ, type) and (typ.__module__ or "").startswith("spsdk"):
            key = f"{typ.__module__}:{typ.__qualname__}"
            if key in self.shapes:
                desc = self.shapes[key]()
                return self.make_symbolic(it, name, api.Obj(typ, **desc))
            import enum as _enum

            if issubclass(typ, _enum.Enum):
                members = list(typ)
                d = p.choose(len(members), f"enum:{name}")
                return members[d]
        raise Unsupported(f"no symbolic representation for type {typ!r} (parameter {name})")

    def conforms(self, it: Any, v: Any, typ: Any, name: str) -> Any:
        """True / False / z3 term: does value v lie in the domain described by typ?"""
        p: Path = it.p
        if isinstance(typ, api.Opaque):
            return True
        if isinstance(typ, api.GhostDevice):
            from .extmodels import GhostDev

            return isinstance(v, GhostDev)
        if isinstance(typ, api.Alias):
            return True
        if typ is int:
            return is_int_like(v)
        if typ is bool:
            return isinstance(v, (bool, SBool))
        if typ is bytes:
            return isinstance(v, (bytes, SBytes))
        if typ is bytearray:
            return isinstance(v, (bytearray, SByteArray))
        if typ is str:
            return isinstance(v, (str, SStr))
        if typ is None or typ is type(None):
            return v is None
        if isinstance(typ, api.Range):
            if not is_int_like(v):
                return False
            t = int_term(v)
            cs = []
            if typ.lo is not None:
                cs.append(t >= typ.lo)
            if typ.hi is not None:
                cs.append(t <= typ.hi)
            r = z3.simplify(z3.And(cs)) if cs else z3.BoolVal(True)
            return True if z3.is_true(r) else False if z3.is_false(r) else r
        if isinstance(typ, api.Bytes):
            if typ.mutable != isinstance(v, (bytearray, SByteArray)) or not is_bytes_like(v):
                return False
            b = as_sbytes(v)
            cs = []
            if typ.n is not None:
                cs.append(b.n == typ.n)
            if typ.lo is not None:
                cs.append(b.n >= typ.lo)
            if typ.hi is not None:
                cs.append(b.n <= typ.hi)
            r = z3.simplify(z3.And(cs)) if cs else z3.BoolVal(True)
            return True if z3.is_true(r) else False if z3.is_false(r) else r
        if isinstance(typ, api.Const):
            return (not ops.has_sym(v)) and (v is typ.value or v == typ.value)
        if isinstance(typ, api.OneOf):
            if ops.has_sym(v):
                return False
            return any(v is x or (type(v) is type(x) and v == x) for x in typ.values)
        if isinstance(typ, api.DictOf):
            if not isinstance(v, dict) or set(v) != set(typ.fields):
                return False
            return self._conj([self.conforms(it, v[k], t, f"{name}[{k!r}]") for k, t in typ.fields.items()])
        if isinstance(typ, api.ListOf):
            if not isinstance(v, (list, tuple)) or len(v) != typ.n:
                return False
            return self._conj([self.conforms(it, x, typ.elem, f"{name}[{i}]") for i, x in enumerate(v)])
        if isinstance(typ, api.Obj):
            cls = self._resolve_class(typ.cls) if isinstance(typ.cls, str) else typ.cls
            if isinstance(v, SObj):
                if v.cls is not cls and not (isinstance(typ, api.SubObj) and issubclass(v.cls, cls)):
                    return False
                parts = []
                for fname, ftyp in typ.fields.items():
                    if fname not in v.fields:
                        # a plain class attribute (constant) read through the instance, e.g. HAS_MEMORY_ID_BLOCK
                        cv = getattr(v.cls, fname, UNSET := object())
                        if cv is UNSET or callable(cv) or isinstance(cv, property):
                            return False
                        parts.append(self.conforms(it, cv, ftyp, f"{name}.{fname}"))
                        continue
                    parts.append(self.conforms(it, v.fields[fname], ftyp, f"{name}.{fname}"))
                return self._conj(parts)
            if type(v) is cls:
                parts = []
                for fname, ftyp in typ.fields.items():
                    if not hasattr(v, fname):
                        return False
                    parts.append(self.conforms(it, getattr(v, fname), ftyp, f"{name}.{fname}"))
                return self._conj(parts)
            return False
        if isinstance(typ, api.Seq):
            return isinstance(v, SSeq) or isinstance(v, (list, tuple))
        origin = typing.get_origin(typ)
        if origin is typing.Union:
            res = [self.conforms(it, v, a, name) for a in typing.get_args(typ)]
            if any(r is True for r in res):
                return True
            terms = [r for r in res if r is not False]
            if not terms:
                return False
            return z3.Or(terms) if len(terms) > 1 else terms[0]
        if isinstance(typ, type) and (typ.__module__ or "").startswith("spsdk"):
            key = f"{typ.__module__}:{typ.__qualname__}"
            if key in self.shapes:
                return self.conforms(it, v, api.Obj(typ, **self.shapes[key]()), name)
            return isinstance(v, typ) and not ops.has_sym(v)
        return False

    @staticmethod
    def _conj(parts: list) -> Any:
        if any(x is False for x in parts):
            return False
        ts = [x for x in parts if x is not True]
        if not ts:
            return True
        return z3.And(ts) if len(ts) > 1 else ts[0]

    def _resolve_class(self, spec: str) -> type:
        modname, qual = spec.split(":")
        obj: Any = importlib.import_module(modname)
        for part in qual.split("."):
            obj = getattr(obj, part)
        return obj

    # ---- spec evaluation ----------------------------------------------------------------------
    def spec_frame(self, con: Contract, bound: dict, result: Any = None, old: Any = None, exc: Any = None) -> Any:
        from .interp import UNBOUND, Frame

        fr = Frame(dict(bound), con.module.__dict__, qual="spec:" + con.target, spec=True)
        fr.result = result if result is not None or True else UNBOUND
        fr.old = old
        fr.exc = exc
        return fr

    def eval_lets(self, it: Any, con: Contract, fr: Any) -> None:
        for c in con.of("let"):
            for kw in c.node.keywords:
                fr.locals[kw.arg] = it.ev(kw.value, fr)

    def eval_bool(self, it: Any, node: ast.expr, fr: Any) -> Any:
        """Evaluate a clause expression to a python bool or z3 Bool term."""
        try:
            v = it.ev(node, fr)
        except PyRaise as e:
            raise Unsupported(f"specification clause raised {e.exc.cls.__name__}: {ast.unparse(node)[:80]}")
        return ops.truth_term(it.p, v)

    # ---- applying a contract at a call site -----------------------------------------------------
    def apply_contract(self, it: Any, con: Contract, func: Any, args: list, kwargs: dict, caller: Any) -> Any:
        from .interp import UNBOUND, Frame

        p: Path = it.p
        it.used_contracts.add(con.target)
        if con.assumed:
            p.assumption_ids.add("assumed:" + con.target)
        bound = it.bind_args(func, args, kwargs)
        n = p.ghost.get("callno", 0) + 1
        p.ghost["callno"] = n
        short = con.target.split(":")[1]
        # the parameter types of the contract are part of its precondition
        for name in con.params:
            if name not in bound:
                raise Unsupported(f"call of {short}: parameter {name} unbound")
            t = self.conforms(it, bound[name], con.ann.get(name, api.Opaque()), name)
            if t is False:
                raise Unsupported(f"call of {short}: argument {name}={bound[name]!r} is outside the contract's type domain")
            if t is not True:
                p.oblige(f"pre@{short}#type:{name}", t, note=f"call #{n}")
                p.assume(t)
        for name in bound:
            if name not in con.params:
                sigp = self.signature(func).parameters[name]
                if sigp.default is sigp.empty or bound[name] is not sigp.default:
                    raise Unsupported(f"call of {short}: parameter {name} is not covered by the contract")
        fr = self.spec_frame(con, bound)
        fr.result = UNBOUND
        self.eval_lets(it, con, fr)
        for c in con.of("requires"):
            t = self.eval_bool(it, c.arg(0), fr)
            p.oblige(f"pre@{short}#{c.label or c.idx}", t, note=f"call #{n}")
            p.assume(t)
        for c in con.of("raises"):
            exc = it.ev(c.arg(0), fr)
            when = c.arg(1) or c.kwarg("when")
            t = True if when is None else self.eval_bool(it, when, fr)
            if p.branch(t, f"raises:{short}:{exc.__name__}"):
                raise PyRaise(SExc(exc, ()))
        for c in con.of("may_raise"):
            exc = it.ev(c.arg(0), fr)
            if p.choose(2, f"may_raise:{short}:{exc.__name__}") == 1:
                raise PyRaise(SExc(exc, ()))
        # pre-state snapshot for old()
        needs_old = bool(con.of("modifies"))
        old_fr = None
        if needs_old:
            memo: dict = {}
            old_bound = copy.deepcopy(fr.locals, memo)
            old_fr = Frame(old_bound, con.module.__dict__, qual=fr.qual, spec=True)
            for c in con.of("modifies"):
                for t_node in c.node.args:
                    it.havoc_target(t_node, fr)
        fr.old = old_fr if old_fr is not None else fr
        result: Any = UNBOUND
        rets = con.of("returns")
        bound_by: Any = None
        if not rets:
            # an ensures clause of the form  result == E  or  implies(C, result == E)  with C true here defines the result
            for c in con.of("ensures"):
                e = c.arg(0)
                cond = None
                if isinstance(e, ast.Call) and isinstance(e.func, ast.Name) and e.func.id == "implies" and len(e.args) == 2:
                    cond, e = e.args[0], e.args[1]
                if (isinstance(e, ast.Compare) and len(e.ops) == 1 and isinstance(e.ops[0], ast.Eq)
                        and isinstance(e.left, ast.Name) and e.left.id == "result"):
                    if cond is not None:
                        cv = ops.truth_term(p, it.ev(cond, fr))
                        if cv is not True and not (cv is not False and p.entails(cv)):
                            continue
                    result = it.ev(e.comparators[0], fr)
                    bound_by = c
                    break
        if rets:
            result = it.ev(rets[0].arg(0), fr)
        elif bound_by is not None:
            pass
        else:
            fres = con.of("fresh_result")
            rtyp = con.ret_ann
            if fres and fres[0].arg(0) is not None:
                rtyp = eval(compile(ast.Expression(fres[0].arg(0)), "<spec>", "eval"), con.module.__dict__)
            if rtyp is None or rtyp is type(None):
                result = None
            else:
                if rtyp is bytes:
                    # ensures(len(result) == <literal>) (possibly as the first conjunct): the fresh result gets that concrete length, so that
                    # concatenations keep track of their pieces
                    for c in con.of("ensures"):
                        e = c.arg(0)
                        if isinstance(e, ast.BoolOp) and isinstance(e.op, ast.And):
                            e = e.values[0]
                        if (isinstance(e, ast.Compare) and len(e.ops) == 1 and isinstance(e.ops[0], ast.Eq) and ast.unparse(e.left) == "len(result)"
                                and isinstance(e.comparators[0], ast.Constant) and isinstance(e.comparators[0].value, int)):
                            rtyp = api.Bytes(e.comparators[0].value)
                            break
                result = self.make_symbolic(it, "ret_" + short.split(".")[-1], rtyp)
        fr.result = result
        # an ensures clause  <modified field> == E  (possibly under an implies whose condition holds here) defines that field
        skip: set = set()
        if needs_old:
            mod_paths = {ast.unparse(t) for c in con.of("modifies") for t in c.node.args}
            for c in con.of("ensures"):
                e = c.arg(0)
                cond = None
                if isinstance(e, ast.Call) and isinstance(e.func, ast.Name) and e.func.id == "implies" and len(e.args) == 2:
                    cond, e = e.args[0], e.args[1]
                if not (isinstance(e, ast.Compare) and len(e.ops) == 1 and isinstance(e.ops[0], ast.Eq)
                        and isinstance(e.left, ast.Attribute) and ast.unparse(e.left) in mod_paths):
                    continue
                if cond is not None:
                    try:
                        cv = ops.truth_term(p, it.ev(cond, fr))
                    except (PyRaise, Unsupported):
                        continue
                    if cv is not True and not (cv is not False and p.entails(cv)):
                        continue
                try:
                    tgt = it.ev(e.left.value, fr)
                    val = it.ev(e.comparators[0], fr)
                except (PyRaise, Unsupported):
                    continue
                if isinstance(tgt, SObj):
                    tgt.fields[e.left.attr] = val
                    skip.add(id(c))
        p.ghost["assume_mode"] = p.ghost.get("assume_mode", 0) + 1
        try:
            for c in con.of("ensures"):
                if c is bound_by or id(c) in skip:
                    continue
                t = self.eval_bool(it, c.arg(0), fr)
                p.assume(t)
        finally:
            p.ghost["assume_mode"] -= 1
        if not p.feasible():
            raise DeadPath()
        return result

    # ---- invariants ------------------------------------------------------------------------------
    def _inv_frame(self, it: Any, inv: Contract, f: Any) -> Any:
        from .interp import Frame

        fr = Frame({}, inv.module.__dict__, qual="inv:" + inv.target, spec=True)
        fr.parent = f  # names resolve to the loop's frame
        fr.old = getattr(f, "entry_old", None)
        return fr

    def eval_invariant(self, it: Any, inv: Contract, f: Any, mode: str, name: str = "") -> None:
        fr = self._inv_frame(it, inv, f)
        self.eval_lets(it, inv, fr)
        for c in inv.of("holds"):
            t = self.eval_bool(it, c.arg(0), fr)
            if mode == "assume":
                it.p.assume(t)
            else:
                it.p.oblige(f"{name}:{c.label or c.idx}", t, replayable=False)

    def eval_variant(self, it: Any, inv: Contract, f: Any) -> Any:
        vs = inv.of("variant")
        if not vs:
            return None
        fr = self._inv_frame(it, inv, f)
        self.eval_lets(it, inv, fr)
        return it.ev(vs[0].arg(0), fr)

    def invariant_declares(self, it: Any, inv: Contract, f: Any) -> dict:
        out = {}
        for c in inv.of("declare"):
            for kw in c.node.keywords:
                out[kw.arg] = eval(compile(ast.Expression(kw.value), "<spec>", "eval"), inv.module.__dict__)
        return out

    def invariant_modifies(self, inv: Contract) -> list:
        out = []
        for c in inv.of("modifies"):
            out.extend(c.node.args)
        return out

    # ---- uninterpreted spec functions --------------------------------------------------------------
    def apply_uf(self, it: Any, uf: Any, args: list, kwargs: dict) -> Any:
        p: Path = it.p
        if kwargs:
            raise Unsupported("uninterpreted function with keyword arguments")
        if getattr(uf, "native", False):
            # ghost content function (e.g. device memory): a solver function symbol with a range axiom, also for literal arguments
            fsym = z3.Function("ghost_" + uf.name, *([z3.IntSort()] * len(args)), z3.IntSort())
            seen = p.__dict__.setdefault("_native_ufs", set())
            if uf.name not in seen and isinstance(uf.result, api.Range):
                seen.add(uf.name)
                xs = [z3.Int(f"__{uf.name}_x{i}") for i in range(len(args))]
                p.assume(z3.ForAll(xs, z3.And(fsym(*xs) >= uf.result.lo, fsym(*xs) <= uf.result.hi), patterns=[fsym(*xs)]))
            p.assumption_ids.add("uf:" + uf.name)
            return ops.mk_int(fsym(*[ops.int_term(a) for a in args]))
        args = [_effectively_concrete(a) for a in args]
        if not ops.has_sym(args):
            return uf.fn(*args)
        if getattr(uf, "blockwise", None) is not None:
            bs, ci, pi = uf.blockwise
            if isinstance(args[pi], (bytes, bytearray, SBytes, SByteArray)):
                d = as_sbytes(args[pi])
                n = d.conc_len()
                if n is not None and n > bs and n % bs == 0 and n // bs <= 16:
                    out: Any = None
                    c0 = ops.int_from_bytes(p, args[ci], "big")
                    for j in range(n // bs):
                        a2 = list(args)
                        a2[pi] = ops.bytes_slice(p, d, j * bs, (j + 1) * bs)
                        if j:
                            cj = ops.binop(p, ast.Mod, ops.binop(p, ast.Add, c0, j), 1 << (8 * bs))
                            a2[ci] = ops.int_to_bytes(p, cj, bs, "big")
                        r = self.apply_uf(it, uf, a2, {})
                        out = r if out is None else ops.bytes_concat(out, r)
                    p.assumption_ids.add(f"law:{uf.name}-is-blockwise-counter-mode")
                    return out
        apps = p.uf_apps.setdefault(uf.name, [])
        # inverse law: G(shared.., F(shared.., x)) == x
        if uf.inverse_of is not None:
            fwd, shared, payload = uf.inverse_of
            for (a2, r2) in p.uf_apps.get(fwd, []):
                if r2 is args[payload] or _syn_eq(r2, args[payload]):
                    ok = True
                    for i in shared:
                        if not _syn_eq(a2[i], args[i]):
                            t = ops.eq_term(p, a2[i], args[i])
                            if t is not True and not (t is not False and p.entails(t)):
                                ok = False
                                break
                    if ok:
                        p.assumption_ids.add(f"law:{uf.name}({fwd}(x))==x")
                        return a2[payload]
        # syntactic reuse
        for (a2, r2) in apps:
            if len(a2) == len(args) and all(_syn_eq(x, y) for x, y in zip(a2, args)):
                return r2
        hint = uf.name
        if uf.result is bytes:
            ln = None
            if uf.length is not None:
                ln = uf.length(*[_len_view(a) for a in args]) if callable(uf.length) else uf.length
                if isinstance(ln, _LenExpr):
                    ln = ln.t
            res: Any = p.fresh_bytes(hint, ln)
        elif uf.result is int:
            res = p.fresh_int(hint)
        elif uf.result is bool:
            res = p.fresh_bool(hint)
        elif isinstance(uf.result, api.Range):
            res = p.fresh_int(hint, uf.result.lo, uf.result.hi)
            if uf.upper is not None:
                try:
                    ub = uf.upper(*args)
                    if isinstance(ub, int):
                        p.assume(res.t <= ub)
                except Exception:  # pylint: disable=broad-except
                    pass
        else:
            raise Unsupported("uninterpreted function result kind")
        # congruence with earlier applications (Ackermann)
        for (a2, r2) in apps:
            eqs = []
            for x, y in zip(a2, args):
                t = ops.eq_term(p, x, y)
                eqs.append(z3.BoolVal(t) if isinstance(t, bool) else t)
            t_res = ops.eq_term(p, r2, res)
            if t_res is not True:
                p.assume(z3.Implies(z3.And(eqs) if eqs else z3.BoolVal(True), t_res))
        apps.append((list(args), res))
        p.assumption_ids.add("uf:" + uf.name)
        return res


def _effectively_concrete(a: Any) -> Any:
    """Byte strings / ints whose terms are all literals become plain Python values (so that an application on literal data is
    the literal result on both the code side and the specification side)."""
    if isinstance(a, (SBytes, SByteArray)):
        b = as_sbytes(a)
        n = b.conc_len()
        if n is not None and n <= 4096:
            out = []
            for i in range(n):
                t = z3.simplify(b.at(z3.IntVal(i)))
                if not z3.is_int_value(t):
                    return a
                out.append(t.as_long() & 0xFF)
            return bytes(out)
        return a
    if isinstance(a, SInt):
        t = z3.simplify(a.t)
        return t.as_long() if z3.is_int_value(t) else a
    return a


class _LenExpr:
    """Argument view handed to a UF's length function: supports len()."""

    def __init__(self, t: Any):
        self.t = t

    def __len__(self) -> int:
        raise TypeError("use vf length views arithmetically: L(x)")


def _len_view(a: Any) -> Any:
    if is_bytes_like(a):
        return as_sbytes(a).n
    if isinstance(a, (SInt, SBool)):
        return int_term(a)
    return a


def _syn_eq(x: Any, y: Any) -> bool:
    if x is y:
        return True
    if is_bytes_like(x) and is_bytes_like(y):
        a, b = as_sbytes(x), as_sbytes(y)
        if not z3.simplify(a.n).eq(z3.simplify(b.n)):
            return False
        k = z3.Int("k!syn")
        try:
            return z3.simplify(a.at(k)).eq(z3.simplify(b.at(k)))
        except Unsupported:
            return False
    if is_int_like(x) and is_int_like(y):
        if isinstance(x, (SBool, bool)) != isinstance(y, (SBool, bool)):
            return False
        return z3.simplify(int_term(x)).eq(z3.simplify(int_term(y)))
    if not ops.has_sym(x) and not ops.has_sym(y):
        try:
            return bool(x == y)
        except Exception:  # pylint: disable=broad-except
            return False
    return False


class _Strip(ast.NodeTransformer):
    """What the extraction drops before hashing / display: docstrings, annotations, logger calls."""

    def visit_FunctionDef(self, node: ast.FunctionDef) -> Any:
        self.generic_visit(node)
        if node.body and isinstance(node.body[0], ast.Expr) and isinstance(node.body[0].value, ast.Constant) \
                and isinstance(node.body[0].value.value, str):
            node.body = node.body[1:] or [ast.Pass()]
        node.returns = None
        for a in node.args.posonlyargs + node.args.args + node.args.kwonlyargs:
            a.annotation = None
        if node.args.vararg:
            node.args.vararg.annotation = None
        if node.args.kwarg:
            node.args.kwarg.annotation = None
        return node

    def visit_AnnAssign(self, node: ast.AnnAssign) -> Any:
        self.generic_visit(node)
        if node.value is None:
            return None
        return ast.Assign(targets=[node.target], value=node.value, lineno=node.lineno)

    def visit_Expr(self, node: ast.Expr) -> Any:
        from .interp import _is_logger_call

        if _is_logger_call(node.value):
            return ast.Pass()
        return node


def strip_for_hash(node: ast.AST) -> ast.AST:
    n2 = copy.deepcopy(node)
    n2 = _Strip().visit(n2)
    ast.fix_missing_locations(n2)
    return n2
