"""Assumed models of external dependencies (cryptography, crcmod, secrets): A-crypto-fun / A-rng.

Each external call is mapped to the spec-level uninterpreted functions of specs/crypto.py together with the
library's documented argument validation (which exception it raises for which sizes).  These models are
*assumptions*; they are listed in the evidence as 'ext:<name>'.
"""
from __future__ import annotations

from typing import Any

import z3

from . import ops
from .models import model
from .sym import PyRaise, SExc, SBytes, Unsupported, as_sbytes, int_term, is_bytes_like, mk_int


class ExtObject:
    """Value of an external class; methods are dispatched to vf_call."""

    def vf_call(self, it: Any, name: str, args: list, kwargs: dict, f: Any) -> Any:
        raise Unsupported(f"{type(self).__name__}.{name}")

    def vf_attr(self, it: Any, name: str) -> Any:
        raise Unsupported(f"{type(self).__name__}.{name}")


def _uf(name: str) -> Any:
    from specs import crypto

    return getattr(crypto, name)


def _use(it: Any, what: str) -> None:
    it.p.assumption_ids.add("ext:" + what)


try:
    from cryptography.exceptions import InvalidSignature, InvalidTag
    from cryptography.hazmat.primitives import cmac as _cmac
    from cryptography.hazmat.primitives import hashes as _hashes
    from cryptography.hazmat.primitives import hmac as _hmac
    from cryptography.hazmat.primitives import keywrap as _keywrap
    from cryptography.hazmat.primitives.ciphers import Cipher as _Cipher
    from cryptography.hazmat.primitives.ciphers import aead as _aead
    from cryptography.hazmat.primitives.ciphers import algorithms as _alg
    from cryptography.hazmat.primitives.ciphers import modes as _modes
    from cryptography.hazmat.primitives.kdf import hkdf as _hkdf
except ImportError:  # pragma: no cover
    _Cipher = None


class _Alg(ExtObject):
    def __init__(self, name: str, key: Any):
        self.name, self.key = name, key


class _Mode(ExtObject):
    def __init__(self, name: str, iv: Any = None):
        self.name, self.iv = name, iv


class _CipherObj(ExtObject):
    def __init__(self, alg: _Alg, mode: _Mode):
        self.alg, self.mode = alg, mode

    def vf_call(self, it: Any, name: str, args: list, kwargs: dict, f: Any) -> Any:
        if name in ("encryptor", "decryptor"):
            return _Ctx(self, name == "encryptor")
        raise Unsupported(f"Cipher.{name}")


class _Ctx(ExtObject):
    def __init__(self, c: _CipherObj, enc: bool):
        self.c, self.enc = c, enc
        self.leftover = False
        self.used = False

    def vf_call(self, it: Any, name: str, args: list, kwargs: dict, f: Any) -> Any:
        p = it.p
        alg, mode = self.c.alg, self.c.mode
        if name == "update":
            if self.used:
                raise Unsupported("several update() calls on one cipher context")
            self.used = True
            data = as_sbytes(args[0])
            if mode.name in ("ECB", "CBC"):
                if not p.branch(data.n % 16 == 0, "cipher-block-multiple"):
                    self.leftover = True
                    data = ops.bytes_slice(p, data, None, mk_int(data.n - data.n % 16))
            if mode.name == "XTS":
                if p.branch(data.n < 16, "xts-short"):
                    self.leftover = True
                    return b""
            uf = {("AES", "ECB", True): "AES_ECB_E", ("AES", "ECB", False): "AES_ECB_D",
                  ("AES", "CBC", True): "AES_CBC_E", ("AES", "CBC", False): "AES_CBC_D",
                  ("SM4", "CBC", True): "SM4_CBC_E", ("SM4", "CBC", False): "SM4_CBC_D",
                  ("AES", "CTR", True): "AES_CTR", ("AES", "CTR", False): "AES_CTR",
                  ("AES", "XTS", True): "AES_XTS_E", ("AES", "XTS", False): "AES_XTS_D"}.get((alg.name, mode.name, self.enc))
            if uf is None:
                raise Unsupported(f"cipher {alg.name}/{mode.name}")
            _use(it, f"cryptography.Cipher[{alg.name}-{mode.name}]")
            a = [alg.key] + ([mode.iv] if mode.iv is not None else []) + [data]
            return it.reg.apply_uf(it, _uf(uf), a, {})
        if name == "finalize":
            if self.leftover:
                raise PyRaise(SExc(ValueError, ("The length of the provided data is not a multiple of the block length.",)))
            return b""
        raise Unsupported(f"cipher context .{name}")


def _check_len(it: Any, b: Any, allowed: tuple, label: str) -> None:
    n = as_sbytes(b).n
    if not it.p.branch(z3.Or([n == a for a in allowed]), label):
        raise PyRaise(SExc(ValueError, (f"invalid size ({label})",)))


if _Cipher is not None:
    @model(_alg.AES)
    def _m_aes(it: Any, args: list, kwargs: dict, f: Any) -> Any:
        key = args[0] if args else kwargs["key"]
        if not is_bytes_like(key):
            raise PyRaise(SExc(TypeError, ("key must be bytes-like",)))
        _check_len(it, key, (16, 24, 32, 64), "aes-key-size")
        return _Alg("AES", key)

    @model(_alg.SM4)
    def _m_sm4(it: Any, args: list, kwargs: dict, f: Any) -> Any:
        key = args[0] if args else kwargs["key"]
        _check_len(it, key, (16,), "sm4-key-size")
        return _Alg("SM4", key)

    @model(_modes.ECB)
    def _m_ecb(it: Any, args: list, kwargs: dict, f: Any) -> Any:
        return _Mode("ECB")

    @model(_modes.CBC)
    def _m_cbc(it: Any, args: list, kwargs: dict, f: Any) -> Any:
        return _Mode("CBC", args[0] if args else kwargs["initialization_vector"])

    @model(_modes.CTR)
    def _m_ctr(it: Any, args: list, kwargs: dict, f: Any) -> Any:
        return _Mode("CTR", args[0] if args else kwargs["nonce"])

    @model(_modes.XTS)
    def _m_xts(it: Any, args: list, kwargs: dict, f: Any) -> Any:
        tweak = args[0] if args else kwargs["tweak"]
        _check_len(it, tweak, (16,), "xts-tweak-size")
        return _Mode("XTS", tweak)

    @model(_Cipher)
    def _m_cipher(it: Any, args: list, kwargs: dict, f: Any) -> Any:
        alg = args[0] if args else kwargs["algorithm"]
        mode = args[1] if len(args) > 1 else kwargs["mode"]
        if not isinstance(alg, _Alg) or not isinstance(mode, _Mode):
            raise Unsupported("Cipher() with unmodelled algorithm or mode")
        p = it.p
        kn = as_sbytes(alg.key).n
        if mode.name == "XTS":
            if not p.branch(z3.Or(kn == 32, kn == 64), "xts-key-size"):
                raise PyRaise(SExc(ValueError, ("The XTS specification requires a 256-bit key for AES-128-XTS and 512-bit key for AES-256-XTS",)))
            kb = as_sbytes(alg.key)
            half = mk_int(kb.n / 2)
            same = ops.eq_term(p, ops.bytes_slice(p, kb, None, half), ops.bytes_slice(p, kb, half, None))
            if same is True or (same is not False and p.branch(same, "xts-duplicated-keys")):
                raise PyRaise(SExc(ValueError, ("In XTS mode duplicated keys are not allowed",)))
        else:
            if alg.name == "AES" and not p.branch(kn != 64, "aes-512-only-xts"):
                raise PyRaise(SExc(ValueError, ("invalid key size for mode",)))
        if mode.name in ("CBC", "CTR"):
            blk = 16
            if not p.branch(as_sbytes(mode.iv).n == blk, f"{mode.name.lower()}-iv-size"):
                raise PyRaise(SExc(ValueError, ("Invalid IV size for mode",)))
        return _CipherObj(alg, mode)

    class _CCM(ExtObject):
        def __init__(self, key: Any, tag: Any):
            self.key, self.tag = key, tag

        def vf_call(self, it: Any, name: str, args: list, kwargs: dict, f: Any) -> Any:
            p = it.p
            nonce, data, aad = (list(args) + [None, None, None])[:3]
            if aad is None:
                aad = kwargs.get("associated_data", b"")
            if aad is None:
                aad = b""
            nn = as_sbytes(nonce).n
            if not p.branch(z3.And(nn >= 7, nn <= 13), "ccm-nonce-size"):
                raise PyRaise(SExc(ValueError, ("Nonce must be between 7 and 13 bytes",)))
            _use(it, "cryptography.AESCCM")
            if name == "encrypt":
                # data length must fit in 15 - len(nonce) bytes
                dn = as_sbytes(data).n
                if p.branch(z3.And(nn == 13, dn >= 65536), "ccm-data-too-long"):
                    raise PyRaise(SExc(ValueError, ("Data too long for nonce",)))
                return it.reg.apply_uf(it, _uf("AES_CCM_E"), [self.key, self.tag, nonce, data, aad], {})
            if name == "decrypt":
                dn = as_sbytes(data).n
                if p.branch(dn < int_term(self.tag), "ccm-short"):
                    raise PyRaise(SExc(InvalidTag, ()))
                if p.choose(2, "ccm-invalid-tag") == 1:
                    # authentication may fail unless the ciphertext is a genuine encryption (inverse law handled first)
                    raise PyRaise(SExc(InvalidTag, ()))
                return it.reg.apply_uf(it, _uf("AES_CCM_D"), [self.key, self.tag, nonce, data, aad], {})
            raise Unsupported(f"AESCCM.{name}")

    @model(_aead.AESCCM)
    def _m_ccm(it: Any, args: list, kwargs: dict, f: Any) -> Any:
        key = args[0] if args else kwargs["key"]
        tag = args[1] if len(args) > 1 else kwargs.get("tag_length", 16)
        _check_len(it, key, (16, 24, 32), "ccm-key-size")
        tt = int_term(tag)
        if not it.p.branch(z3.Or([tt == x for x in (4, 6, 8, 10, 12, 14, 16)]), "ccm-tag-length"):
            raise PyRaise(SExc(ValueError, ("Invalid tag_length",)))
        return _CCM(key, tag)

    @model(_keywrap.aes_key_wrap)
    def _m_wrap(it: Any, args: list, kwargs: dict, f: Any) -> Any:
        kek, key = args[0], args[1]
        _check_len(it, kek, (16, 24, 32), "wrap-kek-size")
        kn = as_sbytes(key).n
        if it.p.branch(kn < 16, "wrap-short"):
            raise PyRaise(SExc(ValueError, ("The key to wrap must be at least 16 bytes",)))
        if it.p.branch(kn % 8 != 0, "wrap-mult8"):
            raise PyRaise(SExc(ValueError, ("The key to wrap must be a multiple of 8 bytes",)))
        _use(it, "cryptography.keywrap")
        return it.reg.apply_uf(it, _uf("AES_KEY_WRAP"), [kek, key], {})

    @model(_keywrap.aes_key_unwrap)
    def _m_unwrap(it: Any, args: list, kwargs: dict, f: Any) -> Any:
        kek, wrapped = args[0], args[1]
        wn = as_sbytes(wrapped).n
        if it.p.branch(wn < 24, "unwrap-short"):
            raise PyRaise(SExc(_keywrap.InvalidUnwrap, ()))
        if it.p.branch(wn % 8 != 0, "unwrap-mult8"):
            raise PyRaise(SExc(_keywrap.InvalidUnwrap, ()))
        _check_len(it, kek, (16, 24, 32), "unwrap-kek-size")
        _use(it, "cryptography.keywrap")
        from specs import crypto

        # genuine wrap of the same kek: the inverse law gives the key back; anything else may fail the integrity check
        for (a2, r2) in it.p.uf_apps.get("AES_KEY_WRAP", []):
            if r2 is wrapped:
                return it.reg.apply_uf(it, crypto.AES_KEY_UNWRAP, [kek, wrapped], {})
        if it.p.choose(2, "unwrap-integrity") == 1:
            raise PyRaise(SExc(_keywrap.InvalidUnwrap, ()))
        return it.reg.apply_uf(it, crypto.AES_KEY_UNWRAP, [kek, wrapped], {})

    # ---- hashes -------------------------------------------------------------------------------
    class _HashAlg(ExtObject):
        def __init__(self, name: str):
            self.name = name

        def vf_attr(self, it: Any, name: str) -> Any:
            from specs.crypto import HASH_LEN

            if name == "digest_size":
                return HASH_LEN[self.name]
            if name == "name":
                return self.name
            raise Unsupported(f"hash algorithm attribute {name}")

    for _nm in ("SHA1", "SHA256", "SHA384", "SHA512", "MD5", "SM3"):
        _cls = getattr(_hashes, _nm)

        def _mk(nm: str) -> Any:
            def m(it: Any, args: list, kwargs: dict, f: Any) -> Any:
                return _HashAlg(nm.lower())
            return m
        model(_cls)(_mk(_nm))

    class _HashCtx(ExtObject):
        def __init__(self, kind: str, alg: _HashAlg, key: Any = None):
            self.kind, self.alg, self.key = kind, alg, key
            self.data: Any = b""
            self.done = False

        def vf_call(self, it: Any, name: str, args: list, kwargs: dict, f: Any) -> Any:
            if name == "update":
                d = args[0] if args else kwargs["data"]
                if not is_bytes_like(d):
                    raise PyRaise(SExc(TypeError, ("data must be bytes-like",)))
                self.data = d if (not ops.has_sym(self.data) and len(self.data) == 0) else ops.bytes_concat(self.data, d)
                return None
            if name in ("finalize", "verify"):
                if self.done:
                    raise Unsupported("context finalized twice")
                self.done = True
                _use(it, f"cryptography.{self.kind}")
                if self.kind == "Hash":
                    r = it.reg.apply_uf(it, _uf("HASH"), [self.alg.name, self.data], {})
                elif self.kind == "HMAC":
                    r = it.reg.apply_uf(it, _uf("HMAC"), [self.alg.name, self.key, self.data], {})
                else:
                    r = it.reg.apply_uf(it, _uf("CMAC"), [self.key, self.data], {})
                if name == "finalize":
                    return r
                sig = args[0] if args else kwargs["signature"]
                t = ops.eq_term(it.p, r, sig)
                if not (t is True or (t is not False and it.p.branch(t, "mac-verify"))):
                    raise PyRaise(SExc(InvalidSignature, ()))
                return None
            raise Unsupported(f"{self.kind}.{name}")

    @model(_hashes.Hash)
    def _m_hash(it: Any, args: list, kwargs: dict, f: Any) -> Any:
        alg = args[0] if args else kwargs["algorithm"]
        if not isinstance(alg, _HashAlg):
            raise Unsupported("Hash() with unmodelled algorithm")
        return _HashCtx("Hash", alg)

    @model(_hmac.HMAC)
    def _m_hmac(it: Any, args: list, kwargs: dict, f: Any) -> Any:
        key = args[0] if args else kwargs["key"]
        alg = args[1] if len(args) > 1 else kwargs["algorithm"]
        if not isinstance(alg, _HashAlg):
            raise Unsupported("HMAC() with unmodelled algorithm")
        return _HashCtx("HMAC", alg, key)

    @model(_cmac.CMAC)
    def _m_cmac(it: Any, args: list, kwargs: dict, f: Any) -> Any:
        alg = args[0] if args else kwargs["algorithm"]
        if not isinstance(alg, _Alg) or alg.name != "AES":
            raise Unsupported("CMAC over a non-AES algorithm")
        if not it.p.branch(as_sbytes(alg.key).n != 64, "cmac-key-size"):
            raise PyRaise(SExc(ValueError, ("invalid key size",)))
        return _HashCtx("CMAC", _HashAlg("cmac"), alg.key)

    class _HKDF(ExtObject):
        def __init__(self, length: Any, salt: Any, info: Any):
            self.length, self.salt, self.info = length, salt, info

        def vf_call(self, it: Any, name: str, args: list, kwargs: dict, f: Any) -> Any:
            if name != "derive":
                raise Unsupported(f"HKDF.{name}")
            _use(it, "cryptography.HKDF")
            return it.reg.apply_uf(it, _uf("HKDF_SHA256"), [self.salt if self.salt is not None else b"", args[0],
                                                             self.info if self.info is not None else b"", self.length], {})

    @model(_hkdf.HKDF)
    def _m_hkdf(it: Any, args: list, kwargs: dict, f: Any) -> Any:
        alg = kwargs.get("algorithm", args[0] if args else None)
        if not isinstance(alg, _HashAlg) or alg.name != "sha256":
            raise Unsupported("HKDF with a hash other than SHA-256")
        length = kwargs.get("length", args[1] if len(args) > 1 else None)
        tl = int_term(length)
        if not it.p.branch(z3.And(tl >= 0, tl <= 255 * 32), "hkdf-length"):
            raise PyRaise(SExc(ValueError, ("Cannot derive keys larger than 8160 octets",)))
        return _HKDF(length, kwargs.get("salt"), kwargs.get("info"))

try:
    import crcmod as _crcmod

    class _CrcFun(ExtObject):
        def __init__(self, poly: Any, init: Any, rev: Any, xor: Any):
            self.cfg = (poly, init, rev, xor)

    @model(_crcmod.mkCrcFun)
    def _m_mkcrc(it: Any, args: list, kwargs: dict, f: Any) -> Any:
        poly = kwargs.get("poly", args[0] if args else None)
        init = kwargs.get("initCrc", args[1] if len(args) > 1 else None)
        rev = kwargs.get("rev", args[2] if len(args) > 2 else True)
        xor = kwargs.get("xorOut", args[3] if len(args) > 3 else 0)
        return _CrcFun(poly, init, rev, xor)
except ImportError:  # pragma: no cover
    _CrcFun = None  # type: ignore


def call_ext_object(it: Any, obj: Any, args: list, kwargs: dict, f: Any) -> Any:
    """Calling an external object value (crc function)."""
    if _CrcFun is not None and isinstance(obj, _CrcFun):
        _use(it, "crcmod")
        poly, init, rev, xor = obj.cfg
        data = args[0]
        if len(args) > 1:
            raise Unsupported("crc function with explicit start value")
        return it.reg.apply_uf(it, _uf("CRC"), [poly, init, rev, xor, data], {})
    raise Unsupported(f"call of external object {type(obj).__name__}")


try:
    import secrets as _secrets

    @model(_secrets.token_bytes)
    def _m_token_bytes(it: Any, args: list, kwargs: dict, f: Any) -> Any:
        """A-rng: n fresh bytes; the ghost tick identifies the draw."""
        n = args[0] if args else kwargs.get("nbytes", 32)
        p = it.p
        tick = p.ghost.get("rng.tick", 1)
        p.ghost["rng.tick"] = tick + 1
        tn = int_term(n)
        if p.branch(tn < 0, "token-neg"):
            raise PyRaise(SExc(ValueError, ("negative argument not allowed",)))
        b = p.fresh_bytes(f"rand@{tick}", tn)
        p.ghost.setdefault("rng.drawn", []).append((tick, b))
        _use(it, "secrets.token_bytes")
        return b
except ImportError:  # pragma: no cover
    pass


# The seedable generator of the `random` module (Mersenne Twister): its output is a function of the generator state, which any code in the process
# may set (random.seed) - it is NOT a draw from the OS generator, so nothing is recorded in rng.drawn and `fresh_in_call` does not hold for it.
import random as _random


def _prng_bytes(it: Any, args: list, kwargs: dict, f: Any) -> Any:
    n = args[0] if args else kwargs.get("n", 0)
    _use(it, "random.<seedable generator>")
    return it.p.fresh_bytes("prng", int_term(n))


def _prng_int(it: Any, args: list, kwargs: dict, f: Any) -> Any:
    _use(it, "random.<seedable generator>")
    return it.p.fresh_int("prng", 0, None)


model(_random.randbytes)(_prng_bytes)
model(_random.getrandbits, _random.randint, _random.randrange)(_prng_int)


# =================================================================================================================
# A-pickle / A-fs: file system, locks and pickle as adversarial environments (C18)
# =================================================================================================================
import os as _os
import pickle as _pickle

try:
    import filelock as _filelock
except ImportError:  # pragma: no cover
    _filelock = None


class _LockCtx(ExtObject):
    def __init__(self, path: Any):
        self.path = path

    def vf_call(self, it: Any, name: str, args: list, kwargs: dict, f: Any) -> Any:
        held = it.p.ghost.setdefault("lock.held", [])
        if name == "__enter__":
            if it.p.choose(2, "filelock-timeout") == 1:
                raise PyRaise(SExc(_filelock.Timeout, ()))
            held.append(self.path)
            return self
        if name == "__exit__":
            if self.path in held:
                held.remove(self.path)
            return False
        raise Unsupported(f"FileLock.{name}")


class _FileCtx(ExtObject):
    def __init__(self, path: Any, mode: str):
        self.path, self.mode = path, mode

    def vf_call(self, it: Any, name: str, args: list, kwargs: dict, f: Any) -> Any:
        if name == "__enter__":
            return self
        if name == "__exit__":
            return False
        raise Unsupported(f"file.{name}")


if _filelock is not None:
    @model(_filelock.FileLock)
    def _m_filelock(it: Any, args: list, kwargs: dict, f: Any) -> Any:
        _use(it, "filelock.FileLock")
        return _LockCtx(args[0])


@model(open)
def _m_open(it: Any, args: list, kwargs: dict, f: Any) -> Any:
    path = args[0]
    mode = kwargs.get("mode", args[1] if len(args) > 1 else "r")
    _use(it, "open")
    # ghost permission: a cache file is only opened while its lock is held
    if isinstance(path, str) and path.endswith(".cache"):
        held = it.p.ghost.get("lock.held", [])
        it.p.oblige(f"lock-held@open({mode})", (path + ".lock") in held, note="cache file opened without holding its lock", replayable=False)
    if it.p.choose(2, "open-oserror") == 1:
        raise PyRaise(SExc(FileNotFoundError if "r" in mode else PermissionError, ()))
    return _FileCtx(path, mode)


PICKLE_RAISES = (EOFError, _pickle.UnpicklingError, AttributeError, ImportError, IndexError, ValueError, KeyError, TypeError, MemoryError,
                 UnicodeDecodeError, ModuleNotFoundError)


@model(_pickle.load)
def _m_pickle_load(it: Any, args: list, kwargs: dict, f: Any) -> Any:
    """A-pickle: on arbitrary file content pickle.load raises any of the documented (and observed) exceptions or returns any object:
    a foreign one, or one of the expected classes with arbitrary field values."""
    from .registry import OpaqueValue
    from .sym import SObj

    _use(it, "pickle.load")
    p = it.p
    n = len(PICKLE_RAISES)
    d = p.choose(n + 3, "pickle.load")
    if d < n:
        raise PyRaise(SExc(PICKLE_RAISES[d], ()))
    if d == n:
        return OpaqueValue("foreign-object")
    import spsdk.utils.database as dbm

    if d == n + 1:
        o = SObj(dbm.QuickDatabase, {"db_hash": p.fresh_bytes("cached_hash")}, name="cached_quick_db")
        p.ghost["pickle.loaded"] = o
        return o
    o = SObj(dbm.Database.DatabaseData, {"db_hash": p.fresh_bytes("cached_hash"), "cfg_cache": {}, "defaults": OpaqueValue("cached-defaults")},
             name="cached_db_data")
    p.ghost["pickle.loaded"] = o
    return o


@model(_pickle.dump)
def _m_pickle_dump(it: Any, args: list, kwargs: dict, f: Any) -> Any:
    _use(it, "pickle.dump")
    it.p.ghost["pickle.dumped"] = args[0]
    if it.p.choose(2, "pickle.dump-fails") == 1:
        raise PyRaise(SExc(OSError, ()))
    return None


def ghost_exists(it: Any, path: Any) -> Any:
    """Existence of a path the *specification* names: one fixed but unknown answer per path within the execution."""
    key = ("fs.exists", path)
    if key not in it.p.ghost:
        it.p.ghost[key] = it.p.fresh_bool("exists")
    return it.p.ghost[key]


@model(_os.path.exists)
def _m_exists(it: Any, args: list, kwargs: dict, f: Any) -> Any:
    _use(it, "os.path.exists")
    if args and isinstance(args[0], str) and ("fs.exists", args[0]) in it.p.ghost:
        return it.p.ghost[("fs.exists", args[0])]   # a path the specification talks about (ghost_exists): consistent answer
    return it.p.fresh_bool("exists")                 # any other path: adversarial (may change between two questions)


class _StatResult(ExtObject):
    """A-fs: what os.stat reports for a path is a fixed but unknown property of the live file (same answer for the same path within one
    execution): modification time in ns (any 61-bit value, i.e. years 2006-2043) and size (any 16-bit value, 32-64 KiB) - the value classes are
    instantiation bounds that pin the bit length (hence the byte count of the minimal encodings), the values inside are arbitrary."""

    def __init__(self, mtime: Any, size: Any):
        self.st_mtime_ns, self.st_size = mtime, size

    def vf_attr(self, it: Any, name: str) -> Any:
        if name in ("st_mtime_ns", "st_size"):
            return getattr(self, name)
        raise Unsupported(f"os.stat_result.{name}")


def ghost_stat(it: Any, path: Any) -> Any:
    if not isinstance(path, str):
        raise Unsupported("os.stat of a symbolic path")
    key = ("fs.stat", path)
    if key not in it.p.ghost:
        it.p.ghost[key] = (it.p.fresh_int("mtime_ns", 1 << 60, (1 << 61) - 1), it.p.fresh_int("size", 1 << 15, (1 << 16) - 1))
    return it.p.ghost[key]


@model(_os.stat)
def _m_stat(it: Any, args: list, kwargs: dict, f: Any) -> Any:
    _use(it, "os.stat")
    if it.p.choose(2, "os.stat-fails") == 1:
        raise PyRaise(SExc(FileNotFoundError, ()))
    return _StatResult(*ghost_stat(it, args[0]))


@model(_os.remove)
def _m_remove(it: Any, args: list, kwargs: dict, f: Any) -> Any:
    _use(it, "os.remove")
    if it.p.choose(2, "os.remove-fails") == 1:
        raise PyRaise(SExc(FileNotFoundError, ()))
    it.p.ghost.setdefault("fs.removed", []).append(args[0])
    return None


@model(_os.makedirs)
def _m_makedirs(it: Any, args: list, kwargs: dict, f: Any) -> Any:
    _use(it, "os.makedirs")
    if it.p.choose(2, "os.makedirs-fails") == 1:
        raise PyRaise(SExc(PermissionError, ()))
    return None


# =================================================================================================================
# Ghost device streams (C10): dev.rx = bytes the device will deliver (universally quantified), dev.tx = bytes written
# =================================================================================================================
class GhostDev(ExtObject):
    def __init__(self, it: Any, name: str = "dev"):
        self.rx = it.p.fresh_bytes(name + ".rx")
        self.pos: Any = 0
        self.tx: Any = b""
        self.timeout = 5000

    def __deepcopy__(self, memo: dict) -> "GhostDev":
        import copy as _copy

        r = _copy.copy(self)
        memo[id(self)] = r
        return r

    def vf_attr(self, it: Any, name: str) -> Any:
        if name in ("rx", "pos", "tx", "timeout"):
            return getattr(self, name)
        raise Unsupported(f"device attribute {name}")

    def vf_call(self, it: Any, name: str, args: list, kwargs: dict, f: Any) -> Any:
        import ast as _ast

        p = it.p
        if name == "read":
            n = args[0] if args else kwargs["length"]
            tn = int_term(n)
            tpos = int_term(self.pos)
            # the device may deliver fewer bytes than requested only by timing out (documented: SPSDKTimeoutError / McuBootConnectionError)
            if p.branch(tpos + tn > self.rx.n, "device-stream-exhausted"):
                from spsdk.exceptions import SPSDKConnectionError

                raise PyRaise(SExc(SPSDKConnectionError, ()))
            out = ops.bytes_slice(p, self.rx, mk_int(tpos), mk_int(tpos + tn))
            self.pos = mk_int(tpos + tn)
            return out
        if name == "write":
            self.tx = ops.bytes_concat(self.tx, args[0]) if ops.has_sym(self.tx) or len(self.tx) else as_sbytes(args[0])
            return None
        raise Unsupported(f"device.{name}")


# ---- cryptography.hazmat.primitives.asymmetric.rsa.RSAPublicNumbers: a plain record (e, n) --------------------------------------------
try:
    from cryptography.hazmat.primitives.asymmetric import rsa as _rsa
except ImportError:  # pragma: no cover
    _rsa = None


class _RsaPublicNumbers(ExtObject):
    def __init__(self, e: Any, n: Any):
        self.e, self.n = e, n

    def vf_attr(self, it: Any, name: str) -> Any:
        if name in ("e", "n"):
            return getattr(self, name)
        raise Unsupported(f"RSAPublicNumbers.{name}")


if _rsa is not None:
    @model(_rsa.RSAPublicNumbers)
    def _m_rsa_public_numbers(it: Any, args: list, kwargs: dict, f: Any) -> Any:
        _use(it, "rsa.RSAPublicNumbers(record)")
        e = kwargs.get("e", args[0] if args else None)
        n = kwargs.get("n", args[1] if len(args) > 1 else None)
        return _RsaPublicNumbers(e, n)
