"""Operations on symbolic values (ints, bools, reals, byte strings)."""
from __future__ import annotations

import ast
import struct as _struct
from typing import Any, Optional

import z3

from .path import Path
from .sym import (
    SMemView,
    DeadPath,
    PyRaise,
    SBool,
    SByteArray,
    SBytes,
    SExc,
    SInt,
    SObj,
    SReal,
    SSeq,
    SStr,
    Sym,
    Unsupported,
    as_sbytes,
    bool_term,
    int_term,
    is_bytes_like,
    is_int_like,
    is_sym,
    mk_bool,
    mk_int,
)

MAX_EXPAND = 96  # byte strings of concrete length up to this are compared / converted pointwise


def raise_py(cls: type, *args: Any) -> None:
    raise PyRaise(SExc(cls, args))


def has_sym(v: Any, depth: int = 0) -> bool:
    """True if a symbolic leaf is reachable from v."""
    if isinstance(v, (Sym, SObj, SByteArray, SMemView)):
        return True
    if depth > 6:
        return False
    if isinstance(v, (list, tuple, set, frozenset)):
        return any(has_sym(x, depth + 1) for x in v)
    if isinstance(v, dict):
        return any(has_sym(x, depth + 1) for x in v.values()) or any(has_sym(x, depth + 1) for x in v.keys())
    return False


def tz_of(v: Any) -> int:
    if isinstance(v, SInt):
        return v.tz
    if isinstance(v, bool):
        return 0
    if isinstance(v, int):
        if v == 0:
            return 1 << 30
        return (v & -v).bit_length() - 1
    return 0


# ---------------------------------------------------------------------------------------------
# integers
# ---------------------------------------------------------------------------------------------
def _floordiv(p: Path, a: Any, b: Any) -> Any:
    ta, tb = int_term(a), int_term(b)
    if p.branch(tb == 0, "div0"):
        raise_py(ZeroDivisionError, "integer division or modulo by zero")
    if p.entails(tb > 0):
        return mk_int(ta / tb)
    if p.entails(tb < 0):
        return mk_int((-ta) / (-tb))
    return mk_int(z3.If(tb > 0, ta / tb, (-ta) / (-tb)))


def _mod(p: Path, a: Any, b: Any) -> Any:
    ta, tb = int_term(a), int_term(b)
    if p.branch(tb == 0, "mod0"):
        raise_py(ZeroDivisionError, "integer division or modulo by zero")
    if p.entails(tb > 0):
        return mk_int(ta % tb)
    if p.entails(tb < 0):
        return mk_int(-((-ta) % (-tb)))
    return mk_int(z3.If(tb > 0, ta % tb, -((-ta) % (-tb))))


def _mask_runs(m: int) -> list:
    """Contiguous runs of one-bits in a non-negative mask as (lo, width)."""
    runs = []
    i = 0
    while m >> i:
        if (m >> i) & 1:
            j = i
            while (m >> j) & 1:
                j += 1
            runs.append((i, j - i))
            i = j
        else:
            i += 1
    return runs


def _and_const(ta: Any, m: int) -> Any:
    """x & m for a concrete mask m (any sign), exact for all integers x."""
    if m >= 0:
        if m == 0:
            return 0
        parts = []
        for lo, w in _mask_runs(m):
            if lo == 0:
                parts.append(ta % (1 << w))
            else:
                parts.append(((ta / (1 << lo)) % (1 << w)) * (1 << lo))
        t = parts[0]
        for q in parts[1:]:
            t = t + q
        runs = _mask_runs(m)
        tz = runs[0][0]
        r = mk_int(t, tz)
        if isinstance(r, SInt) and len(runs) == 1:
            r.bits = ("within", runs[0][0], runs[0][1])
        return r
    # negative mask: x & m == x - (x & ~m), ~m >= 0
    nm = ~m
    if nm == 0:
        return mk_int(ta)
    r = _and_const(ta, nm)
    runs = _mask_runs(nm)
    # clearing the low w bits leaves w known zero low bits (so that a following "| small" is an addition)
    out = mk_int(ta - int_term(r), runs[0][1] if runs[0][0] == 0 else 0)
    if isinstance(out, SInt) and len(runs) == 1:
        out.bits = ("clear", runs[0][0], runs[0][1])
    return out


def _upper_width(p: Path, *terms: Any) -> Optional[int]:
    for w in (8, 16, 32, 64, 128, 256, 512):
        if all(p.entails(z3.And(t >= 0, t < (1 << w))) for t in terms):
            return w
    return None


def _bitop_bv(p: Path, op: str, a: Any, b: Any) -> Any:
    ta, tb = int_term(a), int_term(b)
    w = _upper_width(p, ta, tb)
    if w is None:
        raise Unsupported(f"bit operation {op} on integers of unbounded width")
    p.notes.append(f"bv{w}:{op}")
    ba, bb = z3.Int2BV(ta, w), z3.Int2BV(tb, w)
    r = {"and": ba & bb, "or": ba | bb, "xor": ba ^ bb}[op]
    return mk_int(z3.BV2Int(r, False))


def _bit_or(p: Path, a: Any, b: Any) -> Any:
    ta, tb = int_term(a), int_term(b)
    # read-modify-write idiom: (x & ~mask) | (y & mask) with the same contiguous field
    for x, y in ((a, b), (b, a)):
        bx, by = getattr(x, "bits", None), getattr(y, "bits", None)
        if bx is not None and by is not None and bx[0] == "clear" and by[0] == "within":
            if by[1] >= bx[1] and by[1] + by[2] <= bx[1] + bx[2]:
                return mk_int(ta + tb)
    if isinstance(a, int) and not isinstance(a, bool) and a == 0:
        return b
    if isinstance(b, int) and not isinstance(b, bool) and b == 0:
        return a
    # x | c for a constant c >= 0:  x + c - (x & c)   (exact for all integers)
    for x, c in ((a, b), (b, a)):
        if isinstance(c, int) and not isinstance(c, bool) and c > 0 and not isinstance(x, int):
            return mk_int(int_term(x) + c - int_term(_and_const(int_term(x), c)))
    # x | (y << s) where y fits w bits and the field [s, s+w) of x is zero:  x + (y << s)
    for x, y in ((a, b), (b, a)):
        sft = tz_of(y)
        if 0 < sft < 64 and not isinstance(x, int):
            tx, ty = int_term(x), int_term(y)
            for w in (1, 2, 4, 8, 16, 32):
                if p.entails(z3.And(ty >= 0, ty < (1 << (sft + w)))):
                    if p.entails(((tx / (1 << sft)) % (1 << w)) == 0):
                        t_min = min(tz_of(x), tz_of(y))
                        return mk_int(tx + ty, t_min if t_min < (1 << 29) else 0)
                    break
    for x, tx, y, ty in ((a, ta, b, tb), (b, tb, a, ta)):
        c = tz_of(x)
        if 0 < c < (1 << 29):
            if p.entails(z3.And(ty >= 0, ty < (1 << c))):
                return mk_int(tx + ty, min(tz_of(x), tz_of(y)))
    return _bitop_bv(p, "or", a, b)


def _bit_and(p: Path, a: Any, b: Any) -> Any:
    if isinstance(b, int) and not isinstance(b, bool):
        return _and_const(int_term(a), b)
    if isinstance(a, int) and not isinstance(a, bool):
        return _and_const(int_term(b), a)
    return _bitop_bv(p, "and", a, b)


def _shift(p: Path, op: str, a: Any, b: Any) -> Any:
    if isinstance(b, bool):
        b = int(b)
    if isinstance(b, int):
        if b < 0:
            raise_py(ValueError, "negative shift count")
        ta = int_term(a)
        if op == "l":
            return mk_int(ta * (1 << b), tz_of(a) + b if tz_of(a) < (1 << 29) else 0)
        return mk_int(ta / (1 << b))
    # symbolic shift count: 2**b as the uninterpreted-with-axioms function pow2
    tb = int_term(b)
    if p.branch(tb < 0, "negshift"):
        raise_py(ValueError, "negative shift count")
    P = pow2(p, tb)
    ta = int_term(a)
    if op == "l":
        return mk_int(ta * P)
    return mk_int(ta / P)


_POW2 = z3.Function("pow2", z3.IntSort(), z3.IntSort())


def pow2(p: Path, t: Any) -> Any:
    """2**t for a symbolic non-negative t: uninterpreted function + instance facts."""
    s = z3.simplify(t)
    if z3.is_int_value(s):
        return z3.IntVal(1 << s.as_long())
    key = ("pow2", str(s))
    r = _POW2(t)
    if key not in p.ghost:
        p.ghost[key] = True
        p.assume(r >= 1)
        p.assume(z3.Implies(t == 0, r == 1))
        p.assume(z3.Implies(t >= 1, r >= 2 * 1))
        # monotonicity / additivity instances against the other pow2 terms of this path
        for (k2, t2) in list(p.ghost.get("pow2terms", [])):
            r2 = _POW2(t2)
            p.assume(z3.Implies(t <= t2, r <= r2))
            p.assume(z3.Implies(t2 <= t, r2 <= r))
            p.assume(z3.Implies(t < t2, 2 * r <= r2))
            p.assume(z3.Implies(t2 < t, 2 * r2 <= r))
            p.assume(z3.Implies(t == t2, r == r2))
            for c in (1, 2, 3, 4, 8, 16, 24, 32):
                p.assume(z3.Implies(t2 - t == c, r2 == r * (1 << c)))
                p.assume(z3.Implies(t - t2 == c, r == r2 * (1 << c)))
        for c in (8, 16, 32, 64):
            p.assume(z3.Implies(t == c, r == (1 << c)))
            p.assume(z3.Implies(t <= c, r <= (1 << c)))
            p.assume(z3.Implies(t >= c, r >= (1 << c)))
        p.ghost.setdefault("pow2terms", []).append((key, t))
        p.assumption_ids.add("A-pow2")
    return r


def int_binop(p: Path, op: type, a: Any, b: Any) -> Any:
    if isinstance(a, SReal) or isinstance(b, SReal) or isinstance(a, float) or isinstance(b, float):
        return real_binop(p, op, a, b)
    ta, tb = int_term(a), int_term(b)
    if op is ast.Add:
        return mk_int(ta + tb, min(tz_of(a), tz_of(b)) if min(tz_of(a), tz_of(b)) < (1 << 29) else 0)
    if op is ast.Sub:
        return mk_int(ta - tb)
    if op is ast.Mult:
        tz = 0
        if isinstance(b, int) and b > 0 and (b & (b - 1)) == 0:
            tz = tz_of(a) + b.bit_length() - 1
        elif isinstance(a, int) and a > 0 and (a & (a - 1)) == 0:
            tz = tz_of(b) + a.bit_length() - 1
        return mk_int(ta * tb, tz if tz < (1 << 29) else 0)
    if op is ast.FloorDiv:
        return _floordiv(p, a, b)
    if op is ast.Mod:
        return _mod(p, a, b)
    if op is ast.Div:
        if p.branch(tb == 0, "div0"):
            raise_py(ZeroDivisionError, "division by zero")
        p.assumption_ids.add("A-float")
        return SReal(z3.ToReal(ta) / z3.ToReal(tb))
    if op is ast.LShift:
        return _shift(p, "l", a, b)
    if op is ast.RShift:
        return _shift(p, "r", a, b)
    if op is ast.BitAnd:
        return _bit_and(p, a, b)
    if op is ast.BitOr:
        return _bit_or(p, a, b)
    if op is ast.BitXor:
        # x ^ (2**k - 1) for 0 <= x < 2**k is the complement within k bits: (2**k - 1) - x   (exact)
        for x, c in ((a, b), (b, a)):
            if isinstance(c, int) and not isinstance(c, bool) and c > 0 and (c & (c + 1)) == 0 and not isinstance(x, int):
                tx = int_term(x)
                if p.entails(z3.And(tx >= 0, tx <= c)):
                    return mk_int(c - tx)
        return _bitop_bv(p, "xor", a, b)
    if op is ast.Pow:
        if isinstance(b, int) and not isinstance(b, bool) and 0 <= b <= 64:
            t: Any = z3.IntVal(1)
            for _ in range(b):
                t = t * ta
            return mk_int(t)
        if isinstance(a, int) and a == 2:
            if p.branch(tb < 0, "negpow"):
                raise Unsupported("negative exponent")
            return mk_int(pow2(p, tb))
        raise Unsupported("symbolic exponent")
    raise Unsupported(f"integer operator {op.__name__}")


def real_term(v: Any) -> Any:
    if isinstance(v, SReal):
        return v.t
    if isinstance(v, float):
        return z3.RealVal(repr(v))
    return z3.ToReal(int_term(v))


def real_binop(p: Path, op: type, a: Any, b: Any) -> Any:
    ta, tb = real_term(a), real_term(b)
    p.assumption_ids.add("A-float")
    if op is ast.Add:
        return SReal(ta + tb)
    if op is ast.Sub:
        return SReal(ta - tb)
    if op is ast.Mult:
        return SReal(ta * tb)
    if op is ast.Div:
        if p.branch(tb == 0, "div0"):
            raise_py(ZeroDivisionError, "float division by zero")
        return SReal(ta / tb)
    raise Unsupported(f"float operator {op.__name__}")


def real_ceil(v: Any) -> Any:
    if isinstance(v, SReal):
        return mk_int(-z3.ToInt(-v.t))
    return mk_int(int_term(v))


def real_floor(v: Any) -> Any:
    if isinstance(v, SReal):
        return mk_int(z3.ToInt(v.t))
    return mk_int(int_term(v))


def real_trunc(v: SReal) -> Any:
    return mk_int(z3.If(v.t >= 0, z3.ToInt(v.t), -z3.ToInt(-v.t)))


# ---------------------------------------------------------------------------------------------
# byte strings
# ---------------------------------------------------------------------------------------------
def conc_len(p: Path, b: SBytes) -> Optional[int]:
    """Concrete length if the path condition determines it."""
    c = b.conc_len()
    if c is not None:
        return c
    return p.fixed_value(b.n)


def bytes_eq_term(p: Path, a: Any, b: Any) -> Any:
    a, b = as_sbytes(a), as_sbytes(b)
    la, lb = a.conc_len(), b.conc_len()
    if la is not None and lb is not None:
        if la != lb:
            return z3.BoolVal(False)
        if la <= MAX_EXPAND:
            return z3.And([a.at(z3.IntVal(i)) == b.at(z3.IntVal(i)) for i in range(la)]) if la else z3.BoolVal(True)
    p.nfresh += 1
    k = z3.Int(f"k!eq{p.nfresh}")
    body = z3.Implies(z3.And(k >= 0, k < a.n), a.at(k) == b.at(k))
    return z3.And(a.n == b.n, z3.ForAll([k], body))


def norm_index(p: Path, i: Any, n: Any, default: Any) -> Any:
    """Python slice-bound normalisation (clamping), resolved by entailment where possible."""
    if i is None:
        return default
    ti = int_term(i)
    if p.entails(z3.And(ti >= 0, ti <= n)):
        return ti
    if p.entails(ti > n):
        return n
    if p.entails(z3.And(ti < 0, ti >= -n)):
        return ti + n
    if p.entails(ti < -n):
        return z3.IntVal(0)
    return z3.If(ti < 0, z3.If(ti + n < 0, 0, ti + n), z3.If(ti > n, n, ti))


def bytes_slice(p: Path, b: Any, lo: Any, hi: Any, step: Any = None) -> SBytes:
    b = as_sbytes(b)
    if step is not None and step != 1:
        return bytes_slice_step(p, b, lo, hi, step)
    tlo = norm_index(p, lo, b.n, z3.IntVal(0))
    thi = norm_index(p, hi, b.n, b.n)
    if p.entails(thi >= tlo):
        n = z3.simplify(thi - tlo)
    else:
        n = z3.If(thi >= tlo, thi - tlo, 0)
    s = z3.simplify(tlo)
    if b.parts and z3.is_int_value(s) and z3.is_int_value(z3.simplify(n)):
        lo_c, n_c = s.as_long(), z3.simplify(n).as_long()
        for (o, piece) in b.parts:
            if o == lo_c and piece.conc_len() == n_c:
                return piece  # exactly one piece of a concatenation: keeps its identity (and provenance)
    if z3.is_int_value(s) and s.as_long() == 0:
        return SBytes(n, b.at, b.name + "[:]")
    return SBytes(n, lambda i, b=b, tlo=tlo: b.at(tlo + i), b.name + "[:]")


def bytes_slice_step(p: Path, b: SBytes, lo: Any, hi: Any, step: Any) -> SBytes:
    if not isinstance(step, int) or isinstance(step, bool) or step == 0:
        raise Unsupported("symbolic or zero slice step")
    n = b.n
    if step == -1 and lo is None and hi is None:
        return SBytes(n, lambda i, b=b: b.at(b.n - 1 - i), b.name + "[::-1]")
    if step > 0:
        tlo = norm_index(p, lo, n, z3.IntVal(0))
        thi = norm_index(p, hi, n, n)
        cnt = z3.If(thi > tlo, (thi - tlo + (step - 1)) / step, 0)
        return SBytes(z3.simplify(cnt), lambda i, b=b, tlo=tlo: b.at(tlo + i * step), b.name + "[::k]")
    raise Unsupported("negative-step slice with bounds")


def bytes_concat(a: Any, b: Any) -> SBytes:
    a, b = as_sbytes(a), as_sbytes(b)
    if a.conc_len() == 0:
        return b
    if b.conc_len() == 0:
        return a
    parts = None
    la, lb = a.conc_len(), b.conc_len()
    if la is not None and lb is not None:
        pa = a.parts if a.parts else [(0, a)]
        pb = b.parts if b.parts else [(0, b)]
        parts = list(pa) + [(la + o, x) for (o, x) in pb]
    return SBytes(
        z3.simplify(a.n + b.n),
        lambda i, a=a, b=b: z3.If(i < a.n, a.at(i), b.at(i - a.n)),
        f"({a.name}+{b.name})",
        parts=parts,
    )


def bytes_repeat(p: Path, b: Any, k: Any) -> SBytes:
    b = as_sbytes(b)
    tk = int_term(k)
    cnt = tk if p.entails(tk >= 0) else z3.If(tk >= 0, tk, 0)
    bl = b.conc_len()
    if bl == 1:
        return SBytes(z3.simplify(cnt), lambda i, b=b: b.at(z3.IntVal(0)), f"{b.name}*k")
    if bl == 0:
        return SBytes(0, b.at)
    if bl is not None:
        return SBytes(z3.simplify(cnt * bl), lambda i, b=b, bl=bl: b.at(i % bl), f"{b.name}*k")
    if not p.entails(b.n > 0):
        raise Unsupported("repetition of a possibly empty symbolic byte string")
    return SBytes(cnt * b.n, lambda i, b=b: b.at(i % b.n), f"{b.name}*k")


def bytes_zero(n: Any) -> SBytes:
    return SBytes(n, lambda i: z3.IntVal(0), "zeros")


def bytes_from_ints(items: list) -> SBytes:
    ts = [int_term(x) for x in items]
    n = len(ts)

    def at(i: Any) -> Any:
        if isinstance(i, int):
            return ts[i]
        si = z3.simplify(i)
        if z3.is_int_value(si) and 0 <= si.as_long() < n:
            return ts[si.as_long()]
        if n == 0:
            return z3.IntVal(0)
        e = ts[-1]
        for k in range(n - 2, -1, -1):
            e = z3.If(i == k, ts[k], e)
        return e

    return SBytes(n, at, f"ints{n}")


def bytes_index(p: Path, b: Any, i: Any) -> Any:
    b = as_sbytes(b)
    ti = int_term(i)
    if p.branch(z3.And(ti >= 0, ti < b.n), "idx"):
        return mk_int(b.at(ti))
    if p.branch(z3.And(ti < 0, ti >= -b.n), "negidx"):
        return mk_int(b.at(ti + b.n))
    raise_py(IndexError, "index out of range")


def _provs(b: Any) -> list:
    pv = getattr(b, "prov", None)
    if pv is None:
        return []
    return pv if isinstance(pv, list) else [pv]


def int_to_bytes(p: Path, v: Any, length: Any, order: str, signed: bool = False) -> SBytes:
    if signed:
        raise Unsupported("to_bytes(signed=True)")
    tv = int_term(v)
    if isinstance(length, (SInt, SBool)):
        # concretise by entailment
        n = p.fixed_value(int_term(length))
        if n is None:
            return int_to_bytes_symlen(p, tv, int_term(length), order)
    else:
        n = int(length)
    if n < 0:
        raise_py(ValueError, "length argument must be non-negative")
    if p.branch(z3.Or(tv < 0, tv >= (1 << (8 * n))), "to_bytes-overflow"):
        raise_py(OverflowError, "int too big to convert")
    pv = getattr(v, "prov", None)
    if pv is not None and pv[0] == "from_bytes" and pv[3] == n:
        # v == from_bytes(b, o) with len(b) == n: its n-digit notation is b itself (same order) or b reversed
        b0: SBytes = pv[1]
        p.assumption_ids.add("A-struct")
        provs = [("to_bytes", tv, order, n)]
        other = "little" if order == "big" else "big"
        for q in _provs(b0):
            if q[0] == "to_bytes" and q[3] == n:
                # b0 is the notation of q[1] in order q[2]; the result is b0 (same order) or its reversal (opposite order)
                provs.append(("to_bytes", q[1], q[2] if pv[2] == order else ("little" if q[2] == "big" else "big"), n))
        if pv[2] == order:
            return SBytes(n, b0.at, b0.name, prov=provs)
        return SBytes(n, lambda i, b0=b0: b0.at(n - 1 - i), b0.name + ".rev", prov=provs)
    bts = [(tv / (1 << (8 * j))) % 256 if j else tv % 256 for j in range(n)]  # little-endian digits
    if order == "big":
        bts = bts[::-1]
    r = bytes_from_ints([SInt(t) for t in bts])
    return SBytes(r.n, r.at, f"tobytes{n}", prov=[("to_bytes", tv, order, n)])


_BYTEAT = z3.Function("byte_at", z3.IntSort(), z3.IntSort(), z3.IntSort())  # digit j (LE) of a non-negative int


def int_to_bytes_symlen(p: Path, tv: Any, tn: Any, order: str) -> SBytes:
    """to_bytes with a symbolic length: digits as the uninterpreted function byte_at(v, j)."""
    if p.branch(tn < 0, "neglen"):
        raise_py(ValueError, "length argument must be non-negative")
    P = pow2(p, 8 * tn)
    if p.branch(z3.Or(tv < 0, tv >= P), "to_bytes-overflow"):
        raise_py(OverflowError, "int too big to convert")
    p.assumption_ids.add("A-byteat")
    if order == "little":
        return SBytes(tn, lambda i: _BYTEAT(tv, i), "tobytesN")
    return SBytes(tn, lambda i: _BYTEAT(tv, tn - 1 - i), "tobytesN")


def int_from_bytes(p: Path, b: Any, order: str, signed: bool = False) -> Any:
    if signed:
        raise Unsupported("from_bytes(signed=True)")
    b = as_sbytes(b)
    n = conc_len(p, b)
    if n is None:
        # bounded symbolic length: exact case split over the possible lengths
        cap = None
        for c in (4, 8, 16, 32, 64):
            if p.entails(b.n <= c):
                cap = c
                break
        if cap is None:
            raise Unsupported("int.from_bytes on a byte string of unbounded symbolic length")
        for k in range(cap + 1):
            if p.branch(b.n == k, f"from_bytes-len{k}"):
                n = k
                break
        if n is None:
            raise DeadPath()
    if n == 0:
        return 0
    for pv in _provs(b):
        if pv[0] == "to_bytes" and pv[3] == n and pv[2] == order:
            p.assumption_ids.add("A-struct")
            return mk_int(pv[1])  # from_bytes(to_bytes(v, n, o), o) == v  (v was range-checked when the bytes were made)
    t: Any = None
    for k in range(n):
        pos = k if order == "little" else n - 1 - k
        term = b.at(z3.IntVal(k)) * (1 << (8 * pos)) if pos else b.at(z3.IntVal(k))
        t = term if t is None else t + term
    r = mk_int(t)
    if isinstance(r, SInt):
        r.prov = ("from_bytes", b, order, n)
    return r


# ---- struct ------------------------------------------------------------------------------------
_INT_CODES = {"B": (1, False), "H": (2, False), "I": (4, False), "L": (4, False), "Q": (8, False),
              "b": (1, True), "h": (2, True), "i": (4, True), "l": (4, True), "q": (8, True)}


def parse_struct_fmt(fmt: str) -> tuple:
    """-> (order, [(code, count)]) ; only standard-size modes."""
    if not fmt:
        raise Unsupported("empty struct format")
    order = "little"
    body = fmt
    if fmt[0] in "<>!=":
        order = "little" if fmt[0] in "<=" else "big"
        body = fmt[1:]
    elif fmt[0] == "@":
        raise Unsupported("native struct alignment")
    else:
        # native mode: only accept formats where native == standard little-endian without padding
        if _struct.calcsize(fmt) != _struct.calcsize("<" + fmt):
            raise Unsupported("native struct format with padding")
    items = []
    num = ""
    for ch in body:
        if ch.isdigit():
            num += ch
            continue
        if ch.isspace():
            continue
        cnt = int(num) if num else 1
        num = ""
        if ch in _INT_CODES or ch in "sx?":
            items.append((ch, cnt))
        else:
            raise Unsupported(f"struct code {ch!r}")
    return order, items


def struct_pack(p: Path, fmt: str, vals: list) -> SBytes:
    order, items = parse_struct_fmt(fmt)
    nvals = sum((1 if c == "s" else (0 if c == "x" else k)) for c, k in items)
    if nvals != len(vals):
        raise_py(_struct.error, f"pack expected {nvals} items for packing (got {len(vals)})")
    out: Any = None
    vi = 0
    for code, cnt in items:
        if code == "x":
            piece: Any = bytes_zero(cnt)
            out = piece if out is None else bytes_concat(out, piece)
            continue
        if code == "s":
            v = vals[vi]
            vi += 1
            if not is_bytes_like(v):
                raise_py(_struct.error, "argument for 's' must be a bytes object")
            sb = as_sbytes(v)
            # truncated or zero padded to cnt
            piece = SBytes(cnt, lambda i, sb=sb: z3.If(i < sb.n, sb.at(i), z3.IntVal(0)), f"s{cnt}")
            if sb.conc_len() == cnt:
                piece = SBytes(cnt, sb.at, sb.name)
            out = piece if out is None else bytes_concat(out, piece)
            continue
        for _ in range(cnt):
            v = vals[vi]
            vi += 1
            if code == "?":
                raise Unsupported("struct '?'")
            if not is_int_like(v):
                raise_py(_struct.error, "required argument is not an integer")
            size, signed = _INT_CODES[code]
            tv = int_term(v)
            if signed:
                lo, hi = -(1 << (8 * size - 1)), (1 << (8 * size - 1)) - 1
            else:
                lo, hi = 0, (1 << (8 * size)) - 1
            if p.branch(z3.Or(tv < lo, tv > hi), f"struct-range-{code}"):
                raise_py(_struct.error, f"'{code}' format requires {lo} <= number <= {hi}")
            if signed:
                tv = z3.If(tv < 0, tv + (1 << (8 * size)), tv)
                if p.entails(tv >= 0) is False:
                    pass
            pv = getattr(v, "prov", None)
            if not signed and pv is not None and pv[0] == "from_bytes" and pv[3] == size and pv[2] == order:
                piece = pv[1]  # the value was read from exactly these bytes in this order (A-struct)
                p.assumption_ids.add("A-struct")
                out = piece if out is None else bytes_concat(out, piece)
                continue
            digits = [(tv / (1 << (8 * j))) % 256 if j else tv % 256 for j in range(size)]
            if size == 1:
                digits = [tv]
            if order == "big":
                digits = digits[::-1]
            piece = bytes_from_ints([SInt(t) for t in digits])
            out = piece if out is None else bytes_concat(out, piece)
    return out if out is not None else as_sbytes(b"")


def struct_unpack(p: Path, fmt: str, data: Any, offset: Any = 0, exact: bool = True) -> tuple:
    order, items = parse_struct_fmt(fmt)
    size = _struct.calcsize(fmt if fmt[0] in "<>!=" else "<" + fmt)
    b = as_sbytes(data)
    toff = int_term(offset)
    if exact:
        if p.branch(b.n != size, "unpack-size"):
            raise_py(_struct.error, f"unpack requires a buffer of {size} bytes")
    else:
        if p.branch(toff < 0, "unpack-negoff"):
            if p.branch(toff + b.n < 0, "unpack-negoff2"):
                raise_py(_struct.error, "offset out of range")
            toff = toff + b.n
        if p.branch(b.n - toff < size, "unpack-size"):
            raise_py(_struct.error, f"unpack_from requires a buffer of at least {size} bytes")
    res = []
    pos = 0
    for code, cnt in items:
        if code == "x":
            pos += cnt
            continue
        if code == "s":
            base = z3.simplify(toff + pos)
            res.append(SBytes(cnt, lambda i, b=b, base=base: b.at(base + i), f"{b.name}[s{cnt}]"))
            pos += cnt
            continue
        size1, signed = _INT_CODES[code]
        for _ in range(cnt):
            hit = None
            off_c = z3.simplify(toff + pos)
            if b.parts and not signed and z3.is_int_value(off_c):
                for (o, piece) in b.parts:
                    if o == off_c.as_long() and piece.conc_len() == size1:
                        for pv in _provs(piece):
                            if pv[0] == "to_bytes" and pv[3] == size1 and pv[2] == order:
                                hit = pv[1]
                                break
                    if hit is not None:
                        break
            if hit is not None:  # unpack of a field that was packed with the same width and order: the value itself (A-struct)
                p.assumption_ids.add("A-struct")
                res.append(mk_int(hit))
                pos += size1
                continue
            t: Any = None
            for k in range(size1):
                w = k if order == "little" else size1 - 1 - k
                term = b.at(z3.simplify(toff + pos + k))
                term = term * (1 << (8 * w)) if w else term
                t = term if t is None else t + term
            if signed:
                t = z3.If(t >= (1 << (8 * size1 - 1)), t - (1 << (8 * size1)), t)
            r = mk_int(t)
            if isinstance(r, SInt) and not signed:
                base = z3.simplify(toff + pos)
                r.prov = ("from_bytes", SBytes(size1, lambda i, b=b, base=base: b.at(base + i), f"{b.name}[{pos}:]"), order, size1)
            res.append(r)
            pos += size1
    return tuple(res)


# ---------------------------------------------------------------------------------------------
# generic operators
# ---------------------------------------------------------------------------------------------
def binop(p: Path, op: type, a: Any, b: Any) -> Any:
    if not has_sym(a) and not has_sym(b):
        return _concrete_binop(op, a, b)
    if is_bytes_like(a) or is_bytes_like(b):
        if op is ast.Add and is_bytes_like(a) and is_bytes_like(b):
            r = bytes_concat(a, b)
            return SByteArray(r) if isinstance(a, (bytearray, SByteArray)) else r
        if op is ast.Mult:
            if is_bytes_like(a) and is_int_like(b):
                return bytes_repeat(p, a, b)
            if is_bytes_like(b) and is_int_like(a):
                return bytes_repeat(p, b, a)
        raise Unsupported(f"bytes operator {op.__name__}")
    if (is_int_like(a) or isinstance(a, (SReal, float))) and (is_int_like(b) or isinstance(b, (SReal, float))):
        return int_binop(p, op, a, b)
    if isinstance(a, (list, tuple)) and isinstance(b, (list, tuple)) and op is ast.Add:
        return a + b  # type: ignore[operator]
    if isinstance(a, list) and is_int_like(b) and op is ast.Mult and isinstance(b, int):
        return a * b
    if isinstance(a, list) and len(a) == 1 and is_int_like(b) and op is ast.Mult:
        # [x] * k with a symbolic count: an immutable symbolic-length sequence of x (max(k, 0) elements, as in Python)
        tk = int_term(b)
        return SSeq(tk if p.entails(tk >= 0) else z3.If(tk >= 0, tk, 0), lambda i, x=a[0]: x, "[x]*k")
    raise Unsupported(f"operator {op.__name__} on {type(a).__name__}, {type(b).__name__}")


def _concrete_binop(op: type, a: Any, b: Any) -> Any:
    import operator as o

    table = {ast.Add: o.add, ast.Sub: o.sub, ast.Mult: o.mul, ast.FloorDiv: o.floordiv, ast.Mod: o.mod,
             ast.Div: o.truediv, ast.LShift: o.lshift, ast.RShift: o.rshift, ast.BitAnd: o.and_,
             ast.BitOr: o.or_, ast.BitXor: o.xor, ast.Pow: o.pow, ast.MatMult: o.matmul}
    try:
        r = table[op](a, b)
    except (ZeroDivisionError, ValueError, TypeError, OverflowError) as e:
        raise PyRaise(SExc(type(e), e.args))
    if isinstance(r, float):
        # keep floats exact: represent as rational
        from fractions import Fraction

        if isinstance(a, (int, bool)) and isinstance(b, (int, bool)) and op is ast.Div:
            fr = Fraction(a, b)
            return SReal(z3.RealVal(f"{fr.numerator}/{fr.denominator}"))
    return r


def unop(p: Path, op: type, a: Any) -> Any:
    if not has_sym(a):
        if op is ast.Not:
            return not a
        if op is ast.USub:
            return -a
        if op is ast.UAdd:
            return +a
        if op is ast.Invert:
            return ~a
    if op is ast.USub:
        return mk_int(-int_term(a))
    if op is ast.UAdd:
        return mk_int(int_term(a))
    if op is ast.Invert:
        return mk_int(-int_term(a) - 1)
    raise Unsupported(f"unary {op.__name__}")


def eq_term(p: Path, a: Any, b: Any) -> Any:
    """z3 Bool term (or python bool) for a == b."""
    if a is b and not isinstance(a, float):
        return True
    if not has_sym(a) and not has_sym(b):
        return bool(a == b)
    if a is None or b is None:
        return False  # a symbolic value is never None (Optional is forked at creation)
    # SpsdkEnum.__eq__(x) is  self.tag == x or self.label == x  (real semantics of the repository's enum base class)
    for x, y in ((a, b), (b, a)):
        if not has_sym(x) and type(x).__module__.startswith("spsdk") and hasattr(x, "tag") and hasattr(x, "label") \
                and getattr(type(x).__eq__, "__module__", "") == "spsdk.utils.spsdk_enum":
            if is_int_like(y):
                return int_term(y) == x.tag
            if isinstance(y, SStr):
                return y.t == p.strc(x.label)
            return False
    if isinstance(a, SReal) or isinstance(b, SReal):
        if is_int_like(a) or is_int_like(b) or (isinstance(a, SReal) and isinstance(b, SReal)):
            return real_term(a) == real_term(b)
        return False
    if is_int_like(a) and is_int_like(b):
        return int_term(a) == int_term(b)
    if is_bytes_like(a) and is_bytes_like(b):
        return bytes_eq_term(p, a, b)
    if isinstance(a, SStr) or isinstance(b, SStr):
        if isinstance(a, SStr) and isinstance(b, SStr):
            return a.t == b.t
        s, c = (a, b) if isinstance(a, SStr) else (b, a)
        if isinstance(c, str):
            return s.t == p.strc(c)
        return False
    if isinstance(a, (tuple, list)) and isinstance(b, (tuple, list)) and type(a) is type(b):
        if len(a) != len(b):
            return False
        parts = [eq_term(p, x, y) for x, y in zip(a, b)]
        if any(x is False for x in parts):
            return False
        parts = [x for x in parts if x is not True]
        return z3.And(parts) if parts else True
    if isinstance(a, SObj) or isinstance(b, SObj):
        if isinstance(a, SObj) and isinstance(b, SObj):
            if a is b:
                return True
            if getattr(a.cls, "__eq__", None) is object.__eq__ and getattr(b.cls, "__eq__", None) is object.__eq__:
                return False  # identity semantics (distinct symbolic objects are distinct heap objects)
            if getattr(getattr(a.cls, "__eq__", None), "__module__", "").startswith("specs"):
                return False  # spec-level abstract classes define == as identity
            raise Unsupported("== between distinct symbolic objects (needs __eq__ contract)")
        so = a if isinstance(a, SObj) else b
        if getattr(so.cls, "__eq__", None) is object.__eq__:
            return False
        raise Unsupported("== between a symbolic object with __eq__ and another value")
    ka = "int" if is_int_like(a) else "bytes" if is_bytes_like(a) else type(a).__name__
    kb = "int" if is_int_like(b) else "bytes" if is_bytes_like(b) else type(b).__name__
    if ka != kb:
        return False
    raise Unsupported(f"== on {ka}, {kb}")


def compare(p: Path, op: type, a: Any, b: Any) -> Any:
    """Returns python bool or SBool."""
    if op in (ast.Is, ast.IsNot):
        if a is None or b is None or isinstance(a, (bool, type)) or isinstance(b, (bool, type)):
            if has_sym(a) or has_sym(b):
                if isinstance(a, SBool) or isinstance(b, SBool):
                    if isinstance(a, (SBool, bool)) and isinstance(b, (SBool, bool)):
                        t = bool_term(a) == bool_term(b)
                        return mk_bool(t if op is ast.Is else z3.Not(t))
                r = False
            else:
                r = a is b
            return r if op is ast.Is else not r
        if not has_sym(a) and not has_sym(b):
            r = a is b or (type(a) is type(b) and isinstance(a, (int, str, bytes)) and a == b and _small_identity(a))
            return r if op is ast.Is else not r
        r = a is b
        return r if op is ast.Is else not r
    if op in (ast.Eq, ast.NotEq):
        t = eq_term(p, a, b)
        if isinstance(t, bool):
            return t if op is ast.Eq else not t
        return mk_bool(t if op is ast.Eq else z3.Not(t))
    if op in (ast.Lt, ast.LtE, ast.Gt, ast.GtE):
        if not has_sym(a) and not has_sym(b):
            import operator as o

            return {ast.Lt: o.lt, ast.LtE: o.le, ast.Gt: o.gt, ast.GtE: o.ge}[op](a, b)
        if isinstance(a, (SReal, float)) or isinstance(b, (SReal, float)):
            ta, tb = real_term(a), real_term(b)
        elif is_int_like(a) and is_int_like(b):
            ta, tb = int_term(a), int_term(b)
        else:
            raise Unsupported(f"ordering on {type(a).__name__}, {type(b).__name__}")
        t = {ast.Lt: ta < tb, ast.LtE: ta <= tb, ast.Gt: ta > tb, ast.GtE: ta >= tb}[op]
        return mk_bool(t)
    if op in (ast.In, ast.NotIn):
        r = contains(p, b, a)
        if isinstance(r, bool):
            return r if op is ast.In else not r
        return mk_bool(r.t if op is ast.In else z3.Not(r.t))
    raise Unsupported(f"comparison {op.__name__}")


def _small_identity(a: Any) -> bool:
    return isinstance(a, int) and -5 <= a <= 256


def contains(p: Path, container: Any, item: Any) -> Any:
    if not has_sym(container) and not has_sym(item):
        return item in container
    if isinstance(container, (list, tuple, set, frozenset)) or (isinstance(container, dict)):
        elems = list(container.keys()) if isinstance(container, dict) else list(container)
        parts = []
        for e in elems:
            t = eq_term(p, item, e)
            if t is True:
                return True
            if t is not False:
                parts.append(t)
        if not parts:
            return False
        return mk_bool(z3.Or(parts))
    if isinstance(container, range) and is_int_like(item):
        ti = int_term(item)
        if container.step == 1:
            return mk_bool(z3.And(ti >= container.start, ti < container.stop))
        if container.step > 0:
            return mk_bool(z3.And(ti >= container.start, ti < container.stop,
                                  (ti - container.start) % container.step == 0))
    raise Unsupported(f"'in' on {type(container).__name__}")


def truth(p: Path, v: Any, label: str = "truth") -> bool:
    """Python truthiness; forks on symbolic conditions."""
    t = truth_term(p, v)
    if isinstance(t, bool):
        return t
    return p.branch(t, label)


OBJ_LEN_HOOK: Any = None   # set by the interpreter: calls the object's __len__ (real code or contract)


def truth_term(p: Path, v: Any) -> Any:
    if isinstance(v, SBool):
        return v.t
    if isinstance(v, SInt):
        return v.t != 0
    if isinstance(v, SReal):
        return v.t != 0
    if isinstance(v, SBytes):
        return v.n > 0
    if isinstance(v, SByteArray):
        return v.v.n > 0
    if isinstance(v, SSeq):
        return v.n > 0
    if isinstance(v, SStr):
        return v.t != p.strc("")
    if isinstance(v, SObj):
        if hasattr(v.cls, "__bool__"):
            raise Unsupported(f"truthiness of {v.cls.__name__} with __bool__")
        if hasattr(v.cls, "__len__"):
            if OBJ_LEN_HOOK is None:
                raise Unsupported(f"truthiness of {v.cls.__name__} with __len__")
            n = OBJ_LEN_HOOK(v)     # Python: an object with __len__ is true iff its length is not zero
            return (n != 0) if isinstance(n, int) else int_term(n) != 0
        return True
    if is_sym(v):
        raise Unsupported(f"truthiness of {v!r}")
    return bool(v)


def to_bool_value(p: Path, v: Any) -> Any:
    t = truth_term(p, v)
    return t if isinstance(t, bool) else mk_bool(t)
