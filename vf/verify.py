"""Verification of one function against its contract: path exploration + obligations."""
from __future__ import annotations

import ast
import copy
import time
import traceback
from typing import Any, Optional

import z3

from . import ops
from .interp import UNBOUND, Frame, Interp, PathEnd
from .path import Obligation, Path, TraceMisaligned
from .registry import Contract, Registry
from .solve import SolveResult, check_obligation, concretize
from .sym import (
    DeadPath,
    PyRaise,
    SByteArray,
    SBytes,
    SObj,
    Unsupported,
    as_sbytes,
    is_bytes_like,
)

MAX_PATHS = 400


class ObligationResult:
    def __init__(self, name: str):
        self.name = name
        self.status = "unsat"  # aggregated: unsat < unknown < sat
        self.queries = 0
        self.secs = 0.0
        self.backends: set = set()
        self.cex: Optional[dict] = None
        self.reason = ""
        self.replayable = True

    def add(self, r: SolveResult) -> None:
        self.queries += 1
        self.secs += r.secs
        self.backends.add(r.backend)
        order = {"unsat": 0, "unknown": 1, "sat": 2}
        if order[r.status] > order[self.status]:
            self.status = r.status
            self.reason = r.reason

    def to_json(self) -> dict:
        return {"name": self.name, "status": self.status, "queries": self.queries, "secs": round(self.secs, 3),
                "backends": sorted(self.backends), "cex": self.cex, "reason": self.reason}


class UnitResult:
    def __init__(self, target: str):
        self.target = target
        self.obligations: dict = {}
        self.paths = 0
        self.dead_paths = 0
        self.unsupported: list = []
        self.errors: list = []
        self.inlined: set = set()
        self.used_contracts: set = set()
        self.assumption_ids: set = set()
        self.secs = 0.0
        self.solver_secs = 0.0
        self.source: dict = {}
        self.canary_ok: Optional[bool] = None
        self.pre_sat: Optional[bool] = None
        self.notes: list = []

    def ob(self, name: str) -> ObligationResult:
        if name not in self.obligations:
            self.obligations[name] = ObligationResult(name)
        return self.obligations[name]

    def to_json(self) -> dict:
        return {"target": self.target, "paths": self.paths, "dead_paths": self.dead_paths,
                "obligations": [o.to_json() for o in self.obligations.values()],
                "unsupported": self.unsupported, "errors": self.errors, "inlined": sorted(self.inlined),
                "used_contracts": sorted(self.used_contracts), "assumption_ids": sorted(self.assumption_ids),
                "secs": round(self.secs, 3), "solver_secs": round(self.solver_secs, 3),
                "source": {k: v for k, v in self.source.items() if k != "text"},
                "canary_ok": self.canary_ok, "pre_sat": self.pre_sat, "notes": self.notes}


def _reachable_objs(v: Any, out: list, seen: set) -> None:
    if id(v) in seen:
        return
    seen.add(id(v))
    if isinstance(v, SObj):
        out.append(v)
        for x in v.fields.values():
            _reachable_objs(x, out, seen)
    elif isinstance(v, (list, tuple)):
        for x in v:
            _reachable_objs(x, out, seen)
    elif isinstance(v, dict):
        for x in v.values():
            _reachable_objs(x, out, seen)


def _modifies_paths(con: Contract) -> set:
    out = set()
    for c in con.of("modifies"):
        for t in c.node.args:
            out.add(ast.unparse(t))
    return out


def verify_contract(reg: Registry, con: Contract, timeout_ms: int = 10000, second: bool = True,
                    max_paths: int = MAX_PATHS, budget_s: float = 600.0, root: Optional[list] = None) -> UnitResult:
    """root=<decision prefix> restricts the exploration to the paths below that prefix (units split across workers)."""
    res = UnitResult(con.target)
    t_start = time.time()
    is_lemma = con.target.startswith("lemma:")
    # inline_here=[...]: callees whose real body is executed in place *in this unit only* (elsewhere their contract applies)
    reg.force_inline = set(con.opts.get("inline_here", ()))
    func = defcls = None
    if not is_lemma:
        func, defcls = reg.resolve(con.target)
        res.source = reg.source_info(func)
    worklist: list = [[]] if root is None else [list(root)]
    canary_seen = False
    while worklist:
        trace = worklist.pop()
        if res.paths + res.dead_paths >= max_paths:
            res.errors.append(f"path budget {max_paths} exceeded")
            break
        p = Path(trace, worklist, con.target)
        p.root_locked = root is not None  # type: ignore[attr-defined]
        it = Interp(p, reg)
        try:
            _run_path(reg, con, func, defcls, p, it, res, is_lemma)
            res.paths += 1
        except DeadPath:
            # the path became infeasible (e.g. after assuming a callee's precondition): obligations emitted *before* that point carry their own
            # path-condition snapshot and still count - dropping them would hide exactly the call whose precondition fails
            res.dead_paths += 1
            p.entry_bound = None  # type: ignore[attr-defined]  # no vacuity canary on a dead path
        except PathEnd:
            res.paths += 1
        except TraceMisaligned as e:
            res.errors.append(f"trace misaligned: {e}")
        except Unsupported as e:
            res.unsupported.append({"what": str(e), "decisions": [f"{l}={d}" for l, d in p.decision_labels][-8:]})
            res.paths += 1
        except RecursionError:
            res.errors.append("recursion limit")
        except z3.Z3Exception as e:
            res.errors.append(f"z3 error: {e}")
        except Exception as e:  # engine bug: never a verdict
            res.errors.append(f"engine error: {type(e).__name__}: {e}\n" + traceback.format_exc(limit=6))
        res.inlined |= it.inlined
        res.used_contracts |= it.used_contracts
        res.assumption_ids |= p.assumption_ids
        res.solver_secs += p.solver_time
        # discharge the obligations of this path
        caps = [a[2] for a in p.atoms.values() if a[0] in ("bytes", "intseq") and z3.is_expr(a[2]) and not z3.is_int_value(a[2])]
        for a in p.atoms.values():
            if a[0] == "int":  # prefer small integers in counter-models as well (replay must stay cheap)
                caps.append(z3.If(a[1] >= 0, a[1], -a[1]) / 64)
        kf = getattr(p, "kf", None)
        for ob in p.obls:
            if kf is not None:
                ob.name = f"known:{kf}:{ob.name}"
            if time.time() - t_start > budget_s:
                o = res.ob(ob.name)
                o.add(SolveResult("unknown", "none", 0.0, reason="unit time budget exhausted"))
                continue
            r = check_obligation(ob.pc, ob.goal, timeout_ms, second=second, cap_hint=caps,
                                 on_model=lambda m, p=p, ob=ob: _counterexample(p, m, ob))
            o = res.ob(ob.name)
            o.add(r)
            o.replayable = o.replayable and ob.replayable
            res.solver_secs += r.secs
            if r.status == "sat" and o.cex is None:
                o.cex = r.model
        # vacuity canary: every completed path must admit a model (its assumptions are consistent)
        if getattr(p, "entry_bound", None) is not None and p.obls:
            r = check_obligation(p.pc, z3.BoolVal(False), 3000, second=False)
            if r.status == "unsat":
                # a late-detected dead path (its obligations hold trivially): harmless unless *every* path is like that
                res.notes.append("vacuous path: " + ",".join(f"{l}={d}" for l, d in p.decision_labels[-6:]))
                if res.canary_ok is None:
                    res.canary_ok = False
            else:
                res.canary_ok = True
    res.secs = time.time() - t_start
    return res


def enumerate_prefixes(reg: Registry, con: Contract, depth: int) -> list:
    """Feasible decision prefixes of length <= depth (phase 1 of splitting a unit across workers)."""
    from .path import StopAtDepth

    is_lemma = con.target.startswith("lemma:")
    reg.force_inline = set(con.opts.get("inline_here", ()))
    func = defcls = None
    if not is_lemma:
        func, defcls = reg.resolve(con.target)
    worklist: list = [[]]
    prefixes: list = []
    n = 0
    while worklist and n < 2000:
        trace = worklist.pop()
        n += 1
        p = Path(trace, worklist, con.target)
        p.stop_depth = depth if len(trace) < depth else None
        if p.stop_depth is None:
            prefixes.append(list(trace))
            continue
        it = Interp(p, reg)
        res = UnitResult(con.target)
        try:
            _run_path(reg, con, func, defcls, p, it, res, is_lemma)
            prefixes.append(list(p.trace))
        except StopAtDepth:
            prefixes.append(list(p.trace[:depth]))
        except DeadPath:
            continue
        except Exception:  # pylint: disable=broad-except
            prefixes.append(list(p.trace))
    uniq = []
    for pf in prefixes:
        if pf not in uniq:
            uniq.append(pf)
    return uniq


def _counterexample(p: Path, m: Any, ob: Obligation) -> dict:
    out: dict = {"decisions": [f"{l}={d}" for l, d in p.decision_labels], "note": ob.note}
    bound = getattr(p, "entry_bound", None)
    if bound is not None:
        try:
            from .replay import describe

            out["inputs"] = {k: describe(concretize(m, v)) for k, v in bound.items()}
        except Exception as e:  # pylint: disable=broad-except
            out["inputs_error"] = f"{type(e).__name__}: {e}"
    return out


def _run_path(reg: Registry, con: Contract, func: Any, defcls: Any, p: Path, it: Interp, res: UnitResult,
              is_lemma: bool) -> None:
    # 1. symbolic parameters
    bound: dict = {}
    vtypes = dict(con.ann)
    for c in con.of("verify_types"):  # the body is verified on these (sub-)domains; the annotation is the call-site domain
        for kw in c.node.keywords:
            vtypes[kw.arg] = eval(compile(ast.Expression(kw.value), "<verify_types>", "eval"), con.module.__dict__)  # pylint: disable=eval-used
    from . import api as _api

    for name in con.params:
        if name not in vtypes:
            raise Unsupported(f"parameter {name} of the contract has no type annotation")
        if isinstance(vtypes[name], _api.Alias):
            continue
        bound[name] = reg.make_symbolic(it, name, vtypes[name])
    for name in con.params:
        if isinstance(vtypes[name], _api.Alias):
            bound[name] = it.ev(ast.parse(vtypes[name].path, mode="eval").body, Frame(dict(bound), con.module.__dict__, spec=True))
    p.entry_bound = copy.deepcopy(bound)  # type: ignore[attr-defined]  # the pre-state (symbolic leaves are shared)
    fr = reg.spec_frame(con, bound)
    fr.result = UNBOUND
    for c in con.clauses:  # pre-state clauses in source order (a let may depend on an earlier requires and vice versa)
        if c.kind == "let":
            for kw in c.node.keywords:
                fr.locals[kw.arg] = it.ev(kw.value, fr)
        elif c.kind == "requires":
            p.assume(reg.eval_bool(it, c.arg(0), fr))
    for c in con.of("assume"):
        p.assume(reg.eval_bool(it, c.arg(0), fr))
        p.assumption_ids.add("assume@" + con.target)
    if not p.feasible():
        raise DeadPath()
    # known-finding classes: the obligations are decided separately inside and outside each recorded input class
    for c in con.of("known_finding"):
        kid = it.ev(c.arg(0), fr)
        when = c.arg(1) or c.kwarg("when")
        w = True if when is None else reg.eval_bool(it, when, fr)
        if p.branch(w, f"known-finding:{kid}"):
            p.kf = kid  # type: ignore[attr-defined]
            break
    if is_lemma:
        for c in con.of("ensures", "check"):
            p.oblige(f"lemma:{c.label or c.idx}", reg.eval_bool(it, c.arg(0), fr))
        return
    # 2. raises conditions in the pre-state
    raise_when: list = []
    for c in con.of("raises"):
        exc = it.ev(c.arg(0), fr)
        when = c.arg(1) or c.kwarg("when")
        t = True if when is None else reg.eval_bool(it, when, fr)
        raise_when.append((exc, t, c))
    may_raise = [it.ev(c.arg(0), fr) for c in con.of("may_raise")]
    # 3. pre-state snapshot
    old_locals = copy.deepcopy(fr.locals)
    old_fr = Frame(old_locals, con.module.__dict__, qual=fr.qual, spec=True)
    # 4. run the real body (the function under verification itself is executed, never its own contract)
    args_for_body = {k: bound[k] for k in con.params}
    sig = reg.signature(func)
    for name, prm in sig.parameters.items():
        if name not in args_for_body:
            if prm.default is not prm.empty:
                args_for_body[name] = prm.default
            elif prm.kind is prm.VAR_POSITIONAL:
                args_for_body[name] = ()
            elif prm.kind is prm.VAR_KEYWORD:
                args_for_body[name] = {}
            else:
                raise Unsupported(f"contract of {con.target} does not bind parameter {name}")
    outcome_exc = None
    result: Any = None
    try:
        result = it.run_function(func, args_for_body, defcls)  # recursive calls go through the contract (induction hypothesis)
    except PyRaise as pr:
        outcome_exc = pr.exc
    fr.old = old_fr
    # 5. postconditions
    if outcome_exc is not None:
        fr.exc = outcome_exc
        matched = [(e, t, c) for (e, t, c) in raise_when if issubclass(outcome_exc.cls, e)]
        if matched:
            ts = [z3.BoolVal(t) if isinstance(t, bool) else t for (_, t, _) in matched]
            p.oblige(f"raises:{matched[0][0].__name__}:only-when", z3.Or(ts) if len(ts) > 1 else ts[0])
        elif any(issubclass(outcome_exc.cls, e) for e in may_raise):
            pass
        else:
            p.oblige(f"noraise:{outcome_exc.cls.__name__}", z3.BoolVal(False),
                     note=f"undeclared {outcome_exc.cls.__name__} escapes")
        return
    fr.result = result
    for (e, t, c) in raise_when:
        nt = (not t) if isinstance(t, bool) else z3.Not(t)
        p.oblige(f"raises:{e.__name__}:whenever:{c.label or c.idx}", nt, note="returned normally although the raise condition holds")
    for c in con.of("returns"):
        expected = it.ev(c.arg(0), fr)
        t = ops.eq_term(p, result, expected)
        p.oblige(f"post:returns:{c.label or c.idx}", t)
    for c in con.of("ensures"):
        t = reg.eval_bool(it, c.arg(0), fr)
        p.oblige(f"post:{c.label or c.idx}", t)
    # 6. frame
    mods = _modifies_paths(con)
    objs: list = []
    seen: set = set()
    for name in con.params:
        _frame_check(p, name, bound[name], old_locals[name], mods, set())


def _frame_check(p: Path, path_s: str, cur: Any, old: Any, mods: set, seen: set) -> None:
    if id(cur) in seen:
        return
    seen.add(id(cur))
    if isinstance(cur, SObj) and isinstance(old, SObj):
        for fname in set(cur.fields) | set(old.fields):
            sub = f"{path_s}.{fname}"
            if sub in mods:
                continue
            cv, ov = cur.fields.get(fname, UNBOUND), old.fields.get(fname, UNBOUND)
            if cv is UNBOUND or ov is UNBOUND:
                if cv is not ov:
                    p.oblige(f"frame:{sub}", z3.BoolVal(False), note="attribute created or deleted")
                continue
            if isinstance(cv, (SObj, list, dict)):
                _frame_check(p, sub, cv, ov, mods, seen)
                continue
            if cv is ov:
                continue
            try:
                t = ops.eq_term(p, cv, ov)
            except Unsupported:
                t = False
            if t is not True:
                p.oblige(f"frame:{sub}", t)
    elif isinstance(cur, SByteArray) and isinstance(old, SByteArray):
        if path_s in mods:
            return
        if cur.v is not old.v:
            p.oblige(f"frame:{path_s}", ops.eq_term(p, cur, old))
    elif isinstance(cur, list) and isinstance(old, list):
        if path_s in mods or path_s + "[*]" in mods:
            return
        if len(cur) != len(old):
            p.oblige(f"frame:{path_s}", z3.BoolVal(False), note="list length changed")
            return
        for i, (c, o) in enumerate(zip(cur, old)):
            if isinstance(c, (SObj, list, dict, SByteArray)):
                _frame_check(p, f"{path_s}[{i}]", c, o, mods, seen)
            elif c is not o:
                t = ops.eq_term(p, c, o)
                if t is not True:
                    p.oblige(f"frame:{path_s}[{i}]", t)
    elif isinstance(cur, dict) and isinstance(old, dict):
        if path_s in mods:
            return
        if set(cur) != set(old):
            p.oblige(f"frame:{path_s}", z3.BoolVal(False), note="dict keys changed")
            return
        for k in cur:
            if isinstance(cur[k], (SObj, list, dict, SByteArray)):
                _frame_check(p, f"{path_s}[{k!r}]", cur[k], old[k], mods, seen)
            elif cur[k] is not old[k]:
                t = ops.eq_term(p, cur[k], old[k])
                if t is not True:
                    p.oblige(f"frame:{path_s}[{k!r}]", t)
