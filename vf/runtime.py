"""Runtime form of the sidecar contracts: the same clause expressions, compiled and evaluated natively
around a call of the *real* function.  Used for replay of counter-models and by the bounded stand-ins."""
from __future__ import annotations

import ast
import copy
import inspect
from typing import Any, Optional

from . import api
from .registry import Contract, Registry


class _Lazy(ast.NodeTransformer):
    """implies(a,b) -> ((not a) or b); ite(c,a,b) -> (a if c else b); old(X) -> __old__[k]."""

    def __init__(self) -> None:
        self.olds: list = []

    def visit_Call(self, node: ast.Call) -> Any:
        if isinstance(node.func, ast.Name) and node.func.id == "old" and len(node.args) == 1:
            k = len(self.olds)
            self.olds.append(node.args[0])
            return ast.Subscript(value=ast.Name(id="__old__", ctx=ast.Load()), slice=ast.Constant(k), ctx=ast.Load())
        self.generic_visit(node)
        if isinstance(node.func, ast.Name) and node.func.id == "implies" and len(node.args) == 2:
            return ast.BoolOp(op=ast.Or(), values=[ast.UnaryOp(op=ast.Not(), operand=node.args[0]), node.args[1]])
        if isinstance(node.func, ast.Name) and node.func.id == "ite" and len(node.args) == 3:
            return ast.IfExp(test=node.args[0], body=node.args[1], orelse=node.args[2])
        return node


class _Expr:
    def __init__(self, node: ast.expr, glob: dict):
        tr = _Lazy()
        new = tr.visit(copy.deepcopy(node))
        self.olds = [compile(ast.fix_missing_locations(ast.Expression(o)), "<old>", "eval") for o in tr.olds]
        self.code = compile(ast.fix_missing_locations(ast.Expression(new)), "<clause>", "eval")
        self.glob = glob
        self.text = ast.unparse(node)

    def eval_olds(self, env: dict) -> list:
        return [eval(c, self.glob, env) for c in self.olds]  # pylint: disable=eval-used

    def eval(self, env: dict, olds: Optional[list] = None) -> Any:
        e = dict(env)
        e["__old__"] = olds or []
        return eval(self.code, self.glob, e)  # pylint: disable=eval-used


class Violation:
    def __init__(self, clause: str, detail: str):
        self.clause = clause
        self.detail = detail

    def __repr__(self) -> str:
        return f"{self.clause}: {self.detail}"


class RuntimeContract:
    def __init__(self, reg: Registry, con: Contract):
        self.con = con
        self.reg = reg
        self.func, self.owner = reg.resolve(con.target)
        g = con.module.__dict__
        self.lets = []
        for c in con.of("let"):
            for kw in c.node.keywords:
                self.lets.append((kw.arg, _Expr(kw.value, g)))
        self.requires = [(c.label or str(c.idx), _Expr(c.arg(0), g)) for c in con.of("requires")]
        self.ensures = [(c.label or str(c.idx), _Expr(c.arg(0), g)) for c in con.of("ensures")]
        self.returns = [(c.label or str(c.idx), _Expr(c.arg(0), g)) for c in con.of("returns")]
        self.raises = []
        for c in con.of("raises"):
            when = c.arg(1) or c.kwarg("when")
            self.raises.append((c.label or str(c.idx), _Expr(c.arg(0), g), _Expr(when, g) if when is not None else None))
        self.may_raise = [_Expr(c.arg(0), g) for c in con.of("may_raise")]
        self.known = []
        for c in con.of("known_finding"):
            when = c.arg(1) or c.kwarg("when")
            self.known.append((_Expr(c.arg(0), g), _Expr(when, g) if when is not None else None))
        self.realize = None
        for c in con.of("replay_with"):
            self.realize = eval(compile(ast.Expression(c.arg(0)), "<replay_with>", "eval"), g)  # pylint: disable=eval-used
        self.modifies = set()
        for c in con.of("modifies"):
            for t in c.node.args:
                self.modifies.add(ast.unparse(t))

    def _callable(self) -> Any:
        from .registry import AstFunc

        if isinstance(self.func, AstFunc):
            # compile the action from its AST (decorators dropped) in its module's namespace
            node = copy.deepcopy(self.func.node)
            node.decorator_list = []
            m = ast.Module(body=[node], type_ignores=[])
            ast.fix_missing_locations(m)
            ns: dict = {}
            exec(compile(m, self.func.path, "exec"), self.func.module.__dict__, ns)  # pylint: disable=exec-used
            return ns[node.name]
        return self.func

    def bind(self, kwargs: dict) -> dict:
        sig = inspect.signature(self.func)
        ba = sig.bind_partial(**kwargs)
        ba.apply_defaults()
        return dict(ba.arguments)

    def check_call(self, kwargs: dict, timeout_s: Optional[float] = None) -> dict:
        """Call the real function on kwargs and evaluate the contract.  Returns a report dict."""
        rep: dict = {"target": self.con.target, "violations": [], "applicable": True, "spec_errors": []}
        if getattr(self, "_from_model", False) and self.realize is not None:
            kwargs = self.realize(kwargs)  # abstract (ghost-only) objects of a counter-model become real ones
        env = dict(kwargs)
        try:
            for name, ex in self.lets:
                env[name] = ex.eval(env)
            for label, ex in self.requires:
                if not ex.eval(env):
                    rep["applicable"] = False
                    rep["note"] = f"precondition {label} does not hold"
                    return rep
            for id_e, when_e in self.known:
                if when_e is None or when_e.eval(env):
                    rep["known_class"] = id_e.eval(env)
            whens = []
            for label, exc_e, when_e in self.raises:
                whens.append((label, exc_e.eval(env), True if when_e is None else bool(when_e.eval(env))))
            allowed = [e.eval(env) for e in self.may_raise]
        except Exception as e:  # pylint: disable=broad-except
            rep["spec_errors"].append(f"pre-state clause: {type(e).__name__}: {e}")
            return rep
        old_env = {}
        for _k, _v in env.items():
            try:
                old_env[_k] = copy.deepcopy(_v)
            except Exception:  # pylint: disable=broad-except
                old_env[_k] = _v   # objects that wrap C extension handles (cryptography keys) cannot be copied: old(...) of them is the object itself
        olds_e = [ex.eval_olds(old_env) for _, ex in self.ensures]
        olds_r = [ex.eval_olds(old_env) for _, ex in self.returns]
        exc: Optional[BaseException] = None
        result = None
        # ghost rng: record what the OS generator hands out during this call (spsdk.crypto.rng is the only entry point)
        import spsdk.crypto.rng as _rng

        import secrets as _secrets

        del api.RNG_RECORDER[:]
        _has_tb = hasattr(_rng, "token_bytes")   # a tree whose rng module no longer imports the OS generator has nothing to record there
        _orig_tb = getattr(_rng, "token_bytes", None)
        _orig_sec = _secrets.token_bytes

        def _rec(n: int = 32) -> bytes:
            b = (_orig_tb or _orig_sec)(n)
            api.RNG_RECORDER.append(b)
            return b

        def _rec_sec(n: Any = None) -> bytes:
            b = _orig_sec(n)
            api.RNG_RECORDER.append(b)
            return b

        if _has_tb:
            _rng.token_bytes = _rec
        _secrets.token_bytes = _rec_sec
        try:
            fn = self._callable()
            if timeout_s is not None:
                result = _call_with_timeout(fn, kwargs, timeout_s)
            else:
                result = fn(**kwargs)
        except _Timeout:
            rep["violations"].append(repr(Violation("termination", f"no result within {timeout_s}s")))
            rep["outcome"] = "timeout"
            return rep
        except Exception as e:  # pylint: disable=broad-except
            exc = e
        finally:
            if _has_tb:
                _rng.token_bytes = _orig_tb
            _secrets.token_bytes = _orig_sec
        if exc is not None:
            rep["outcome"] = f"raised {type(exc).__name__}: {str(exc)[:120]}"
            matched = [(l, c, w) for (l, c, w) in whens if isinstance(exc, c)]
            if matched:
                if not any(w for (_, _, w) in matched):
                    rep["violations"].append(repr(Violation(f"raises:{matched[0][1].__name__}:only-when",
                                                            "raised although no raise condition holds")))
            elif any(isinstance(exc, a) for a in allowed):
                pass
            else:
                rep["violations"].append(repr(Violation(f"noraise:{type(exc).__name__}", "undeclared exception escapes")))
            return rep
        rep["outcome"] = "returned"
        for (l, c, w) in whens:
            if w:
                rep["violations"].append(repr(Violation(f"raises:{c.__name__}:whenever:{l}",
                                                        "returned normally although the raise condition holds")))
        env["result"] = result
        for (label, ex), olds in zip(self.returns, olds_r):
            try:
                exp = ex.eval(env, olds)
                if not _same(result, exp):
                    rep["violations"].append(repr(Violation(f"post:returns:{label}", f"got {_short(result)}, expected {_short(exp)}")))
            except Exception as e:  # pylint: disable=broad-except
                rep["spec_errors"].append(f"returns {label}: {type(e).__name__}: {e}")
        for (label, ex), olds in zip(self.ensures, olds_e):
            try:
                if not ex.eval(env, olds):
                    rep["violations"].append(repr(Violation(f"post:{label}", f"{ex.text[:100]} is false; result={_short(result)}")))
            except Exception as e:  # pylint: disable=broad-except
                rep["spec_errors"].append(f"ensures {label}: {type(e).__name__}: {e}")
        # frame
        for name, v in kwargs.items():
            _frame(rep, name, v, old_env.get(name), self.modifies, set())
        return rep


def _same(a: Any, b: Any) -> bool:
    if isinstance(a, (bytes, bytearray)) and isinstance(b, (bytes, bytearray)):
        return bytes(a) == bytes(b)
    if isinstance(a, bool) != isinstance(b, bool) and isinstance(a, (bool, int)) and isinstance(b, (bool, int)):
        return False
    return a == b


def _short(v: Any) -> str:
    r = repr(v)
    return r if len(r) < 100 else r[:97] + "..."


def _frame(rep: dict, path: str, cur: Any, old: Any, mods: set, seen: set) -> None:
    if id(cur) in seen or path in mods:
        return
    seen.add(id(cur))
    if isinstance(cur, (int, str, bytes, bool, type(None), float)):
        return
    if isinstance(cur, bytearray):
        if cur != old:
            rep["violations"].append(repr(Violation(f"frame:{path}", "bytearray changed")))
        return
    if isinstance(cur, list):
        if path + "[*]" in mods:
            return
        if not isinstance(old, list) or len(cur) != len(old):
            rep["violations"].append(repr(Violation(f"frame:{path}", "list length changed")))
            return
        for i, (c, o) in enumerate(zip(cur, old)):
            _frame(rep, f"{path}[{i}]", c, o, mods, seen)
        return
    if isinstance(cur, dict):
        if set(cur) != set(old or {}):
            rep["violations"].append(repr(Violation(f"frame:{path}", "dict keys changed")))
            return
        for k in cur:
            _frame(rep, f"{path}[{k!r}]", cur[k], old[k], mods, seen)
        return
    d = getattr(cur, "__dict__", None)
    if d is None or not (type(cur).__module__ or "").startswith("spsdk"):
        return
    od = getattr(old, "__dict__", {})
    for k in set(d) | set(od):
        sub = f"{path}.{k}"
        if sub in mods:
            continue
        if k not in d or k not in od:
            rep["violations"].append(repr(Violation(f"frame:{sub}", "attribute created or deleted")))
            continue
        cv, ov = d[k], od[k]
        if isinstance(cv, (int, str, bytes, bool, type(None), float)):
            if cv != ov:
                rep["violations"].append(repr(Violation(f"frame:{sub}", f"{_short(ov)} -> {_short(cv)}")))
        else:
            _frame(rep, sub, cv, ov, mods, seen)


class _Timeout(Exception):
    pass


def _call_with_timeout(func: Any, kwargs: dict, timeout_s: float) -> Any:
    import signal

    def handler(signum: int, frame: Any) -> None:
        raise _Timeout()

    prev = signal.signal(signal.SIGALRM, handler)
    signal.setitimer(signal.ITIMER_REAL, timeout_s)
    try:
        return func(**kwargs)
    finally:
        signal.setitimer(signal.ITIMER_REAL, 0)
        signal.signal(signal.SIGALRM, prev)


def replay_lemma(con: Contract, kwargs: dict) -> dict:
    """Native evaluation of a lemma on concrete parameter values: the same clause expressions, evaluated by CPython against the real
    repository functions they call.  A false `ensures` (or an exception inside a `let`/`ensures`) confirms the counter-model."""
    g = con.module.__dict__
    rep: dict = {"target": con.target, "violations": [], "applicable": True, "spec_errors": []}
    env = dict(kwargs)
    for c in con.clauses:
        try:
            if c.kind == "let":
                for kw in c.node.keywords:
                    env[kw.arg] = _Expr(kw.value, g).eval(env)
            elif c.kind == "requires":
                if not _Expr(c.arg(0), g).eval(env):
                    rep["applicable"] = False
                    rep["note"] = "precondition does not hold on the model"
                    return rep
            elif c.kind == "ensures":
                ex = _Expr(c.arg(0), g)
                if not ex.eval(env):
                    rep["violations"].append(repr(Violation(f"lemma:{c.label or c.idx}", f"{ex.text[:120]} is false")))
        except Exception as e:  # pylint: disable=broad-except
            rep["violations"].append(repr(Violation(f"lemma:{c.kind}:{c.label or c.idx}", f"raised {type(e).__name__}: {str(e)[:120]}")))
            return rep
    return rep
