"""Discharging obligations: z3 (python API, 5.x) -> /usr/bin/z3 (4.8) -> cvc5; model extraction."""
from __future__ import annotations

import os
import subprocess
import tempfile
import time
from typing import Any, Optional

import z3

from .sym import SBool, SByteArray, SBytes, SInt, SObj, SReal, SSeq, SStr

MAX_CONC_LEN = 1 << 16


class SolveResult:
    def __init__(self, status: str, backend: str, secs: float, model: Any = None, reason: str = ""):
        self.status = status  # "unsat" (discharged) | "sat" | "unknown"
        self.backend = backend
        self.secs = secs
        self.model = model
        self.reason = reason


def check_obligation(pc: list, goal: Any, timeout_ms: int, second: bool = True, smt_dump: Optional[str] = None,
                     cap_hint: Optional[list] = None, on_model: Any = None) -> SolveResult:
    """Discharge pc => goal.  The z3 call runs in a forked child under a hard time limit; on `sat` the
    child evaluates on_model(model) (counterexample extraction) and ships the picklable result back."""
    from .hard import run_hard

    t0 = time.time()
    s = z3.Solver()
    for c in pc:
        s.add(c)
    s.add(z3.Not(goal))

    def job() -> Any:
        # portfolio: the legacy simplex core (arith.solver=2) decides div/mod-by-constant goals over wide integers that the
        # default core of z3 5.x leaves unknown; the default core is tried next (better on nonlinear / quantified goals)
        s2 = z3.Solver()
        s2.set("smt.arith.solver", 2)
        s2.set("timeout", max(1000, min(4000, timeout_ms // 3)))
        for c in s.assertions():
            s2.add(c)
        r = s2.check()
        if r == z3.unsat:
            return ("unsat", None, "")
        if r == z3.sat:
            s_use = s2
        else:
            s.set("timeout", timeout_ms)
            r = s.check()
            s_use = s
        if r == z3.unsat:
            return ("unsat", None, "")
        if r == z3.sat:
            m = s_use.model()
            if cap_hint:  # prefer a small model: re-solve with caps on the length atoms
                for cap in (64, 1024):
                    s_use.push()
                    for t in cap_hint:
                        s_use.add(t <= cap)
                    s_use.set("timeout", min(timeout_ms, 5000))
                    if s_use.check() == z3.sat:
                        m = s_use.model()
                        s_use.pop()
                        break
                    s_use.pop()
            info = None
            if on_model is not None:
                try:
                    info = on_model(m)
                except Exception as e:  # pylint: disable=broad-except
                    info = {"inputs_error": f"{type(e).__name__}: {e}"}
            return ("sat", info, "")
        return ("unknown", None, s.reason_unknown())

    st, out = run_hard(job, timeout_ms / 1000.0 * 1.5 + 12.0)
    backend = "z3-" + z3.get_version_string()
    if st == "ok":
        status, info, reason = out
        if status == "unsat":
            return SolveResult("unsat", backend, time.time() - t0)
        if status == "sat":
            return SolveResult("sat", backend, time.time() - t0, info)
    else:
        reason = "hard timeout" if st == "timeout" else str(out)
    if not second:
        return SolveResult("unknown", "z3", time.time() - t0, reason=reason)
    smt = s.to_smt2()
    path = smt_dump
    tmp = None
    if path is None:
        tmp = tempfile.NamedTemporaryFile("w", suffix=".smt2", delete=False, dir=os.environ.get("VF_TMP"))
        path = tmp.name
        tmp.close()
    with open(path, "w") as fh:
        fh.write(smt)
    try:
        for backend, cmd in (("z3-4.8.12", ["/usr/bin/z3", f"-T:{max(1, timeout_ms // 1000)}", path]),
                             ("cvc5-1.0.3", ["/usr/bin/cvc5", f"--tlimit={timeout_ms}", "--full-saturate-quant", path])):
            try:
                out = subprocess.run(cmd, capture_output=True, text=True, timeout=timeout_ms / 1000 + 5).stdout
            except (subprocess.TimeoutExpired, OSError):
                continue
            first = out.strip().splitlines()[0] if out.strip() else ""
            if first == "unsat":
                return SolveResult("unsat", backend, time.time() - t0)
    finally:
        if tmp is not None:
            try:
                os.unlink(path)
            except OSError:
                pass
    # last resort before "undecided": the two z3 cores again with a long budget (a verdict must not flip because the machine is busy)
    long_ms = max(90000, 8 * timeout_ms)

    def job_long() -> Any:
        for core in (2, None):
            s3 = z3.Solver()
            if core is not None:
                s3.set("smt.arith.solver", core)
            s3.set("timeout", long_ms // 2)
            for c in s.assertions():
                s3.add(c)
            if s3.check() == z3.unsat:
                return "unsat"
        return "unknown"

    st, out = run_hard(job_long, long_ms / 1000.0 + 15.0)
    if st == "ok" and out == "unsat":
        return SolveResult("unsat", "z3-" + z3.get_version_string() + "-long", time.time() - t0)
    return SolveResult("unknown", "z3+z3-4.8+cvc5", time.time() - t0, reason=reason)


# ---- model concretisation -------------------------------------------------------------------------
def _ev_int(m: Any, t: Any) -> int:
    v = m.eval(t, model_completion=True)
    return v.as_long()


def concretize(m: Any, v: Any, memo: Optional[dict] = None) -> Any:
    """Concrete Python value of a (symbolic) value under model m.  Objects become real instances."""
    memo = {} if memo is None else memo
    if isinstance(v, SInt):
        return _ev_int(m, v.t)
    if isinstance(v, SBool):
        return z3.is_true(m.eval(v.t, model_completion=True))
    if isinstance(v, SReal):
        r = m.eval(v.t, model_completion=True)
        return float(r.numerator_as_long()) / float(r.denominator_as_long())
    if isinstance(v, (SBytes, SByteArray)):
        b = v.v if isinstance(v, SByteArray) else v
        n = _ev_int(m, b.n)
        if n > MAX_CONC_LEN:
            raise ValueError(f"model needs a byte string of length {n}")
        data = bytes((_ev_int(m, b.at(z3.IntVal(i))) & 0xFF) for i in range(n))
        return bytearray(data) if isinstance(v, SByteArray) else data
    if isinstance(v, SSeq):
        n = _ev_int(m, v.n)
        return [concretize(m, v.at(z3.IntVal(i)), memo) for i in range(min(n, 4096))]
    if isinstance(v, SStr):
        val = m.eval(v.t, model_completion=True)
        from .sym import _str_consts

        for s, c in _str_consts.items():
            try:
                if z3.is_true(m.eval(c == v.t, model_completion=True)):
                    return s
            except z3.Z3Exception:
                pass
        return f"<str {val}>"
    if isinstance(v, SObj):
        if id(v) in memo:
            return memo[id(v)]
        o = object.__new__(v.cls)
        memo[id(v)] = o
        for k, x in v.fields.items():
            try:
                object.__setattr__(o, k, concretize(m, x, memo))
            except AttributeError:
                pass
        return o
    if isinstance(v, list):
        return [concretize(m, x, memo) for x in v]
    if isinstance(v, tuple):
        return tuple(concretize(m, x, memo) for x in v)
    if isinstance(v, dict):
        return {k: concretize(m, x, memo) for k, x in v.items()}
    return v
