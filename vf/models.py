"""Models of builtins, stdlib functions and methods on symbolic values."""
from __future__ import annotations

import builtins
import math
import struct as _struct
from typing import Any, Callable, Optional

import z3

from . import api, ops
from .sym import (
    SMemView,
    PyRaise,
    SBool,
    SByteArray,
    SBytes,
    SExc,
    SInt,
    SObj,
    SReal,
    SSeq,
    SStr,
    Unsupported,
    as_sbytes,
    bool_term,
    int_term,
    is_bytes_like,
    is_int_like,
    is_sym,
    mk_bool,
    mk_int,
)

_MODELS: dict = {}


def model(*fns: Any) -> Callable:
    def deco(m: Callable) -> Callable:
        for fn in fns:
            _MODELS[id(fn)] = (fn, m)
        return m

    return deco


def lookup(fn: Any) -> Optional[Callable]:
    e = _MODELS.get(id(fn))
    if e is not None and e[0] is fn:
        return e[1]
    # bound builtin methods like int.from_bytes compare by qualname
    qn = getattr(fn, "__qualname__", None)
    slf = getattr(fn, "__self__", None)
    if qn == "int.from_bytes" and slf is int:
        return _int_from_bytes
    if fn is int.to_bytes:
        return _int_to_bytes_unbound
    import random as _random

    if isinstance(slf, _random.Random) and not isinstance(slf, _random.SystemRandom) and getattr(fn, "__name__", "") in ("randbytes", "getrandbits", "randint", "randrange"):
        from . import extmodels as _ext

        return _ext._prng_bytes if fn.__name__ == "randbytes" else _ext._prng_int
    return None


class Partial:
    def __init__(self, fn: Any, args: list, kwargs: dict):
        self.fn, self.args, self.kwargs = fn, args, kwargs


def _int_to_bytes_unbound(it: Any, args: list, kwargs: dict, f: Any) -> Any:
    recv = args[0]
    if not ops.has_sym(args) and not ops.has_sym(kwargs):
        return _concrete(int.to_bytes, args, kwargs)
    return sym_method(it, recv if is_sym(recv) else SInt(z3.IntVal(recv)), "to_bytes", list(args[1:]), kwargs, f)


def _sym_args(args: Any, kwargs: Any) -> bool:
    return ops.has_sym(args) or ops.has_sym(kwargs)


def _concrete(fn: Any, args: list, kwargs: dict) -> Any:
    try:
        return fn(*args, **kwargs)
    except (ValueError, TypeError, KeyError, IndexError, OverflowError, ZeroDivisionError, _struct.error) as e:
        raise PyRaise(SExc(type(e), e.args))


@model(len)
def _len(it: Any, args: list, kwargs: dict, f: Any) -> Any:
    (v,) = args
    if isinstance(v, (SBytes, SByteArray, SMemView)):
        return mk_int(as_sbytes(v).n)
    if isinstance(v, SSeq):
        return mk_int(v.n)
    if isinstance(v, SObj):
        from .interp import BoundMethod, _defining_class, _static_attr, UNBOUND

        ln = _static_attr(v.cls, "__len__")
        if ln is UNBOUND:
            raise PyRaise(SExc(TypeError, ("no len",)))
        return it.call_value(BoundMethod(ln, v, _defining_class(v.cls, "__len__")), [], {}, None, f)
    if is_sym(v):
        raise PyRaise(SExc(TypeError, ("object has no len()",)))
    return _concrete(len, args, kwargs)


@model(isinstance)
def _isinstance(it: Any, args: list, kwargs: dict, f: Any) -> Any:
    v, t = args
    ts = t if isinstance(t, tuple) else (t,)

    def one(c: Any) -> bool:
        if isinstance(v, SBool):
            return c in (bool, int, object)
        if isinstance(v, SInt):
            return c in (int, object)
        if isinstance(v, SBytes):
            return c in (bytes, object)
        if isinstance(v, SByteArray):
            return c in (bytearray, object)
        if isinstance(v, SStr):
            return c in (str, object)
        if isinstance(v, SReal):
            return c in (float, object)
        if isinstance(v, SSeq):
            return c in (list, object)
        if isinstance(v, SObj):
            return isinstance(c, type) and issubclass(v.cls, c)
        if isinstance(v, SExc):
            return isinstance(c, type) and issubclass(v.cls, c)
        return isinstance(v, c)

    return any(one(c) for c in ts)


@model(type)
def _type(it: Any, args: list, kwargs: dict, f: Any) -> Any:
    if len(args) != 1:
        raise Unsupported("type() with 3 arguments")
    v = args[0]
    if isinstance(v, SObj):
        return v.cls
    if isinstance(v, SBool):
        return bool
    if isinstance(v, SInt):
        return int
    if isinstance(v, SBytes):
        return bytes
    if isinstance(v, SByteArray):
        return bytearray
    if isinstance(v, SStr):
        return str
    return type(v)


@model(hasattr)
def _hasattr(it: Any, args: list, kwargs: dict, f: Any) -> Any:
    v, name = args
    if isinstance(v, SObj):
        from .interp import UNBOUND, _static_attr

        return name in v.fields or _static_attr(v.cls, name) is not UNBOUND
    if is_sym(v):
        raise Unsupported("hasattr on symbolic primitive")
    return hasattr(v, name)


@model(getattr)
def _getattr(it: Any, args: list, kwargs: dict, f: Any) -> Any:
    if ops.has_sym(args[1]):
        raise Unsupported("getattr with symbolic name")
    try:
        return it.get_attr(args[0], args[1], f)
    except PyRaise as e:
        if len(args) == 3 and issubclass(e.exc.cls, AttributeError):
            return args[2]
        raise


@model(setattr)
def _setattr(it: Any, args: list, kwargs: dict, f: Any) -> Any:
    it.set_attr(args[0], args[1], args[2], f)
    return None


@model(int)
def _int(it: Any, args: list, kwargs: dict, f: Any) -> Any:
    if not args:
        return 0
    v = args[0]
    if isinstance(v, SReal):
        return ops.real_trunc(v)
    if isinstance(v, (SInt, SBool)) and len(args) == 1:
        return mk_int(int_term(v))
    if isinstance(v, SObj):
        raise Unsupported("int() of object")
    if _sym_args(args, kwargs):
        raise Unsupported("int() of symbolic string/bytes")
    return _concrete(int, args, kwargs)


@model(bool)
def _bool(it: Any, args: list, kwargs: dict, f: Any) -> Any:
    if not args:
        return False
    return ops.to_bool_value(it.p, args[0])


@model(float)
def _float(it: Any, args: list, kwargs: dict, f: Any) -> Any:
    v = args[0]
    if is_int_like(v) and is_sym(v):
        it.p.assumption_ids.add("A-float")
        return SReal(z3.ToReal(int_term(v)))
    if is_sym(v):
        raise Unsupported("float() of symbolic value")
    return _concrete(float, args, kwargs)


@model(str, repr, hex, bin, oct, format)
def _strlike(it: Any, args: list, kwargs: dict, f: Any) -> Any:
    from .interp import OpaqueStr

    if _sym_args(args, kwargs) or any(isinstance(a, OpaqueStr) for a in args):
        return OpaqueStr()
    raise _Fallthrough()


class _Fallthrough(Exception):
    pass


@model(abs)
def _abs(it: Any, args: list, kwargs: dict, f: Any) -> Any:
    (v,) = args
    if isinstance(v, (SInt, SBool)):
        t = int_term(v)
        return mk_int(z3.If(t >= 0, t, -t))
    return _concrete(abs, args, kwargs)


def _minmax(it: Any, args: list, kwargs: dict, is_min: bool) -> Any:
    if kwargs.get("key") is not None:
        raise Unsupported("min/max with key")
    items = list(it.iterate(args[0], None)) if len(args) == 1 else list(args)
    if not items:
        if "default" in kwargs:
            return kwargs["default"]
        raise PyRaise(SExc(ValueError, ("empty sequence",)))
    if not ops.has_sym(items):
        return (min if is_min else max)(items)
    cur = items[0]
    for x in items[1:]:
        tc, tx = int_term(cur), int_term(x)
        cur = mk_int(z3.If(tx < tc, tx, tc) if is_min else z3.If(tx > tc, tx, tc))
    return cur


@model(min)
def _min(it: Any, args: list, kwargs: dict, f: Any) -> Any:
    return _minmax(it, args, kwargs, True)


@model(max)
def _max(it: Any, args: list, kwargs: dict, f: Any) -> Any:
    return _minmax(it, args, kwargs, False)


@model(sum)
def _sum(it: Any, args: list, kwargs: dict, f: Any) -> Any:
    items = list(it.iterate(args[0], None))
    acc: Any = args[1] if len(args) > 1 else kwargs.get("start", 0)
    import ast as _ast

    for x in items:
        acc = ops.binop(it.p, _ast.Add, acc, x)
    return acc


@model(any)
def _any(it: Any, args: list, kwargs: dict, f: Any) -> Any:
    items = list(it.iterate(args[0], None))
    ts = [ops.truth_term(it.p, x) for x in items]
    if any(t is True for t in ts):
        return True
    ts = [t for t in ts if t is not False]
    return mk_bool(z3.Or(ts)) if ts else False


@model(all)
def _all(it: Any, args: list, kwargs: dict, f: Any) -> Any:
    items = list(it.iterate(args[0], None))
    ts = [ops.truth_term(it.p, x) for x in items]
    if any(t is False for t in ts):
        return False
    ts = [t for t in ts if t is not True]
    return mk_bool(z3.And(ts)) if ts else True


@model(range)
def _range(it: Any, args: list, kwargs: dict, f: Any) -> Any:
    from .interp import SymRange

    if not ops.has_sym(args):
        return _concrete(range, args, kwargs)
    if len(args) == 1:
        start, stop, step = 0, args[0], 1
    elif len(args) == 2:
        start, stop, step = args[0], args[1], 1
    else:
        start, stop, step = args
    if is_sym(step):
        raise Unsupported("range with symbolic step")
    if step == 0:
        raise PyRaise(SExc(ValueError, ("range() arg 3 must not be zero",)))
    return SymRange(int_term(start), int_term(stop), int(step))


@model(enumerate)
def _enumerate(it: Any, args: list, kwargs: dict, f: Any) -> Any:
    start = args[1] if len(args) > 1 else kwargs.get("start", 0)
    return [(start + i, x) for i, x in enumerate(it.iterate(args[0], None))]


@model(zip)
def _zip(it: Any, args: list, kwargs: dict, f: Any) -> Any:
    return list(zip(*[list(it.iterate(a, None)) for a in args]))


@model(reversed)
def _reversed(it: Any, args: list, kwargs: dict, f: Any) -> Any:
    v = args[0]
    if is_bytes_like(v) and ops.has_sym(v):
        b = as_sbytes(v)
        n = ops.conc_len(it.p, b)
        if n is None:
            raise Unsupported("reversed() of bytes with symbolic length")
        return [mk_int(b.at(z3.IntVal(n - 1 - i))) for i in range(n)]
    return list(reversed(list(it.iterate(v, None))))


@model(list, tuple)
def _list(it: Any, args: list, kwargs: dict, f: Any) -> Any:
    raise _Fallthrough()


@model(sorted)
def _sorted(it: Any, args: list, kwargs: dict, f: Any) -> Any:
    if _sym_args(args, kwargs):
        raise Unsupported("sorted() on symbolic values")
    from .interp import Closure

    if isinstance(kwargs.get("key"), Closure):
        items = list(args[0])
        keys = [it.call_value(kwargs["key"], [x], {}, None, f) for x in items]
        if ops.has_sym(keys):
            raise Unsupported("sorted() with symbolic keys")
        order = sorted(range(len(items)), key=lambda i: keys[i], reverse=kwargs.get("reverse", False))
        return [items[i] for i in order]
    return _concrete(sorted, args, kwargs)


@model(bytes)
def _bytes(it: Any, args: list, kwargs: dict, f: Any) -> Any:
    if not args:
        return b""
    v = args[0]
    if len(args) > 1 or kwargs:
        if _sym_args(args, kwargs):
            raise Unsupported("bytes(str, encoding) symbolic")
        return _concrete(bytes, args, kwargs)
    if isinstance(v, (SInt,)):
        t = v.t
        if it.p.branch(t < 0, "bytes-neg"):
            raise PyRaise(SExc(ValueError, ("negative count",)))
        return ops.bytes_zero(t)
    if isinstance(v, SBool):
        return ops.bytes_zero(int_term(v))
    if isinstance(v, (SBytes, SByteArray, SMemView)):
        return as_sbytes(v)
    if isinstance(v, SSeq):
        # sequence of ints (lazy comprehension): each element must be in range(256)
        k = z3.Int("k!rng")
        el = v.at(k)
        rng_ok = z3.ForAll([k], z3.Implies(z3.And(k >= 0, k < v.n), z3.And(int_term(el) >= 0, int_term(el) <= 255)))
        if it.p.branch(z3.Not(rng_ok), "bytes-range"):
            raise PyRaise(SExc(ValueError, ("bytes must be in range(0, 256)",)))
        return SBytes(v.n, lambda i, v=v: int_term(v.at(i)), "bytes(seq)")
    if isinstance(v, (list, tuple)) and ops.has_sym(v):
        for x in v:
            tx = int_term(x)
            if it.p.branch(z3.Or(tx < 0, tx > 255), "bytes-range"):
                raise PyRaise(SExc(ValueError, ("bytes must be in range(0, 256)",)))
        return ops.bytes_from_ints(list(v))
    if isinstance(v, SObj):
        raise Unsupported("bytes() of object")
    return _concrete(bytes, args, kwargs)


@model(memoryview)
def _memoryview(it: Any, args: list, kwargs: dict, f: Any) -> Any:
    v = args[0]
    if isinstance(v, SMemView):
        return v
    if isinstance(v, SByteArray):
        return SMemView(v, z3.IntVal(0), v.v.n)
    if isinstance(v, bytearray):
        raise Unsupported("memoryview of a concrete bytearray")
    if is_bytes_like(v):
        b = as_sbytes(v)
        return SMemView(b, z3.IntVal(0), b.n)
    raise PyRaise(SExc(TypeError, ("memoryview: a bytes-like object is required",)))


@model(bytearray)
def _bytearray(it: Any, args: list, kwargs: dict, f: Any) -> Any:
    if not args:
        return SByteArray(as_sbytes(b""))
    r = _bytes(it, args, kwargs, f)
    return SByteArray(as_sbytes(r))


@model(_struct.pack)
def _pack(it: Any, args: list, kwargs: dict, f: Any) -> Any:
    fmt = args[0]
    if ops.has_sym(fmt) or not isinstance(fmt, str):
        raise Unsupported("struct.pack with non-literal format")
    if not ops.has_sym(args[1:]):
        return _concrete(_struct.pack, args, kwargs)
    return ops.struct_pack(it.p, fmt, list(args[1:]))


@model(_struct.unpack)
def _unpack(it: Any, args: list, kwargs: dict, f: Any) -> Any:
    fmt, data = args
    if not ops.has_sym(args):
        return _concrete(_struct.unpack, args, kwargs)
    if not isinstance(fmt, str):
        raise Unsupported("struct.unpack with non-literal format")
    return ops.struct_unpack(it.p, fmt, data, 0, exact=True)


@model(_struct.unpack_from)
def _unpack_from(it: Any, args: list, kwargs: dict, f: Any) -> Any:
    fmt = args[0]
    data = args[1] if len(args) > 1 else kwargs["buffer"]
    off = args[2] if len(args) > 2 else kwargs.get("offset", 0)
    if not ops.has_sym([fmt, data, off]):
        return _concrete(_struct.unpack_from, args, kwargs)
    if not isinstance(fmt, str):
        raise Unsupported("struct.unpack_from with non-literal format")
    return ops.struct_unpack(it.p, fmt, data, off, exact=False)


def _int_from_bytes(it: Any, args: list, kwargs: dict, f: Any) -> Any:
    b = args[0]
    order = args[1] if len(args) > 1 else kwargs.get("byteorder", "big")
    if isinstance(order, str) is False:
        raise Unsupported("symbolic byte order")
    order = str(getattr(order, "value", order))
    signed = kwargs.get("signed", False)
    if not ops.has_sym(b):
        return int.from_bytes(bytes(b), order, signed=signed)  # type: ignore[arg-type]
    return ops.int_from_bytes(it.p, b, order, signed)


@model(math.ceil)
def _ceil(it: Any, args: list, kwargs: dict, f: Any) -> Any:
    (v,) = args
    if is_sym(v):
        return ops.real_ceil(v)
    return math.ceil(v)


@model(math.floor)
def _floor(it: Any, args: list, kwargs: dict, f: Any) -> Any:
    (v,) = args
    if is_sym(v):
        return ops.real_floor(v)
    return math.floor(v)


import functools as _functools


@model(_functools.partial)
def _partial(it: Any, args: list, kwargs: dict, f: Any) -> Any:
    return Partial(args[0], list(args[1:]), dict(kwargs))


@model(divmod)
def _divmod(it: Any, args: list, kwargs: dict, f: Any) -> Any:
    import ast as _ast

    a, b = args
    return (ops.binop(it.p, _ast.FloorDiv, a, b), ops.binop(it.p, _ast.Mod, a, b))


# wrap fallthrough models
for _k, (_fn, _m) in list(_MODELS.items()):
    def _wrap(m: Callable, fn: Any) -> Callable:
        def w(it: Any, args: list, kwargs: dict, f: Any) -> Any:
            try:
                return m(it, args, kwargs, f)
            except _Fallthrough:
                if _sym_args(args, kwargs) and fn not in (list, tuple):
                    raise Unsupported(f"{fn.__name__} on symbolic arguments")
                if fn in (list, tuple):
                    if not args:
                        return fn()
                    return fn(it.iterate(args[0], f))
                return _concrete(fn, args, kwargs)
        return w
    _MODELS[_k] = (_fn, _wrap(_m, _fn))


# =============================================================================================
# methods on symbolic values
# =============================================================================================
def sym_method(it: Any, recv: Any, name: str, args: list, kwargs: dict, f: Any) -> Any:
    from .interp import OpaqueStr

    p = it.p
    if isinstance(recv, OpaqueStr):
        return OpaqueStr()
    if isinstance(recv, (SInt, SBool)):
        if name == "to_bytes":
            length = args[0] if args else kwargs.get("length", 1)
            order = args[1] if len(args) > 1 else kwargs.get("byteorder", "big")
            if isinstance(recv, SInt) and z3.is_int_value(recv.t) and not is_sym(length):
                return recv.t.as_long().to_bytes(length, str(getattr(order, "value", order)))
            order = str(getattr(order, "value", order))
            return ops.int_to_bytes(p, recv, length, order, kwargs.get("signed", False))
        if name == "from_bytes":
            return _int_from_bytes(it, args, kwargs, f)
        if name == "bit_length":
            # exact when the path condition pins the value between two consecutive powers of two
            r, v = p._check(want=int_term(recv))
            if r == z3.sat and v is not None:
                b = abs(v).bit_length()
                t = int_term(recv)
                cond = z3.And(t >= (1 << (b - 1)), t < (1 << b)) if b > 0 else t == 0
                if p.entails(cond):
                    return b
            # otherwise, for a value the path condition bounds by a machine width: bit_length = the least b with |t| < 2**b, found by
            # forking over b (exact; at most width + 1 paths, each with a concrete result)
            t = int_term(recv)
            mag = z3.If(t >= 0, t, -t)
            for width in (8, 16, 32, 64):
                if p.entails(mag < (1 << width)):
                    for b in range(0, width):
                        if p.branch(mag < (1 << b), label=f"bit_length<={b}"):
                            return b
                    return width
            raise Unsupported("bit_length of a symbolic int whose magnitude class is not fixed by the path condition")
        raise Unsupported(f"int method {name}")
    if isinstance(recv, (SBytes, SByteArray)):
        b = as_sbytes(recv)
        mutable = isinstance(recv, SByteArray)
        if name == "hex":
            return OpaqueStr()
        if name == "join":
            parts = list(it.iterate(args[0], f))
            out: Any = None
            for i, part in enumerate(parts):
                if i and ops.conc_len(p, b) != 0:
                    out = ops.bytes_concat(out, b)
                out = as_sbytes(part) if out is None else ops.bytes_concat(out, part)
            r = as_sbytes(b"") if out is None else out
            return SByteArray(r) if mutable else r
        if name in ("extend", "append", "reverse", "clear") and not mutable:
            raise PyRaise(SExc(AttributeError, (name,)))
        if name == "extend":
            src = args[0]
            if isinstance(src, (list, tuple)):
                src = ops.bytes_from_ints(list(src))
            recv.v = ops.bytes_concat(b, src)
            return None
        if name == "append":
            tv = int_term(args[0])
            if p.branch(z3.Or(tv < 0, tv > 255), "append-range"):
                raise PyRaise(SExc(ValueError, ("byte must be in range(0, 256)",)))
            recv.v = ops.bytes_concat(b, ops.bytes_from_ints([args[0]]))
            return None
        if name == "reverse":
            recv.v = SBytes(b.n, lambda i, b=b: b.at(b.n - 1 - i), b.name + ".rev")
            return None
        if name == "clear":
            recv.v = as_sbytes(b"")
            return None
        if name == "copy":
            return SByteArray(b) if mutable else b
        if name == "ljust" or name == "rjust":
            width = args[0]
            fill = as_sbytes(args[1]) if len(args) > 1 else as_sbytes(b" ")
            tw = int_term(width)
            fillc = fill.at(z3.IntVal(0))
            n2 = z3.If(tw > b.n, tw, b.n)
            if name == "ljust":
                r = SBytes(z3.simplify(n2), lambda i, b=b: z3.If(i < b.n, b.at(i), fillc), b.name + ".ljust")
            else:
                pad = n2 - b.n
                r = SBytes(z3.simplify(n2), lambda i, b=b: z3.If(i < pad, fillc, b.at(i - pad)), b.name + ".rjust")
            return SByteArray(r) if mutable else r
        if name == "startswith" or name == "endswith":
            pre = as_sbytes(args[0])
            pl = ops.conc_len(p, pre)
            if pl is None:
                raise Unsupported("startswith with symbolic-length prefix")
            if name == "startswith":
                conj = [b.at(z3.IntVal(i)) == pre.at(z3.IntVal(i)) for i in range(pl)]
            else:
                conj = [b.at(b.n - pl + i) == pre.at(z3.IntVal(i)) for i in range(pl)]
            return mk_bool(z3.And([b.n >= pl] + conj))
        if name == "count" or name == "find" or name == "index":
            raise Unsupported(f"bytes.{name} on symbolic data")
        if name == "decode":
            raise Unsupported("bytes.decode on symbolic data")
        if name == "tobytes":
            return b
        raise Unsupported(f"bytes method {name}")
    if isinstance(recv, SStr):
        raise Unsupported(f"str method {name} on a symbolic string")
    if isinstance(recv, SSeq):
        raise Unsupported(f"sequence method {name}")
    raise Unsupported(f"method {name} on {recv!r}")


def container_method(it: Any, recv: Any, name: str, args: list, kwargs: dict, f: Any) -> Any:
    """Methods of concrete list/dict/set/bytearray objects that may hold symbolic members."""
    from .interp import Closure

    if isinstance(recv, bytearray):
        box = SByteArray(as_sbytes(recv))
        raise Unsupported("method on concrete bytearray (bytearrays are boxed at creation)")
    if isinstance(recv, list):
        if name in ("append", "insert", "pop", "clear", "reverse", "copy"):
            if ops.has_sym(args[:1]) and name in ("insert", "pop"):
                raise Unsupported("list position is symbolic")
            try:
                return getattr(recv, name)(*args, **kwargs)
            except IndexError as e:
                raise PyRaise(SExc(IndexError, e.args))
        if name == "extend":
            recv.extend(list(it.iterate(args[0], f)))
            return None
        if name in ("index", "count", "remove", "__contains__"):
            if ops.has_sym(recv) or ops.has_sym(args):
                if name == "remove" or name == "index":
                    # identity based search is exact for objects
                    for i, x in enumerate(recv):
                        if x is args[0]:
                            if name == "remove":
                                del recv[i]
                                return None
                            return i
                raise Unsupported(f"list.{name} with symbolic members")
            try:
                return getattr(recv, name)(*args, **kwargs)
            except ValueError as e:
                raise PyRaise(SExc(ValueError, e.args))
        if name == "sort":
            key = kwargs.get("key")
            if isinstance(key, Closure):
                keys = [it.call_value(key, [x], {}, None, f) for x in recv]
            elif key is None:
                keys = list(recv)
            else:
                keys = [it.call_value(key, [x], {}, None, f) for x in recv]
            if ops.has_sym(keys):
                raise Unsupported("sort with symbolic keys")
            order = sorted(range(len(recv)), key=lambda i: keys[i], reverse=kwargs.get("reverse", False))
            recv[:] = [recv[i] for i in order]
            return None
        raise Unsupported(f"list method {name}")
    if isinstance(recv, dict):
        if ops.has_sym(args[:1]) and name in ("get", "pop", "setdefault", "__contains__"):
            raise Unsupported("dict access with symbolic key")
        if name in ("get", "items", "keys", "values", "pop", "setdefault", "update", "copy", "clear"):
            try:
                r = getattr(recv, name)(*args, **kwargs)
            except KeyError as e:
                raise PyRaise(SExc(KeyError, e.args))
            if name in ("items", "keys", "values"):
                return list(r)
            return r
        raise Unsupported(f"dict method {name}")
    if isinstance(recv, set):
        if ops.has_sym(args):
            raise Unsupported("set method with symbolic argument")
        return getattr(recv, name)(*args, **kwargs)
    raise Unsupported(f"container method {name}")


# =============================================================================================
# vf.api helper functions in symbolic mode
# =============================================================================================
def api_function(it: Any, fn: Any, args: list, kwargs: dict, f: Any) -> Any:
    p = it.p
    name = fn.__name__
    if name == "implies":
        a, b = args
        ta, tb = ops.truth_term(p, a), ops.truth_term(p, b)
        if ta is False or tb is True:
            return True
        if ta is True:
            return tb if isinstance(tb, bool) else mk_bool(tb)
        if tb is False:
            return mk_bool(z3.Not(ta))
        return mk_bool(z3.Implies(ta, tb))
    if name == "ite":
        c, a, b = args
        return it.ite_value(ops.truth_term(p, c), a, b)
    if name == "ghost_const":
        key = ("ghost_const", args[0])
        if key not in p.ghost:
            p.ghost[key] = it.reg.make_symbolic(it, "ghost_" + str(args[0]), args[1] if len(args) > 1 else bytes)
        return p.ghost[key]
    if name == "ghost_exists":
        from . import extmodels as _ext

        return _ext.ghost_exists(it, args[0])
    if name == "ghost_stat":
        from . import extmodels as _ext

        return tuple(_ext.ghost_stat(it, args[0]))
    if name == "drawn_tick":
        x = args[0]
        if not is_bytes_like(x):
            return -1
        xb = as_sbytes(x)
        for (tick, d) in p.ghost.setdefault("rng.drawn", []):
            if d is xb or (isinstance(x, SByteArray) and d is x.v):
                return tick
        return -1
    if name == "fresh_in_call":
        x = args[0]
        exc = tuple(args[1]) if len(args) > 1 else tuple(kwargs.get("except_at", ()))
        if not is_bytes_like(x):
            return False
        drawn = p.ghost.setdefault("rng.drawn", [])
        if p.ghost.get("assume_mode"):
            # callee contract: the (havocked) value was drawn inside the callee, i.e. inside the current call
            tick = p.ghost.get("rng.tick", 1)
            p.ghost["rng.tick"] = tick + 1
            drawn.append((tick, as_sbytes(x)))
            return True
        xb = as_sbytes(x)
        alts = []
        for (_tick, d) in drawn:
            if d is xb:
                return True
            n = ops.conc_len(p, d)
            if n is None or n > 64:
                continue
            conj = [xb.n == n] + [xb.at(z3.IntVal(i)) == d.at(z3.IntVal(i)) for i in range(n) if i not in exc]
            alts.append(z3.And(conj))
        if not alts:
            return False
        return mk_bool(z3.Or(alts))
    if name == "typed":
        return _isinstance(it, args, kwargs, f)
    if name == "bit":
        x, i = args
        import ast as _ast

        sh = ops.binop(p, _ast.RShift, x, i)
        return mk_bool(int_term(sh) % 2 == 1)
    if name == "byte_at":
        v, j = args
        if is_sym(j):
            p.assumption_ids.add("A-byteat")
            return mk_int(ops._BYTEAT(int_term(v), int_term(j)))
        return mk_int((int_term(v) / (1 << (8 * j))) % 256)
    if name == "pow2":
        return mk_int(ops.pow2(p, int_term(args[0])))
    if not _sym_args(args, kwargs):
        return fn(*args, **kwargs)
    raise Unsupported(f"api function {name} on symbolic arguments")


from . import extmodels  # noqa: E402,F401  (registers the assumed models of external dependencies)
