"""Counterexample description (JSON-able), reconstruction of real inputs, native replay."""
from __future__ import annotations

import enum
import importlib
from typing import Any


def describe(v: Any, depth: int = 0) -> Any:
    """JSON-able description of a concrete value (objects by class path and fields)."""
    if v is None or isinstance(v, (bool, int, str)):
        return v if not isinstance(v, int) or isinstance(v, bool) or abs(v) < (1 << 53) else {"int": str(v)}
    if isinstance(v, float):
        return {"float": repr(v)}
    if isinstance(v, bytes):
        return {"bytes": v.hex()}
    if isinstance(v, bytearray):
        return {"bytearray": bytes(v).hex()}
    if isinstance(v, enum.Enum):
        return {"enum": f"{type(v).__module__}:{type(v).__qualname__}", "name": v.name}
    if isinstance(v, (list, tuple)):
        return {"list" if isinstance(v, list) else "tuple": [describe(x, depth + 1) for x in v]}
    if isinstance(v, dict):
        return {"dict": [[describe(k, depth + 1), describe(x, depth + 1)] for k, x in v.items()]}
    if isinstance(v, type):
        return {"class": f"{v.__module__}:{v.__qualname__}"}
    cls = type(v)
    if depth > 8:
        return {"repr": repr(v)[:200]}
    fields = {}
    d = getattr(v, "__dict__", None)
    if d is not None:
        for k, x in d.items():
            fields[k] = describe(x, depth + 1)
    return {"obj": f"{cls.__module__}:{cls.__qualname__}", "fields": fields}


def _cls(path: str) -> Any:
    modname, qual = path.split(":")
    obj: Any = importlib.import_module(modname)
    for part in qual.split("."):
        obj = getattr(obj, part)
    return obj


def rebuild(d: Any) -> Any:
    """Inverse of describe(): real Python values / instances."""
    if d is None or isinstance(d, (bool, int, str)):
        return d
    if isinstance(d, dict):
        if "int" in d:
            return int(d["int"])
        if "float" in d:
            return float(d["float"])
        if "bytes" in d:
            return bytes.fromhex(d["bytes"])
        if "bytearray" in d:
            return bytearray.fromhex(d["bytearray"])
        if "enum" in d:
            return _cls(d["enum"])[d["name"]]
        if "list" in d:
            return [rebuild(x) for x in d["list"]]
        if "tuple" in d:
            return tuple(rebuild(x) for x in d["tuple"])
        if "dict" in d:
            return {rebuild(k): rebuild(x) for k, x in d["dict"]}
        if "class" in d:
            return _cls(d["class"])
        if "obj" in d:
            cls = _cls(d["obj"])
            o = object.__new__(cls)
            for k, x in d["fields"].items():
                object.__setattr__(o, k, rebuild(x))
            return o
        if "repr" in d:
            raise ValueError("value too deep to rebuild")
    raise ValueError(f"cannot rebuild {d!r}")
