"""Symbolic interpreter for the Python subset (see DESIGN.md 2.2).

Executes the *real* AST of repository functions.  Values are either ordinary Python objects
(concrete) or Sym/SObj (symbolic).  Forking is by re-execution (Path.branch / Path.choose).
"""
from __future__ import annotations

import ast
import builtins as _builtins
import copy
import enum
import inspect
import math
import struct as _struct
import types
from typing import Any, Optional

import z3

from . import api, ops
from .path import Path
from .sym import (
    SMemView,
    BoundMethod,
    Closure,
    DeadPath,
    PyRaise,
    SBool,
    SByteArray,
    SBytes,
    SExc,
    SInt,
    SObj,
    SReal,
    SSeq,
    SStr,
    Sym,
    Unsupported,
    as_sbytes,
    bool_term,
    int_term,
    is_bytes_like,
    is_int_like,
    is_sym,
    mk_bool,
    mk_int,
)


class _Return(Exception):
    def __init__(self, value: Any):
        super().__init__("return")
        self.value = value


class _Break(Exception):
    pass


class _Continue(Exception):
    pass


class PathEnd(Exception):
    """The path ends here by construction (arbitrary loop iteration checked)."""


UNBOUND = object()
POISON = object()


class Frame:
    def __init__(self, locals_: dict, globals_: dict, func: Any = None, defcls: Optional[type] = None,
                 qual: str = "", spec: bool = False):
        self.locals = locals_
        self.globals = globals_
        self.func = func
        self.defcls = defcls
        self.qual = qual
        self.spec = spec  # evaluating a contract clause
        self.loop_no = 0
        self.old: Optional["Frame"] = None
        self.result: Any = UNBOUND
        self.exc: Any = None


SAFE_BUILTINS = {
    len, abs, min, max, hex, oct, bin, ord, chr, repr, str, int, bool, bytes, bytearray, list, tuple, dict, set,
    frozenset, range, enumerate, zip, sorted, reversed, sum, divmod, isinstance, issubclass, hasattr, getattr,
    type, round, any, all, id, hash, callable, iter, next, format, pow, float, map, filter, slice, print,
}
SAFE_CONCRETE_MODULES = ("math", "struct", "binascii", "enum", "typing", "operator", "functools", "itertools",
                         "collections", "dataclasses", "re", "textwrap", "string", "copy", "abc", "os.path",
                         "posixpath", "datetime", "packaging", "json", "inspect")
import datetime as _dt
import inspect as _inspect

SAFE_RECEIVER_TYPES = (str, bytes, int, bool, float, tuple, frozenset, range, type(None), enum.Enum, slice, _dt.datetime, _dt.date,
                       _dt.timedelta, _dt.timezone, _inspect.Signature, _inspect.Parameter, types.MappingProxyType)
MUTABLE_RECEIVER_TYPES = (list, dict, set, bytearray)


def _is_spsdk_function(f: Any) -> bool:
    return isinstance(f, types.FunctionType) and (f.__module__ or "").startswith("spsdk")


def _is_spec_function(f: Any) -> bool:
    m = getattr(f, "__module__", "") or ""
    return isinstance(f, types.FunctionType) and (m.startswith("contracts") or m.startswith("specs"))


class Interp:
    def __init__(self, path: Path, reg: Any):
        self.p = path
        self.reg = reg
        ops.OBJ_LEN_HOOK = self._obj_len
        self.call_depth = 0
        self.inlined: set = set()
        self.used_contracts: set = set()
        self.steps = 0

    # =========================================================================================
    # function bodies
    # =========================================================================================
    def run_function(self, func: Any, args: dict, defcls: Optional[type] = None) -> Any:
        """Execute the real body of func with bound arguments `args`; returns value or raises PyRaise."""
        node, gl = self.reg.function_ast(func)
        frame = Frame(dict(args), gl, func=func, defcls=defcls, qual=self.reg.qualname(func), spec=_is_spec_function(func))
        frame.entry_old = Frame(dict(args), gl, func=func, defcls=defcls, qual=frame.qual)  # type: ignore[attr-defined]
        if _is_generator(node):
            return self._run_generator(node, frame)
        try:
            self.exec_block(node.body, frame)
        except _Return as r:
            return r.value
        return None

    def _run_generator(self, node: ast.FunctionDef, frame: Frame) -> Any:
        frame.locals["__yield__"] = []
        try:
            self.exec_block(node.body, frame)
        except _Return:
            pass
        return frame.locals["__yield__"]

    def bind_args(self, func: Any, args: list, kwargs: dict) -> dict:
        """Python argument binding against the *real* signature (real default objects)."""
        sig = self.reg.signature(func)
        try:
            ba = sig.bind(*args, **kwargs)
        except TypeError as e:
            raise PyRaise(SExc(TypeError, (str(e),)))
        bound = dict(ba.arguments)
        for name, prm in sig.parameters.items():
            if name not in bound:
                if prm.kind is inspect.Parameter.VAR_POSITIONAL:
                    bound[name] = ()
                elif prm.kind is inspect.Parameter.VAR_KEYWORD:
                    bound[name] = {}
                elif prm.default is not inspect.Parameter.empty:
                    bound[name] = prm.default
        return bound

    # =========================================================================================
    # statements
    # =========================================================================================
    def exec_block(self, stmts: list, f: Frame) -> None:
        for s in stmts:
            self.exec_stmt(s, f)

    def exec_stmt(self, s: ast.stmt, f: Frame) -> None:
        self.steps += 1
        if self.steps > 200000:
            raise Unsupported("step budget exceeded")
        m = getattr(self, "st_" + type(s).__name__, None)
        if m is None:
            raise Unsupported(f"statement {type(s).__name__} at line {getattr(s, 'lineno', '?')}")
        m(s, f)

    def st_Expr(self, s: ast.Expr, f: Frame) -> None:
        if isinstance(s.value, ast.Constant):
            return  # docstring
        if isinstance(s.value, (ast.Yield,)):
            v = self.ev(s.value.value, f) if s.value.value is not None else None
            f.locals["__yield__"].append(v)
            return
        if _is_logger_call(s.value):
            return  # A-log: dropped
        self.ev(s.value, f)

    def st_Pass(self, s: ast.Pass, f: Frame) -> None:
        return

    def st_Return(self, s: ast.Return, f: Frame) -> None:
        raise _Return(self.ev(s.value, f) if s.value is not None else None)

    def st_Break(self, s: ast.Break, f: Frame) -> None:
        raise _Break()

    def st_Continue(self, s: ast.Continue, f: Frame) -> None:
        raise _Continue()

    def st_Global(self, s: ast.Global, f: Frame) -> None:
        raise Unsupported("global statement")

    def st_Import(self, s: ast.Import, f: Frame) -> None:
        import importlib

        for a in s.names:
            mod = importlib.import_module(a.name)
            f.locals[a.asname or a.name.split(".")[0]] = mod if a.asname else importlib.import_module(a.name.split(".")[0])

    def st_ImportFrom(self, s: ast.ImportFrom, f: Frame) -> None:
        import importlib

        if s.level:
            raise Unsupported("relative import inside function")
        mod = importlib.import_module(s.module or "")
        for a in s.names:
            f.locals[a.asname or a.name] = getattr(mod, a.name)

    def st_FunctionDef(self, s: ast.FunctionDef, f: Frame) -> None:
        f.locals[s.name] = Closure(s, f)

    def st_Assert(self, s: ast.Assert, f: Frame) -> None:
        v = self.ev(s.test, f)
        if not ops.truth(self.p, v, "assert"):
            raise PyRaise(SExc(AssertionError, ()))

    def st_Assign(self, s: ast.Assign, f: Frame) -> None:
        if (len(s.targets) == 1 and isinstance(s.targets[0], ast.Tuple) and isinstance(s.value, ast.Tuple)
                and len(s.targets[0].elts) == len(s.value.elts)):
            vals = [self.ev(e, f) for e in s.value.elts]
            for t, v in zip(s.targets[0].elts, vals):
                self.assign(t, v, f)
            return
        v = self.ev(s.value, f)
        for t in s.targets:
            self.assign(t, v, f)

    def st_AnnAssign(self, s: ast.AnnAssign, f: Frame) -> None:
        if s.value is not None:
            self.assign(s.target, self.ev(s.value, f), f)

    def st_AugAssign(self, s: ast.AugAssign, f: Frame) -> None:
        cur = self.ev(_as_load(s.target), f)
        rhs = self.ev(s.value, f)
        if isinstance(cur, (SByteArray, bytearray)) and isinstance(s.op, ast.Add):
            box = cur if isinstance(cur, SByteArray) else SByteArray(as_sbytes(cur))
            box.v = ops.bytes_concat(box.v, rhs)
            self.assign(s.target, box, f)
            return
        if isinstance(cur, list) and isinstance(s.op, ast.Add):
            cur.extend(list(self.iterate(rhs, f)))
            return
        self.assign(s.target, ops.binop(self.p, type(s.op), cur, rhs), f)

    def st_Delete(self, s: ast.Delete, f: Frame) -> None:
        for t in s.targets:
            if isinstance(t, ast.Name):
                f.locals.pop(t.id, None)
            else:
                raise Unsupported("del of non-name")

    def _obj_len(self, v: Any) -> Any:
        fn = _static_attr(v.cls, "__len__")
        return self.call_value(BoundMethod(fn, v, _defining_class(v.cls, "__len__")), [], {}, None, self._cur_frame)

    def st_If(self, s: ast.If, f: Frame) -> None:
        c = self.ev(s.test, f)
        if ops.truth(self.p, c, f"if@{s.lineno}"):
            self.exec_block(s.body, f)
        else:
            self.exec_block(s.orelse, f)

    def st_Raise(self, s: ast.Raise, f: Frame) -> None:
        if s.exc is None:
            if f.exc is None:
                raise Unsupported("bare raise outside handler")
            raise PyRaise(f.exc)
        v = self.ev_exc(s.exc, f)
        raise PyRaise(v)

    def ev_exc(self, node: ast.expr, f: Frame) -> SExc:
        # exception messages (f-strings, str()) are dropped: only the class matters
        if isinstance(node, ast.Call):
            cls = self.ev(node.func, f)
            if isinstance(cls, type) and issubclass(cls, BaseException):
                return SExc(cls, ())
        v = self.ev(node, f)
        if isinstance(v, SExc):
            return v
        if isinstance(v, type) and issubclass(v, BaseException):
            return SExc(v, ())
        if isinstance(v, BaseException):
            return SExc(type(v), v.args)
        raise Unsupported("raise of a non-exception value")

    def st_Try(self, s: ast.Try, f: Frame) -> None:
        try:
            try:
                self.exec_block(s.body, f)
            except PyRaise as pr:
                handled = False
                for h in s.handlers:
                    if self._handler_matches(h, pr.exc, f):
                        handled = True
                        if h.name:
                            f.locals[h.name] = pr.exc
                        saved = f.exc
                        f.exc = pr.exc
                        try:
                            self.exec_block(h.body, f)
                        finally:
                            f.exc = saved
                        break
                if not handled:
                    raise
            else:
                self.exec_block(s.orelse, f)
        finally:
            if s.finalbody:
                self.exec_block(s.finalbody, f)

    def _handler_matches(self, h: ast.ExceptHandler, exc: SExc, f: Frame) -> bool:
        if h.type is None:
            return True
        t = self.ev(h.type, f)
        classes = t if isinstance(t, tuple) else (t,)
        return any(isinstance(c, type) and issubclass(exc.cls, c) for c in classes)

    def st_With(self, s: ast.With, f: Frame) -> None:
        """with A as x, B as y: body  — __enter__/__exit__ of modelled context managers (exceptions are not suppressed
        unless __exit__ returns a true value)."""
        self._with_items(s.items, s.body, f)

    def _with_items(self, items: list, body: list, f: Frame) -> None:
        if not items:
            self.exec_block(body, f)
            return
        item = items[0]
        ctx = self.ev(item.context_expr, f)
        enter = self.get_attr(ctx, "__enter__", f)
        val = self.call_value(enter, [], {}, None, f)
        if item.optional_vars is not None:
            self.assign(item.optional_vars, val, f)
        try:
            self._with_items(items[1:], body, f)
        except PyRaise as pr:
            ex = self.get_attr(ctx, "__exit__", f)
            r = self.call_value(ex, [pr.exc.cls, pr.exc, None], {}, None, f)
            if not ops.truth(self.p, r, "with-exit-suppresses"):
                raise
            return
        except (_Return, _Break, _Continue):
            ex = self.get_attr(ctx, "__exit__", f)
            self.call_value(ex, [None, None, None], {}, None, f)
            raise
        ex = self.get_attr(ctx, "__exit__", f)
        self.call_value(ex, [None, None, None], {}, None, f)

    # ---- loops -------------------------------------------------------------------------------
    def st_While(self, s: ast.While, f: Frame) -> None:
        k = f.loop_no
        f.loop_no += 1
        inv = self.reg.invariant_for(f.qual, k)
        if inv is not None:
            self._loop_with_invariant(s, f, inv, k)
            return
        n = 0
        while True:
            c = self.ev(s.test, f)
            if not self.p.no_branch and is_sym(c) and n >= self.reg.unroll_limit:
                raise Unsupported(f"while loop at line {s.lineno} without invariant (unrolled {n} times)")
            if not ops.truth(self.p, c, f"while@{s.lineno}"):
                break
            n += 1
            if n > 4096:
                raise Unsupported("concrete loop too long")
            try:
                self.exec_block(s.body, f)
            except _Break:
                return
            except _Continue:
                continue
        self.exec_block(s.orelse, f)

    def st_For(self, s: ast.For, f: Frame) -> None:
        k = f.loop_no
        f.loop_no += 1
        inv = self.reg.invariant_for(f.qual, k)
        if inv is not None:
            self._loop_with_invariant(s, f, inv, k)
            return
        it = self.ev(s.iter, f)
        items = self.iterate(it, f, loop_line=s.lineno)
        for v in items:
            self.assign(s.target, v, f)
            try:
                self.exec_block(s.body, f)
            except _Break:
                return
            except _Continue:
                continue
        self.exec_block(s.orelse, f)

    def iterate(self, it: Any, f: Frame, loop_line: int = 0) -> Any:
        """Concrete iteration over a value (symbolic-length iteration needs an invariant)."""
        if isinstance(it, SymRange):
            n = it.conc_count(self.p)
            if n is None:
                raise Unsupported(f"loop over a symbolic range without invariant (line {loop_line})")
            if n > 4096:
                raise Unsupported("range too long to unroll")
            return [mk_int(it.start_t + i * it.step) for i in range(n)]
        if isinstance(it, (SBytes, SByteArray)):
            b = as_sbytes(it)
            n = ops.conc_len(self.p, b)
            if n is None:
                raise Unsupported(f"iteration over bytes of symbolic length (line {loop_line})")
            return [mk_int(b.at(z3.IntVal(i))) for i in range(n)]
        if isinstance(it, SSeq):
            s = z3.simplify(it.n)
            if z3.is_int_value(s):
                return [it.at(z3.IntVal(i)) for i in range(s.as_long())]
            raise Unsupported(f"iteration over a sequence of symbolic length (line {loop_line})")
        if is_sym(it) or isinstance(it, SObj):
            raise Unsupported(f"iteration over {it!r}")
        if isinstance(it, dict):
            return list(it.keys())
        try:
            return list(it)
        except TypeError:
            raise Unsupported(f"iteration over {type(it).__name__}")

    def _assigned_names(self, stmts: list) -> list:
        names: list = []
        for n in ast.walk(ast.Module(body=stmts, type_ignores=[])):
            if isinstance(n, ast.Name) and isinstance(n.ctx, (ast.Store, ast.Del)) and n.id not in names:
                names.append(n.id)
        return names

    def _mutated_names(self, stmts: list) -> list:
        """Names whose object is mutated in place by method calls / subscript stores (result.extend(..))."""
        names: list = []
        for n in ast.walk(ast.Module(body=stmts, type_ignores=[])):
            if (isinstance(n, ast.Call) and isinstance(n.func, ast.Attribute) and isinstance(n.func.value, ast.Name)
                    and n.func.attr in ("append", "extend", "insert", "pop", "clear", "reverse", "update", "sort",
                                        "remove", "add")):
                if n.func.value.id not in names:
                    names.append(n.func.value.id)
            if isinstance(n, ast.Subscript) and isinstance(n.ctx, ast.Store) and isinstance(n.value, ast.Name):
                if n.value.id not in names:
                    names.append(n.value.id)
        return names

    def _loop_with_invariant(self, s: Any, f: Frame, inv: Any, k: int) -> None:
        p = self.p
        is_for = isinstance(s, ast.For)
        hidden = None
        if is_for:
            it = self.ev(s.iter, f)
            if isinstance(it, SymRange):
                hidden = ("range", it)
            elif isinstance(it, SSeq) or is_bytes_like(it):
                hidden = ("seq", it)
            elif isinstance(it, range):
                hidden = ("range", SymRange(z3.IntVal(it.start), z3.IntVal(it.stop), it.step))
            else:
                raise Unsupported("invariant on a loop over an unsupported iterable")
            if not isinstance(s.target, ast.Name):
                raise Unsupported("invariant loop with a non-name target")
            var = s.target.id
            if hidden[0] == "range":
                f.locals[var] = mk_int(hidden[1].start_t)
            else:
                f.locals["idx_" + var] = 0
        # 1. initiation
        self.reg.eval_invariant(self, inv, f, mode="oblige", name=f"inv-init:L{k}")
        # 2. havoc
        names = self._assigned_names(s.body) + self._mutated_names(s.body)
        if is_for:
            names.append(var if hidden[0] == "range" else "idx_" + var)
        declared = self.reg.invariant_declares(self, inv, f)
        for nme in dict.fromkeys(names):
            if nme in declared:
                f.locals[nme] = self.reg.make_symbolic(self, nme, declared[nme])
            elif nme in f.locals:
                f.locals[nme] = self.fresh_like(f.locals[nme], nme)
        for target in self.reg.invariant_modifies(inv):
            self.havoc_target(target, f)
        self.reg.eval_invariant(self, inv, f, mode="assume")
        variant0 = self.reg.eval_variant(self, inv, f)
        d = p.choose(2, f"loop{k}")
        # loop condition
        if is_for:
            if hidden[0] == "range":
                rng: SymRange = hidden[1]
                cur = int_term(f.locals[var])
                cond = cur < rng.stop_t if rng.step > 0 else cur > rng.stop_t
            else:
                seq = hidden[1]
                n_t = as_sbytes(seq).n if is_bytes_like(seq) else seq.n
                cur = int_term(f.locals["idx_" + var])
                cond = cur < n_t
            cond_v: Any = mk_bool(cond)
        else:
            cond_v = ops.to_bool_value(p, self.ev(s.test, f))
        ct = cond_v if isinstance(cond_v, bool) else cond_v.t
        if d == 1:
            p.assume(z3.Not(ct) if not isinstance(ct, bool) else (not ct))
            if is_for:
                if hidden[0] == "range":
                    f.locals[var] = POISON
            self.exec_block(s.orelse, f)
            return
        p.assume(ct)
        if not p.feasible():
            raise DeadPath()
        if is_for and hidden[0] == "seq":
            seq = hidden[1]
            idx = f.locals["idx_" + var]
            if is_bytes_like(seq):
                f.locals[var] = mk_int(as_sbytes(seq).at(int_term(idx)))
            else:
                f.locals[var] = seq.at(int_term(idx))
        try:
            self.exec_block(s.body, f)
        except _Continue:
            pass
        except _Break:
            return  # continue after the loop from an arbitrary iteration
        if is_for:
            if hidden[0] == "range":
                f.locals[var] = mk_int(int_term(f.locals[var]) + hidden[1].step)
            else:
                f.locals["idx_" + var] = mk_int(int_term(f.locals["idx_" + var]) + 1)
        self.reg.eval_invariant(self, inv, f, mode="oblige", name=f"inv-step:L{k}")
        if variant0 is not None:
            v1 = self.reg.eval_variant(self, inv, f)
            p.oblige(f"variant:L{k}", z3.And(int_term(variant0) >= 0, int_term(v1) < int_term(variant0)),
                     replayable=False)
        elif is_for:
            pass  # for-loops over ranges / sequences terminate by construction
        raise PathEnd()

    # =========================================================================================
    # assignment
    # =========================================================================================
    def assign(self, t: ast.expr, v: Any, f: Frame) -> None:
        if isinstance(t, ast.Name):
            f.locals[t.id] = v
            return
        if isinstance(t, (ast.Tuple, ast.List)):
            items = list(self.iterate(v, f))
            star = [i for i, e in enumerate(t.elts) if isinstance(e, ast.Starred)]
            if star:
                if len(star) != 1 or len(items) < len(t.elts) - 1:
                    raise PyRaise(SExc(ValueError, ("not enough values to unpack",)))
                si = star[0]
                n_after = len(t.elts) - si - 1
                for e, x in zip(t.elts[:si], items[:si]):
                    self.assign(e, x, f)
                self.assign(t.elts[si].value, list(items[si: len(items) - n_after]), f)
                for e, x in zip(t.elts[si + 1:], items[len(items) - n_after:]):
                    self.assign(e, x, f)
                return
            if len(items) != len(t.elts):
                raise PyRaise(SExc(ValueError, ("unpack",)))
            for e, x in zip(t.elts, items):
                self.assign(e, x, f)
            return
        if isinstance(t, ast.Attribute):
            obj = self.ev(t.value, f)
            self.set_attr(obj, t.attr, v, f)
            return
        if isinstance(t, ast.Subscript):
            obj = self.ev(t.value, f)
            self.set_item(obj, t.slice, v, f)
            return
        raise Unsupported(f"assignment target {type(t).__name__}")

    def set_attr(self, obj: Any, name: str, v: Any, f: Frame) -> None:
        if isinstance(obj, SObj):
            static = _static_attr(obj.cls, name)
            if isinstance(static, property):
                if static.fset is None:
                    raise PyRaise(SExc(AttributeError, (name,)))
                self.call_value(BoundMethod(static.fset, obj, _defining_class(obj.cls, name)), [v], {}, None, f)
                return
            obj.fields[name] = v
            return
        raise Unsupported(f"attribute store on {type(obj).__name__}")

    def set_item(self, obj: Any, sl: ast.expr, v: Any, f: Frame) -> None:
        p = self.p
        if isinstance(obj, SMemView):
            if not isinstance(obj.base, SByteArray):
                raise PyRaise(SExc(TypeError, ("cannot modify read-only memory",)))
            if not (isinstance(sl, ast.Slice) and sl.lower is None and sl.upper is None and sl.step is None):
                raise Unsupported("memoryview store other than view[:] = data")
            src = as_sbytes(v)
            if not p.branch(src.n == obj.n, "memoryview-assign-size"):
                raise PyRaise(SExc(ValueError, ("memoryview assignment: lvalue and rvalue have different structures",)))
            cur = obj.base.v
            lo_t, n_t = obj.lo, obj.n
            obj.base.v = SBytes(cur.n, lambda i, cur=cur, src=src, lo_t=lo_t, n_t=n_t:
                                z3.If(z3.And(i >= lo_t, i < lo_t + n_t), src.at(i - lo_t), cur.at(i)), cur.name + "[mv]=")
            return
        if isinstance(obj, (SByteArray, bytearray)):
            if isinstance(obj, bytearray):
                raise Unsupported("store into a concrete bytearray (use SByteArray)")
            cur = obj.v
            if isinstance(sl, ast.Slice):
                lo = self.ev(sl.lower, f) if sl.lower else None
                hi = self.ev(sl.upper, f) if sl.upper else None
                step = self.ev(sl.step, f) if sl.step else None
                src = as_sbytes(v)
                if step is not None and step != 1:
                    obj.v = _ext_slice_assign(p, cur, lo, hi, step, src)
                    return
                tlo = ops.norm_index(p, lo, cur.n, z3.IntVal(0))
                thi = ops.norm_index(p, hi, cur.n, cur.n)
                if not p.entails(thi >= tlo):
                    thi = z3.If(thi >= tlo, thi, tlo)
                if p.entails(src.n == thi - tlo):
                    obj.v = SBytes(cur.n, lambda i, cur=cur, src=src, tlo=tlo, thi=thi:
                                   z3.If(z3.And(i >= tlo, i < thi), src.at(i - tlo), cur.at(i)), cur.name + "[a:b]=")
                else:
                    n2 = z3.simplify(cur.n - (thi - tlo) + src.n)
                    obj.v = SBytes(n2, lambda i, cur=cur, src=src, tlo=tlo, thi=thi:
                                   z3.If(i < tlo, cur.at(i), z3.If(i < tlo + src.n, src.at(i - tlo),
                                                                   cur.at(i - src.n + (thi - tlo)))),
                                   cur.name + "[a:b]~=")
                return
            idx = self.ev(sl, f)
            ti = int_term(idx)
            tv = int_term(v)
            if p.branch(z3.Or(tv < 0, tv > 255), "bytearray-item-range"):
                raise PyRaise(SExc(ValueError, ("byte must be in range(0, 256)",)))
            if not p.branch(z3.And(ti >= 0, ti < cur.n), "setidx"):
                if p.branch(z3.And(ti < 0, ti >= -cur.n), "setnegidx"):
                    ti = ti + cur.n
                else:
                    raise PyRaise(SExc(IndexError, ("bytearray index out of range",)))
            obj.v = SBytes(cur.n, lambda i, cur=cur, ti=ti, tv=tv: z3.If(i == ti, tv, cur.at(i)), cur.name + "[i]=")
            return
        if isinstance(obj, (list, dict)):
            if isinstance(sl, ast.Slice):
                lo = self.ev(sl.lower, f) if sl.lower else None
                hi = self.ev(sl.upper, f) if sl.upper else None
                if ops.has_sym(lo) or ops.has_sym(hi):
                    raise Unsupported("symbolic list slice store")
                obj[lo:hi] = list(self.iterate(v, f))
                return
            key = self.ev(sl, f)
            if ops.has_sym(key):
                raise Unsupported("symbolic key/index store")
            try:
                obj[key] = v
            except (IndexError, KeyError, TypeError) as e:
                raise PyRaise(SExc(type(e), e.args))
            return
        raise Unsupported(f"subscript store on {type(obj).__name__}")

    # =========================================================================================
    # expressions
    # =========================================================================================
    def ev(self, n: ast.expr, f: Frame) -> Any:
        self._cur_frame = f
        m = getattr(self, "ex_" + type(n).__name__, None)
        if m is None:
            raise Unsupported(f"expression {type(n).__name__} at line {getattr(n, 'lineno', '?')}")
        r = m(n, f)
        self._cur_frame = f
        return r

    def ex_Constant(self, n: ast.Constant, f: Frame) -> Any:
        return n.value

    def ex_Name(self, n: ast.Name, f: Frame) -> Any:
        if n.id in f.locals:
            v = f.locals[n.id]
            if v is POISON:
                raise Unsupported(f"use of loop variable {n.id} after an abstracted loop")
            return v
        if f.spec and n.id == "result" and f.result is not UNBOUND:
            return f.result
        fr = getattr(f, "parent", None)
        while fr is not None:
            if n.id in fr.locals:
                return fr.locals[n.id]
            fr = getattr(fr, "parent", None)
        if n.id in f.globals:
            return f.globals[n.id]
        if hasattr(_builtins, n.id):
            return getattr(_builtins, n.id)
        raise PyRaise(SExc(NameError, (n.id,)))

    def ex_Tuple(self, n: ast.Tuple, f: Frame) -> Any:
        return tuple(self._ev_elts(n.elts, f))

    def ex_List(self, n: ast.List, f: Frame) -> Any:
        return list(self._ev_elts(n.elts, f))

    def ex_Set(self, n: ast.Set, f: Frame) -> Any:
        vals = self._ev_elts(n.elts, f)
        if ops.has_sym(vals):
            raise Unsupported("set with symbolic members")
        return set(vals)

    def _ev_elts(self, elts: list, f: Frame) -> list:
        out = []
        for e in elts:
            if isinstance(e, ast.Starred):
                out.extend(self.iterate(self.ev(e.value, f), f))
            else:
                out.append(self.ev(e, f))
        return out

    def ex_Dict(self, n: ast.Dict, f: Frame) -> Any:
        d = {}
        for k, v in zip(n.keys, n.values):
            if k is None:
                d.update(self.ev(v, f))
            else:
                kk = self.ev(k, f)
                if ops.has_sym(kk):
                    raise Unsupported("symbolic dict key")
                d[kk] = self.ev(v, f)
        return d

    def ex_JoinedStr(self, n: ast.JoinedStr, f: Frame) -> Any:
        parts = []
        for v in n.values:
            if isinstance(v, ast.Constant):
                parts.append(str(v.value))
            else:
                assert isinstance(v, ast.FormattedValue)
                x = self.ev(v.value, f)
                if isinstance(x, SInt):
                    x = self._conc_int(x)  # e.g. struct formats built from lengths the path condition fixes
                if ops.has_sym(x):
                    return OpaqueStr()
                spec = ""
                if v.format_spec is not None:
                    spec = self.ev(v.format_spec, f)
                    if isinstance(spec, OpaqueStr):
                        return OpaqueStr()
                if v.conversion == ord("r"):
                    x = repr(x)
                elif v.conversion == ord("s"):
                    x = str(x)
                try:
                    parts.append(format(x, spec))
                except (ValueError, TypeError) as e:
                    raise PyRaise(SExc(type(e), e.args))
        return "".join(parts)

    def ex_Lambda(self, n: ast.Lambda, f: Frame) -> Any:
        return Closure(n, f)

    def ex_IfExp(self, n: ast.IfExp, f: Frame) -> Any:
        c = self.ev(n.test, f)
        if f.spec and is_sym(c):
            # specification code: a conditional expression is a value-level ite (no fork, lazily typed)
            return self._spec_ite(ops.truth_term(self.p, c), n.body, n.orelse, f)
        if self.p.no_branch and is_sym(c):
            a, b = self.ev(n.body, f), self.ev(n.orelse, f)
            return self.ite_value(ops.truth_term(self.p, c), a, b)
        if ops.truth(self.p, c, f"ifexp@{n.lineno}"):
            return self.ev(n.body, f)
        return self.ev(n.orelse, f)

    def ite_value(self, c: Any, a: Any, b: Any) -> Any:
        if isinstance(c, bool):
            return a if c else b
        if is_int_like(a) and is_int_like(b) and not (isinstance(a, (bool, SBool)) and isinstance(b, (bool, SBool))):
            return mk_int(z3.If(c, int_term(a), int_term(b)))
        if isinstance(a, (bool, SBool)) and isinstance(b, (bool, SBool)):
            return mk_bool(z3.If(c, bool_term(a), bool_term(b)))
        if is_bytes_like(a) and is_bytes_like(b):
            a, b = as_sbytes(a), as_sbytes(b)
            return SBytes(z3.If(c, a.n, b.n), lambda i, a=a, b=b, c=c: z3.If(c, a.at(i), b.at(i)), "ite")
        if not ops.has_sym(a) and not ops.has_sym(b) and type(a) is type(b) and a == b:
            return a
        raise Unsupported("conditional value of mixed kinds in a specification / quantifier body")

    def ex_UnaryOp(self, n: ast.UnaryOp, f: Frame) -> Any:
        v = self.ev(n.operand, f)
        if isinstance(n.op, ast.Not):
            t = ops.truth_term(self.p, v)
            return (not t) if isinstance(t, bool) else mk_bool(z3.Not(t))
        return ops.unop(self.p, type(n.op), v)

    def ex_BinOp(self, n: ast.BinOp, f: Frame) -> Any:
        a = self.ev(n.left, f)
        b = self.ev(n.right, f)
        if isinstance(n.op, ast.Mod) and isinstance(a, str):
            if ops.has_sym(b):
                return OpaqueStr()
            return a % b
        if isinstance(a, OpaqueStr) or isinstance(b, OpaqueStr):
            return OpaqueStr()
        return ops.binop(self.p, type(n.op), a, b)

    def ex_BoolOp(self, n: ast.BoolOp, f: Frame) -> Any:
        is_and = isinstance(n.op, ast.And)
        vals = n.values
        cur = self.ev(vals[0], f)
        for nxt in vals[1:]:
            if not is_sym(cur) and not isinstance(cur, (SObj, SByteArray)):
                if bool(cur) != is_and:
                    return cur
                cur = self.ev(nxt, f)
                continue
            # symbolic left operand
            if isinstance(cur, SBool) and (f.spec or _simple_expr(nxt) or self.p.no_branch):
                r = self.ev(nxt, f)
                if isinstance(r, (SBool, bool)):
                    t = z3.And(cur.t, bool_term(r)) if is_and else z3.Or(cur.t, bool_term(r))
                    cur = mk_bool(t)
                    continue
                if self.p.no_branch:
                    raise Unsupported("non-boolean and/or inside a quantifier body")
                # non-boolean right operand: fall through to forking using the value computed
                if ops.truth(self.p, cur, "boolop") != is_and:
                    return cur
                cur = r
                continue
            if ops.truth(self.p, cur, f"boolop@{n.lineno}") != is_and:
                return cur
            cur = self.ev(nxt, f)
        return cur

    def ex_Compare(self, n: ast.Compare, f: Frame) -> Any:
        left = self.ev(n.left, f)
        acc: Any = True
        for op, rn in zip(n.ops, n.comparators):
            right = self.ev(rn, f)  # note: Python would not evaluate later operands after a False; operands are pure here
            r = ops.compare(self.p, type(op), left, right)
            if r is False:
                return False
            if r is not True:
                acc = r if acc is True else mk_bool(z3.And(bool_term(acc), bool_term(r)))
            left = right
        return acc

    def ex_Attribute(self, n: ast.Attribute, f: Frame) -> Any:
        obj = self.ev(n.value, f)
        return self.get_attr(obj, n.attr, f, n)

    def get_attr(self, obj: Any, name: str, f: Frame, n: Any = None) -> Any:
        if isinstance(obj, SObj):
            if name in obj.fields:
                return obj.fields[name]
            if name == "__class__":
                return obj.cls
            static = _static_attr(obj.cls, name)
            if static is UNBOUND:
                ga = _static_attr(obj.cls, "__getattr__")
                if ga is not UNBOUND:
                    raise Unsupported(f"__getattr__ on {obj.cls.__name__}.{name}")
                raise PyRaise(SExc(AttributeError, (f"{obj.cls.__name__}.{name}",)))
            defcls = _defining_class(obj.cls, name)
            if isinstance(static, property):
                return self.call_value(BoundMethod(static.fget, obj, defcls), [], {}, n, f)
            if isinstance(static, staticmethod):
                return static.__func__
            if isinstance(static, classmethod):
                return BoundMethod(static.__func__, obj.cls, defcls)
            if isinstance(static, types.FunctionType):
                return BoundMethod(static, obj, defcls)
            if ops.has_sym(static):
                raise Unsupported("symbolic class attribute")
            if isinstance(static, (list, dict, set, bytearray)):
                return static  # shared class-level mutable (aliasing with the class is real Python semantics)
            return static
        from .extmodels import ExtObject

        if isinstance(obj, ExtObject):
            try:
                return obj.vf_attr(self, name)
            except Unsupported:
                return ExtMethod(obj, name)
        if isinstance(obj, SExc):
            if name == "args":
                return obj.args
            raise Unsupported(f"attribute {name} of exception value")
        if isinstance(obj, (SBytes, SByteArray, SInt, SBool, SStr, SSeq, SReal)):
            return SymMethod(obj, name)
        if isinstance(obj, SuperProxy):
            return obj.lookup(name)
        if isinstance(obj, OpaqueStr):
            return SymMethod(obj, name)
        if isinstance(obj, (list, dict, set, bytearray)):
            return ConcMethod(obj, name)
        if isinstance(obj, type) and _is_spsdk_class(obj):
            static = _static_attr(obj, name)
            if isinstance(static, classmethod):
                return BoundMethod(static.__func__, obj, _defining_class(obj, name))
            if isinstance(static, staticmethod):
                return static.__func__
        try:
            return getattr(obj, name)
        except AttributeError as e:
            raise PyRaise(SExc(AttributeError, e.args))

    def ex_Subscript(self, n: ast.Subscript, f: Frame) -> Any:
        obj = self.ev(n.value, f)
        p = self.p
        if isinstance(n.slice, ast.Slice):
            lo = self.ev(n.slice.lower, f) if n.slice.lower else None
            hi = self.ev(n.slice.upper, f) if n.slice.upper else None
            step = self.ev(n.slice.step, f) if n.slice.step else None
            if isinstance(obj, SMemView):
                if step is not None:
                    raise Unsupported("memoryview slice with step")
                tlo = ops.norm_index(p, lo, obj.n, z3.IntVal(0))
                thi = ops.norm_index(p, hi, obj.n, obj.n)
                nn = thi - tlo if p.entails(thi >= tlo) else z3.If(thi >= tlo, thi - tlo, 0)
                return SMemView(obj.base, z3.simplify(obj.lo + tlo), z3.simplify(nn))
            if is_bytes_like(obj) and (ops.has_sym(obj) or ops.has_sym(lo) or ops.has_sym(hi)):
                r = ops.bytes_slice(p, obj, lo, hi, step)
                return SByteArray(r) if isinstance(obj, (SByteArray, bytearray)) else r
            if isinstance(obj, SSeq):
                if step is not None:
                    raise Unsupported("sequence slice with step")
                tlo = ops.norm_index(p, lo, obj.n, z3.IntVal(0))
                thi = ops.norm_index(p, hi, obj.n, obj.n)
                nn = z3.If(thi >= tlo, thi - tlo, 0)
                return SSeq(z3.simplify(nn), lambda i, o=obj, tlo=tlo: o.at(tlo + i), obj.name + "[:]")
            if ops.has_sym(lo) or ops.has_sym(hi) or ops.has_sym(step):
                raise Unsupported("symbolic slice of a concrete container")
            return obj[lo:hi:step]
        idx = self.ev(n.slice, f)
        if is_bytes_like(obj) and (ops.has_sym(obj) or ops.has_sym(idx)):
            if f.spec or p.no_branch:
                # specifications index totally (out-of-range reads are unspecified values, never exceptions)
                b = as_sbytes(obj)
                ti = int_term(idx)
                if isinstance(idx, int) and idx < 0:
                    ti = b.n + idx
                elif not isinstance(idx, int) and not p.no_branch and not p.entails(ti >= 0):
                    ti = z3.If(ti < 0, ti + b.n, ti)
                return mk_int(b.at(ti))
            return ops.bytes_index(p, obj, idx)
        if isinstance(obj, SSeq):
            ti = int_term(idx)
            if f.spec or p.no_branch:
                return obj.at(ti)
            if p.branch(z3.And(ti >= 0, ti < obj.n), "seqidx"):
                return obj.at(ti)
            if p.branch(z3.And(ti < 0, ti >= -obj.n), "seqnegidx"):
                return obj.at(ti + obj.n)
            raise PyRaise(SExc(IndexError, ("sequence index out of range",)))
        if isinstance(obj, (list, tuple)) and is_sym(idx):
            ti = int_term(idx)
            nn = len(obj)
            for k in range(nn):
                if p.branch(z3.Or(ti == k, ti == k - nn), f"lidx{k}"):
                    return obj[k]
            raise PyRaise(SExc(IndexError, ("list index out of range",)))
        if isinstance(obj, dict) and is_sym(idx):
            for key in obj:
                t = ops.eq_term(p, idx, key)
                if t is True or (t is not False and p.branch(t, "dkey")):
                    return obj[key]
            raise PyRaise(SExc(KeyError, ()))
        if is_sym(obj) or isinstance(obj, SObj):
            if isinstance(obj, SObj):
                gi = _static_attr(obj.cls, "__getitem__")
                if gi is not UNBOUND:
                    return self.call_value(BoundMethod(gi, obj, _defining_class(obj.cls, "__getitem__")), [idx], {}, n, f)
            raise Unsupported(f"subscript of {obj!r}")
        try:
            return obj[idx]
        except (IndexError, KeyError, TypeError) as e:
            raise PyRaise(SExc(type(e), e.args))

    def ex_Starred(self, n: ast.Starred, f: Frame) -> Any:
        raise Unsupported("starred expression")

    def ex_NamedExpr(self, n: ast.NamedExpr, f: Frame) -> Any:
        v = self.ev(n.value, f)
        self.assign(n.target, v, f)
        return v

    # ---- comprehensions ----------------------------------------------------------------------
    def ex_ListComp(self, n: ast.ListComp, f: Frame) -> Any:
        return self._comprehension(n.elt, n.generators, f)

    def ex_GeneratorExp(self, n: ast.GeneratorExp, f: Frame) -> Any:
        return self._comprehension(n.elt, n.generators, f, lazy_ok=True)

    def ex_SetComp(self, n: ast.SetComp, f: Frame) -> Any:
        r = self._comprehension(n.elt, n.generators, f)
        if ops.has_sym(r):
            raise Unsupported("set comprehension with symbolic members")
        return set(r)

    def ex_DictComp(self, n: ast.DictComp, f: Frame) -> Any:
        pairs = self._comprehension(ast.Tuple(elts=[n.key, n.value], ctx=ast.Load()), n.generators, f)
        d = {}
        for k, v in pairs:
            if ops.has_sym(k):
                raise Unsupported("symbolic dict key")
            d[k] = v
        return d

    def _comprehension(self, elt: ast.expr, gens: list, f: Frame, lazy_ok: bool = False) -> Any:
        sub = Frame({}, f.globals, func=f.func, defcls=f.defcls, qual=f.qual, spec=f.spec)
        sub.parent = f  # type: ignore[attr-defined]
        sub.result, sub.old = f.result, f.old
        if len(gens) == 1 and not gens[0].ifs and isinstance(gens[0].target, ast.Name):
            it = self.ev(gens[0].iter, f)
            if isinstance(it, SymRange) and it.conc_count(self.p) is None:
                # lazily defined sequence: element i is elt[x := start + i*step]
                rng = it
                var = gens[0].target.id
                interp = self

                def at(i: Any) -> Any:
                    fr = Frame({var: mk_int(rng.start_t + i * rng.step)}, f.globals, func=f.func, defcls=f.defcls,
                               qual=f.qual, spec=f.spec)
                    fr.parent = f  # type: ignore[attr-defined]
                    interp.p.no_branch += 1
                    try:
                        return interp.ev(elt, fr)
                    finally:
                        interp.p.no_branch -= 1

                return SSeq(rng.count_t(), at, "comp")
            out: list = []
            for v in self.iterate(it, f):
                sub.locals[gens[0].target.id] = v
                out.append(self.ev(elt, sub))
            return out
        out = []
        self._comp_rec(elt, gens, 0, sub, out)
        return out

    def _comp_rec(self, elt: ast.expr, gens: list, gi: int, sub: Frame, out: list) -> None:
        if gi == len(gens):
            out.append(self.ev(elt, sub))
            return
        g = gens[gi]
        for v in self.iterate(self.ev(g.iter, sub), sub):
            self.assign(g.target, v, sub)
            if all(ops.truth(self.p, self.ev(c, sub), "compif") for c in g.ifs):
                self._comp_rec(elt, gens, gi + 1, sub, out)

    # =========================================================================================
    # calls
    # =========================================================================================
    def ex_Call(self, n: ast.Call, f: Frame) -> Any:
        if _is_logger_call(n):
            return None
        # spec-level special forms (need unevaluated arguments)
        if isinstance(n.func, ast.Name) and n.func.id in ("old", "forall", "exists", "raised", "implies", "ite"):
            target = f.globals.get(n.func.id)
            if target in (api.old, api.forall, api.exists, api.raised, api.implies, api.ite) and n.func.id not in f.locals:
                return self._spec_form(n, f)
        if isinstance(n.func, ast.Name) and n.func.id == "super" and not n.args:
            return SuperProxy(self, f)
        if isinstance(n.func, ast.Name) and n.func.id == "super" and len(n.args) == 2 and "super" not in f.locals:
            # explicit form super(C, obj_or_cls): look-up starts behind C in the MRO of the receiver
            c, recv = self.ev(n.args[0], f), self.ev(n.args[1], f)
            if isinstance(c, type):
                return SuperProxy(self, f, defcls=c, recv=recv)
        fn: Any = self.ev(n.func, f)
        args: list = []
        for a in n.args:
            if isinstance(a, ast.Starred):
                args.extend(self.iterate(self.ev(a.value, f), f))
            else:
                args.append(self.ev(a, f))
        kwargs = {}
        for kw in n.keywords:
            if kw.arg is None:
                kwargs.update(self.ev(kw.value, f))
            else:
                kwargs[kw.arg] = self.ev(kw.value, f)
        return self.call_value(fn, args, kwargs, n, f)

    def _spec_form(self, n: ast.Call, f: Frame) -> Any:
        name = n.func.id  # type: ignore[attr-defined]
        p = self.p
        if name == "old":
            if f.old is None:
                return self.ev(n.args[0], f)
            return self.ev(n.args[0], f.old)
        if name == "raised":
            cls = self.ev(n.args[0], f)
            return f.exc is not None and issubclass(f.exc.cls, cls)
        if name == "implies":
            a = ops.truth_term(p, self.ev(n.args[0], f))
            if a is False:
                return True
            if a is not True and not p.feasible(a):
                return True  # antecedent impossible here: consequent need not even be well-typed
            b = ops.truth_term(p, self.ev(n.args[1], f))
            if a is True:
                return b if isinstance(b, bool) else mk_bool(b)
            if b is True:
                return True
            if b is False:
                return mk_bool(z3.Not(a))
            return mk_bool(z3.Implies(a, b))
        if name == "ite":
            c = ops.truth_term(p, self.ev(n.args[0], f))
            if c is True:
                return self.ev(n.args[1], f)
            if c is False:
                return self.ev(n.args[2], f)
            return self._spec_ite(c, n.args[1], n.args[2], f)
        lo = self.ev(n.args[0], f)
        hi = self.ev(n.args[1], f)
        if len(n.args) > 3 or any(kw.arg == "expand" for kw in n.keywords):
            lo, hi = self._conc_int(lo), self._conc_int(hi)
        lam = n.args[2]
        if not isinstance(lam, ast.Lambda) or len(lam.args.args) != 1:
            raise Unsupported("forall/exists needs a one-argument lambda")
        var = lam.args.args[0].arg
        if isinstance(lo, int) and isinstance(hi, int) and hi - lo <= 64:
            parts = []
            for k in range(lo, hi):
                fr = Frame({var: k}, f.globals, func=f.func, defcls=f.defcls, qual=f.qual, spec=f.spec)
                fr.parent, fr.result, fr.old, fr.exc = f, f.result, f.old, f.exc  # type: ignore[attr-defined]
                p.no_branch += 1
                try:
                    r = ops.to_bool_value(p, self.ev(lam.body, fr))
                finally:
                    p.no_branch -= 1
                parts.append(bool_term(r))
            if not parts:
                return name == "forall"
            return mk_bool(z3.And(parts) if name == "forall" else z3.Or(parts))
        p.nfresh += 1
        k = z3.Int(f"{var}!q{p.nfresh}")
        fr = Frame({var: SInt(k)}, f.globals, func=f.func, defcls=f.defcls, qual=f.qual, spec=f.spec)
        fr.parent, fr.result, fr.old, fr.exc = f, f.result, f.old, f.exc  # type: ignore[attr-defined]
        p.no_branch += 1
        try:
            body = ops.to_bool_value(p, self.ev(lam.body, fr))
        finally:
            p.no_branch -= 1
        rng = z3.And(k >= int_term(lo), k < int_term(hi))
        if name == "forall":
            return mk_bool(z3.ForAll([k], z3.Implies(rng, bool_term(body))))
        return mk_bool(z3.Exists([k], z3.And(rng, bool_term(body))))

    def _spec_ite(self, c: Any, na: ast.expr, nb: ast.expr, f: Frame) -> Any:
        p = self.p
        if c is True:
            return self.ev(na, f)
        if c is False:
            return self.ev(nb, f)
        va = vb = None
        ea: Any = None
        eb: Any = None
        try:
            va = self.ev(na, f)
        except (PyRaise, Unsupported) as e:
            ea = e
        try:
            vb = self.ev(nb, f)
        except (PyRaise, Unsupported) as e:
            eb = e
        if ea is None and eb is None:
            if va is vb:
                return va
            return self.ite_value(c, va, vb)
        # one side is not even well-typed here: it must be impossible
        if ea is not None and eb is None and not p.feasible(c):
            return vb
        if eb is not None and ea is None and not p.feasible(z3.Not(c)):
            return va
        raise (ea or eb)

    def _conc_int(self, v: Any) -> Any:
        """Concrete int if the path condition fixes the value, else the value itself."""
        if not isinstance(v, SInt) or self.p.no_branch:
            return v
        c = self.p.fixed_value(v.t)
        return v if c is None else c

    def call_value(self, fn: Any, args: list, kwargs: dict, n: Any, f: Frame) -> Any:
        from . import models

        p = self.p
        self.call_depth += 1
        if self.call_depth > 60:
            raise Unsupported("call depth exceeded")
        try:
            from .extmodels import ExtObject, call_ext_object

            if isinstance(fn, Closure):
                return self._call_closure(fn, args, kwargs)
            if isinstance(fn, ExtMethod):
                return fn.obj.vf_call(self, fn.name, args, kwargs, f)
            if isinstance(fn, types.BuiltinMethodType) and fn.__name__ == "join" and isinstance(fn.__self__, (bytes, bytearray)) \
                    and ops.has_sym(args):
                parts = list(self.iterate(args[0], f))
                out: Any = b""
                for i, part in enumerate(parts):
                    if i and len(fn.__self__):
                        out = ops.bytes_concat(out, fn.__self__)
                    out = part if (i == 0 and not len(fn.__self__)) else ops.bytes_concat(out, part)
                return as_sbytes(out) if ops.has_sym(out) else out
            if isinstance(fn, models.Partial):
                kw = dict(fn.kwargs)
                kw.update(kwargs)
                return self.call_value(fn.fn, list(fn.args) + list(args), kw, n, f)
            if isinstance(fn, ExtObject):
                return call_ext_object(self, fn, args, kwargs, f)
            if isinstance(fn, SymMethod):
                return models.sym_method(self, fn.recv, fn.name, args, kwargs, f)
            if isinstance(fn, ConcMethod):
                return models.container_method(self, fn.recv, fn.name, args, kwargs, f)
            if isinstance(fn, BoundMethod):
                return self.call_function(fn.func, [fn.recv] + list(args), kwargs, n, f, defcls=fn.defcls)
            if isinstance(fn, api._UF):
                return self.reg.apply_uf(self, fn, args, kwargs)
            m = models.lookup(fn)
            if m is not None:
                return m(self, args, kwargs, f)
            if _is_spec_function(fn):
                if fn.__module__ == "vf.api" or getattr(api, fn.__name__, None) is fn:
                    return models.api_function(self, fn, args, kwargs, f)
                return self._inline(fn, args, kwargs, None)
            if getattr(fn, "__module__", None) == "vf.api":
                return models.api_function(self, fn, args, kwargs, f)
            if _is_spsdk_function(fn):
                return self.call_function(fn, args, kwargs, n, f)
            if isinstance(fn, types.MethodType) and _is_spsdk_function(fn.__func__):
                recv = fn.__self__
                return self.call_function(fn.__func__, [recv] + list(args), kwargs, n, f,
                                          defcls=recv if isinstance(recv, type) else type(recv))
            if isinstance(fn, type):
                return self.construct(fn, args, kwargs, n, f)
            # concrete call of a whitelisted pure callable on concrete arguments
            if not ops.has_sym(args) and not ops.has_sym(kwargs):
                if self._safe_concrete(fn):
                    try:
                        return fn(*args, **kwargs)
                    except (ValueError, TypeError, KeyError, IndexError, OverflowError, ZeroDivisionError,
                            _struct.error, AttributeError, UnicodeError, ArithmeticError) as e:
                        raise PyRaise(SExc(type(e), e.args))
                    except Exception as e:  # exceptions of the program under analysis (e.g. SPSDKError from enums)
                        if type(e).__module__.startswith("spsdk"):
                            raise PyRaise(SExc(type(e), e.args))
                        raise
            raise Unsupported(f"call of {getattr(fn, '__qualname__', fn)!r} (no model, contract or inline mark)")
        finally:
            self.call_depth -= 1

    def _safe_concrete(self, fn: Any) -> bool:
        if fn in SAFE_BUILTINS:
            return True
        mod = getattr(fn, "__module__", None) or ""
        if any(mod == m or mod.startswith(m + ".") for m in SAFE_CONCRETE_MODULES):
            return True
        slf = getattr(fn, "__self__", None)
        if slf is not None and not isinstance(slf, types.ModuleType):
            if isinstance(slf, SAFE_RECEIVER_TYPES):
                return True
            if isinstance(slf, type) and (issubclass(slf, SAFE_RECEIVER_TYPES) or slf in (dict, list, bytes, int, str)):
                return True
        if isinstance(slf, types.ModuleType) and slf.__name__ in SAFE_CONCRETE_MODULES:
            return True
        if isinstance(fn, (types.BuiltinFunctionType, types.MethodDescriptorType)) and mod in ("builtins", "math", "_struct"):
            return True
        return False

    def _call_closure(self, c: Closure, args: list, kwargs: dict) -> Any:
        node = c.node
        a = node.args
        names = [x.arg for x in a.args]
        if len(args) > len(names):
            raise Unsupported("closure varargs")
        loc = dict(zip(names, args))
        loc.update(kwargs)
        ndef = len(a.defaults)
        for i, d in enumerate(a.defaults):
            nm = names[len(names) - ndef + i]
            if nm not in loc:
                loc[nm] = self.ev(d, c.frame)
        fr = Frame(loc, c.frame.globals, func=c.frame.func, defcls=c.frame.defcls, qual=c.frame.qual + ".<closure>",
                   spec=c.frame.spec)
        fr.parent = c.frame  # type: ignore[attr-defined]
        fr.result, fr.old, fr.exc = c.frame.result, c.frame.old, c.frame.exc
        if isinstance(node, ast.Lambda):
            return self.ev(node.body, fr)
        try:
            self.exec_block(node.body, fr)
        except _Return as r:
            return r.value
        return None

    def call_function(self, func: Any, args: list, kwargs: dict, n: Any, f: Frame,
                      defcls: Optional[type] = None) -> Any:
        """Call of a repository function: contract if it has one, else inline if marked transparent."""
        if _is_spec_function(func):
            return self._inline(func, args, kwargs, defcls)
        if (self.reg.qualname(func) in self.reg.concrete_ok or func.__module__ == "spsdk.utils.spsdk_enum") \
                and not ops.has_sym(args) and not ops.has_sym(kwargs):
            return self._native(func, args, kwargs)  # enum table look-ups on concrete arguments are plain data access
        con = self.reg.contract_for(func)
        if con is not None and not self.reg.may_inline(func):
            return self.reg.apply_contract(self, con, func, args, kwargs, f)
        if self.reg.may_inline(func):
            return self._inline(func, args, kwargs, defcls)
        raise Unsupported(f"call of {self.reg.qualname(func)} which has neither a contract nor an inline mark")

    def _native(self, func: Any, args: list, kwargs: dict) -> Any:
        """Native execution of a pure repository callable on concrete arguments (real code, real semantics)."""
        self.inlined.add("native:" + self.reg.qualname(func))
        try:
            return func(*args, **kwargs)
        except Exception as e:  # pylint: disable=broad-except
            raise PyRaise(SExc(type(e), e.args))

    def _inline(self, func: Any, args: list, kwargs: dict, defcls: Optional[type]) -> Any:
        self.inlined.add(self.reg.qualname(func))
        bound = self.bind_args(func, args, kwargs)
        self.p.inline_depth += 1
        try:
            return self.run_function(func, bound, defcls)
        finally:
            self.p.inline_depth -= 1

    def construct(self, cls: type, args: list, kwargs: dict, n: Any, f: Frame) -> Any:
        from . import models

        if issubclass(cls, BaseException):
            return SExc(cls, tuple(args))
        if _is_spsdk_class(cls):
            if issubclass(cls, enum.Enum):
                if ops.has_sym(args):
                    raise Unsupported("enum lookup by symbolic value")
                try:
                    return cls(*args)
                except ValueError as e:
                    raise PyRaise(SExc(ValueError, e.args))
            key = f"{cls.__module__}:{cls.__qualname__}"
            if key in self.reg.concrete_ok and not ops.has_sym(args) and not ops.has_sym(kwargs):
                self.inlined.add("native:" + key)
                try:
                    return cls(*args, **kwargs)
                except Exception as e:  # pylint: disable=broad-except
                    raise PyRaise(SExc(type(e), e.args))
            obj = SObj(cls, {})
            init = _static_attr(cls, "__init__")
            if isinstance(init, types.FunctionType):
                self.call_function(init, [obj] + list(args), kwargs, n, f, defcls=_defining_class(cls, "__init__"))
            elif args or kwargs:
                raise Unsupported(f"constructor of {cls.__name__} without python __init__")
            return obj
        raise Unsupported(f"construction of {cls.__module__}.{cls.__name__}")

    # =========================================================================================
    # havoc helpers
    # =========================================================================================
    def fresh_like(self, v: Any, hint: str = "h") -> Any:
        p = self.p
        if isinstance(v, (bool, SBool)):
            return p.fresh_bool(hint)
        if isinstance(v, (int, SInt)):
            return p.fresh_int(hint)
        if isinstance(v, (bytes, SBytes)):
            return p.fresh_bytes(hint)
        if isinstance(v, (bytearray, SByteArray)):
            return SByteArray(p.fresh_bytes(hint))
        if isinstance(v, SReal):
            nm = p._name(hint)
            return SReal(z3.Real(nm))
        if isinstance(v, SStr) or isinstance(v, str):
            return p.fresh_str(hint)
        if v is None:
            return None
        raise Unsupported(f"cannot havoc a value of kind {type(v).__name__} (declare its type in the invariant)")

    def havoc_target(self, target: ast.expr, f: Frame) -> None:
        if isinstance(target, ast.Attribute):
            try:
                obj = self.ev(target.value, f)
            except PyRaise as e:
                if issubclass(e.exc.cls, (IndexError, AttributeError, KeyError)):
                    return  # the target does not exist in this shape: nothing to havoc
                raise
            if not isinstance(obj, SObj):
                raise Unsupported("modifies target is not an object field")
            cur = obj.fields.get(target.attr, UNBOUND)
            if cur is UNBOUND:
                # a field that does not exist yet (constructor contract on a fresh object): typed by the class's @shape
                key = f"{obj.cls.__module__}:{obj.cls.__qualname__}"
                shp = self.reg.shapes.get(key)
                ftypes = shp() if shp is not None else {}
                if target.attr not in ftypes:
                    raise Unsupported(f"modifies target {target.attr} has no current value")
                obj.fields[target.attr] = self.reg.make_symbolic(self, target.attr, ftypes[target.attr])
                return
            obj.fields[target.attr] = self.fresh_like(cur, target.attr)
            return
        if isinstance(target, ast.Name):
            cur = f.locals.get(target.id, UNBOUND)
            if isinstance(cur, SByteArray):
                cur.v = self.p.fresh_bytes(target.id)
                return
            raise Unsupported("modifies of a local name that is not a bytearray")
        raise Unsupported("modifies target form")


# =============================================================================================
# helper value kinds
# =============================================================================================
class OpaqueStr:
    """A string whose content is irrelevant (message text); any use other than passing it on is refused."""

    def __repr__(self) -> str:
        return "<opaque str>"


class SymMethod:
    def __init__(self, recv: Any, name: str):
        self.recv, self.name = recv, name


class ExtMethod:
    def __init__(self, obj: Any, name: str):
        self.obj, self.name = obj, name


class ConcMethod:
    def __init__(self, recv: Any, name: str):
        self.recv, self.name = recv, name


class SymRange:
    """range(start, stop, step) with symbolic bounds and a concrete non-zero step."""

    def __init__(self, start_t: Any, stop_t: Any, step: int):
        self.start_t, self.stop_t, self.step = start_t, stop_t, step

    def count_t(self) -> Any:
        if self.step > 0:
            d = self.stop_t - self.start_t
            return z3.If(d > 0, (d + (self.step - 1)) / self.step, 0)
        d = self.start_t - self.stop_t
        return z3.If(d > 0, (d + (-self.step - 1)) / (-self.step), 0)

    def conc_count(self, p: Path) -> Optional[int]:
        v = p.fixed_value(self.count_t())
        if v is not None or p.no_branch:
            return v
        # a count the path condition bounds by a small constant: one path per count (complete case split, no invariant needed)
        c = self.count_t()
        if p.entails(c <= 8):
            for k in range(0, 9):
                if p.branch(c == k, f"range-count{k}"):
                    return k
            raise DeadPath()
        return None


class SuperProxy:
    def __init__(self, interp: Interp, f: Frame, defcls: Optional[type] = None, recv: Any = None):
        self.interp = interp
        self.frame = f
        self.recv = recv if defcls is not None else f.locals.get("self", f.locals.get("cls"))
        if defcls is None and f.defcls is None:
            raise Unsupported("super() without a defining class")
        self.defcls = defcls if defcls is not None else f.defcls

    def lookup(self, name: str) -> Any:
        recv = self.recv
        cls = recv.cls if isinstance(recv, SObj) else recv if isinstance(recv, type) else type(recv)
        mro = cls.__mro__
        i = mro.index(self.defcls)
        for c in mro[i + 1:]:
            if name in c.__dict__:
                v = c.__dict__[name]
                if isinstance(v, types.FunctionType):
                    return BoundMethod(v, recv, c)
                if isinstance(v, classmethod):
                    return BoundMethod(v.__func__, cls, c)
                if isinstance(v, staticmethod):
                    return v.__func__
                if isinstance(v, property):
                    return self.interp.call_value(BoundMethod(v.fget, recv, c), [], {}, None, self.frame)
                if c is object and name == "__init__":
                    return lambda *a, **k: None
                return v
        raise PyRaise(SExc(AttributeError, (name,)))


def _static_attr(cls: type, name: str) -> Any:
    for c in cls.__mro__:
        if name in c.__dict__:
            return c.__dict__[name]
    return UNBOUND


def _defining_class(cls: type, name: str) -> Optional[type]:
    for c in cls.__mro__:
        if name in c.__dict__:
            return c
    return None


def _is_spsdk_class(c: Any) -> bool:
    return isinstance(c, type) and (c.__module__ or "").startswith("spsdk")


def _is_generator(node: Any) -> bool:
    for n in ast.walk(node):
        if isinstance(n, (ast.Yield, ast.YieldFrom)):
            return True
    return False


def _is_logger_call(n: Any) -> bool:
    return (isinstance(n, ast.Call) and isinstance(n.func, ast.Attribute) and isinstance(n.func.value, ast.Name)
            and n.func.value.id in ("logger", "logging", "LOGGER")
            and n.func.attr in ("debug", "info", "warning", "error", "critical", "exception", "log"))


def _as_load(t: ast.expr) -> ast.expr:
    t2 = copy.copy(t)
    t2.ctx = ast.Load()  # type: ignore[attr-defined]
    return t2


def _simple_expr(n: ast.expr) -> bool:
    """Expression whose evaluation cannot raise, fork or have effects (so and/or need not fork)."""
    for x in ast.walk(n):
        if isinstance(x, (ast.Call, ast.Subscript, ast.Lambda, ast.ListComp, ast.GeneratorExp, ast.IfExp,
                          ast.NamedExpr, ast.Await, ast.Yield, ast.Starred, ast.JoinedStr)):
            if isinstance(x, ast.Call) and isinstance(x.func, ast.Name) and x.func.id in ("len", "isinstance") \
                    and all(isinstance(a, (ast.Name, ast.Tuple, ast.Attribute)) for a in x.args):
                continue
            return False
        if isinstance(x, ast.BinOp) and isinstance(x.op, (ast.Div, ast.FloorDiv, ast.Mod, ast.Pow, ast.LShift,
                                                             ast.RShift, ast.BitOr, ast.BitXor)):
            return False
        if isinstance(x, ast.Attribute) and not isinstance(x.value, ast.Name):
            return False
        if isinstance(x, ast.Attribute):
            return False  # properties may run code
    return True


def _ext_slice_assign(p: Path, cur: SBytes, lo: Any, hi: Any, step: Any, src: SBytes) -> SBytes:
    if not isinstance(step, int) or step <= 0:
        raise Unsupported("extended slice assignment with non-positive step")
    if hi is not None:
        raise Unsupported("extended slice assignment with upper bound")
    start = 0 if lo is None else lo
    if not isinstance(start, int) or start < 0:
        raise Unsupported("extended slice assignment with symbolic start")
    cnt = z3.If(cur.n > start, (cur.n - start + (step - 1)) / step, 0)
    if p.branch(src.n != cnt, "extslice-size"):
        raise PyRaise(SExc(ValueError, ("attempt to assign bytes of wrong size to extended slice",)))
    return SBytes(cur.n, lambda i, cur=cur, src=src: z3.If(z3.And(i >= start, (i - start) % step == 0),
                                                           src.at((i - start) / step), cur.at(i)), cur.name + "[::k]=")
