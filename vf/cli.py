"""./check <ID> --tier quick|thorough   |   ./check --replay <file>

Decides one property: verifies every contract of the property (and, transitively, of the callee
contracts it relies on) against the real source in $VF_REPO (default /repo), runs the sampled
runtime-contract cross-check and the bounded stand-ins, replays counter-models natively, applies the
known-findings policy, writes evidence/<ID>.json.  Exit: 0 held / 1 violation / 2 undecided / 3 checker error.
"""
from __future__ import annotations

import argparse
import glob
import hashlib
import importlib
import json
import multiprocessing as mp
import os
import random
import shutil
import sys
import tempfile
import time
import traceback
from typing import Any, Optional

VERIF = os.path.dirname(os.path.dirname(os.path.abspath(__file__)))
REPO = os.environ.get("VF_REPO", "/repo")

_REG: Any = None
_CFG: dict = {}


def _load_registry() -> Any:
    from .registry import Registry

    reg = Registry()
    for f in sorted(glob.glob(os.path.join(VERIF, "contracts", "C*.py"))) + \
            sorted(glob.glob(os.path.join(VERIF, "contracts", "common_*.py"))):
        reg.load_file(f)
    return reg


def _con_of(reg: Any, target: str) -> Any:
    con = reg.contracts.get(target)
    if con is None:
        con = [c for c in reg.lemmas if c.target == target][0]
    return con


def _verify_worker(job: Any) -> dict:
    from .verify import verify_contract

    reg = _REG
    target, root = job if isinstance(job, tuple) else (job, None)
    con = _con_of(reg, target)
    try:
        r = verify_contract(reg, con, timeout_ms=_CFG["timeout_ms"], second=True, budget_s=_CFG["unit_budget_s"], root=root)
        out = r.to_json()
    except Exception as e:  # pylint: disable=broad-except
        out = {"target": target, "paths": 0, "dead_paths": 0, "obligations": [], "unsupported": [],
               "errors": [f"worker crash: {type(e).__name__}: {e}\n{traceback.format_exc(limit=5)}"],
               "inlined": [], "used_contracts": [], "assumption_ids": [], "secs": 0, "solver_secs": 0, "source": {},
               "canary_ok": None, "pre_sat": None, "notes": []}
    out["contract_sha"] = hashlib.sha256(con.source.encode()).hexdigest()
    out["root"] = root
    return out


def _prefix_worker(target: str) -> list:
    from .verify import enumerate_prefixes

    con = _con_of(_REG, target)
    try:
        return enumerate_prefixes(_REG, con, int(con.opts.get("split", 0)))
    except Exception:  # pylint: disable=broad-except
        return []


def _merge_parts(parts: list) -> dict:
    """Merge the results of one unit that was split by the alternatives of its first decision."""
    base = parts[0]
    if len(parts) == 1:
        return base
    obl: dict = {}
    order = {"unsat": 0, "unknown": 1, "sat": 2}
    for p in parts:
        for o in p["obligations"]:
            if o["name"] not in obl:
                obl[o["name"]] = dict(o)
            else:
                m = obl[o["name"]]
                m["queries"] += o["queries"]
                m["secs"] = round(m["secs"] + o["secs"], 3)
                m["backends"] = sorted(set(m["backends"]) | set(o["backends"]))
                if order[o["status"]] > order[m["status"]]:
                    m["status"], m["cex"], m["reason"] = o["status"], o["cex"], o["reason"]
    out = dict(base)
    out["obligations"] = list(obl.values())
    for k in ("paths", "dead_paths", "secs", "solver_secs"):
        out[k] = round(sum(p[k] for p in parts), 3)
    for k in ("unsupported", "errors", "notes"):
        out[k] = [x for p in parts for x in p[k]]
    for k in ("inlined", "used_contracts", "assumption_ids"):
        out[k] = sorted(set(x for p in parts for x in p[k]))
    out["canary_ok"] = True if any(p["canary_ok"] for p in parts) else (False if any(p["canary_ok"] is False for p in parts) else None)
    return out


def _sample_worker(job: tuple) -> dict:
    """Runtime-contract cross-check of one unit on generated inputs (bounded; real code, CPython)."""
    from .gen import gen_value
    from .replay import describe
    from .runtime import RuntimeContract

    target, n, seed = job
    reg = _REG
    con = reg.contracts[target]
    out = {"target": target, "cases": 0, "applicable": 0, "failures": [], "spec_errors": [], "error": None}
    try:
        rc = RuntimeContract(reg, con)
    except Exception as e:  # pylint: disable=broad-except
        out["error"] = f"{type(e).__name__}: {e}"
        return out
    rnd = random.Random(f"{seed}:{target}")
    seen_fail: set = set()
    import ast as _ast
    import resource

    try:
        resource.setrlimit(resource.RLIMIT_AS, (6 << 30, 6 << 30))
    except (ValueError, OSError):
        pass
    gen_types = dict(con.ann)
    for c in con.of("sample"):
        for kw in c.node.keywords:
            gen_types[kw.arg] = eval(compile(_ast.Expression(kw.value), "<sample>", "eval"), con.module.__dict__)  # pylint: disable=eval-used
    custom = None
    for c in con.of("sample_with"):
        custom = eval(compile(_ast.Expression(c.arg(0)), "<sample_with>", "eval"), con.module.__dict__)  # pylint: disable=eval-used
    t_end = time.time() + (30 if n <= 1000 else 300)
    for _ in range(n):
        if time.time() > t_end:
            break
        try:
            kwargs = custom(rnd) if custom is not None else {p: gen_value(reg, gen_types[p], rnd) for p in con.params}
        except Exception as e:  # pylint: disable=broad-except
            out["error"] = f"generator: {type(e).__name__}: {e}"
            return out
        desc = None
        try:
            desc = {k: describe(v) for k, v in kwargs.items()}
        except Exception:  # pylint: disable=broad-except
            pass
        try:
            rep = rc.check_call(kwargs, timeout_s=5.0)
        except Exception as e:  # pylint: disable=broad-except
            out["spec_errors"].append(f"{type(e).__name__}: {e}")
            continue
        if "MemoryError" in str(rep.get("outcome", "")) or "RecursionError" in str(rep.get("outcome", "")):
            continue  # resource exhaustion of the sandbox, not a verdict
        out["cases"] += 1
        if rep["applicable"]:
            out["applicable"] += 1
        if rep["spec_errors"] and len(out["spec_errors"]) < 5:
            out["spec_errors"].extend(rep["spec_errors"][:2])
        if rep.get("known_class") and rep["violations"]:
            out.setdefault("known_class_hits", {})
            out["known_class_hits"][rep["known_class"]] = out["known_class_hits"].get(rep["known_class"], 0) + 1
            continue
        for v in rep["violations"]:
            key = v.split(":")[0:3]
            k2 = ":".join(key)
            if k2 in seen_fail:
                continue
            seen_fail.add(k2)
            out["failures"].append({"violation": v, "inputs": desc, "outcome": rep.get("outcome")})
    return out


def _ob_key(unit: str, ob: str) -> str:
    return f"{unit}#{ob}"


def main(argv: Optional[list] = None) -> int:
    global _REG, _CFG
    ap = argparse.ArgumentParser()
    ap.add_argument("prop", nargs="?")
    ap.add_argument("--tier", default=os.environ.get("VERIF_TIER", "quick"), choices=["quick", "thorough"])
    ap.add_argument("--replay")
    ap.add_argument("--update-lock", action="store_true")
    ap.add_argument("--only", default="")
    ap.add_argument("--jobs", type=int, default=int(os.environ.get("VF_JOBS", "16")))
    ap.add_argument("--no-bounded", action="store_true")
    args = ap.parse_args(argv)
    seed = int(os.environ.get("VERIF_SEED", "0") or 0)
    os.environ["VERIF_TIER"] = args.tier  # sidecars may size their instantiation sets by tier
    cache = tempfile.mkdtemp(prefix="vfcache-", dir=os.path.join(VERIF, "out") if os.path.isdir(os.path.join(VERIF, "out")) else None)
    os.environ["SPSDK_CACHE_FOLDER"] = cache
    os.environ.setdefault("VF_TMP", cache)
    # every temporary directory a sampler or bounded module creates lives below the per-run directory and is removed with it
    os.makedirs(os.path.join(cache, "tmp"), exist_ok=True)
    os.environ["TMPDIR"] = os.path.join(cache, "tmp")
    tempfile.tempdir = None
    try:
        if args.replay:
            return _replay_file(args.replay)
        if not args.prop:
            ap.error("property id required")
        return _check(args.prop, args.tier, seed, args)
    finally:
        shutil.rmtree(cache, ignore_errors=True)


def _check(pid: str, tier: str, seed: int, args: Any) -> int:
    global _REG, _CFG
    import logging

    logging.disable(logging.CRITICAL)
    t0 = time.time()
    os.makedirs(os.path.join(VERIF, "out"), exist_ok=True)
    os.makedirs(os.path.join(VERIF, "evidence"), exist_ok=True)
    _CFG = {"timeout_ms": 10000 if tier == "quick" else 60000, "unit_budget_s": 240 if tier == "quick" else 1500}
    reg = _REG = _load_registry()
    own_files = [f for f in reg.files if os.path.basename(f).startswith(pid + "_")]
    if not own_files:
        print(f"CHECKER-ERROR property={pid} no contract files")
        return 3
    own_mods = {"contracts." + os.path.splitext(os.path.basename(f))[0] for f in own_files}
    own = [t for t, c in reg.contracts.items() if c.module.__name__ in own_mods and not c.assumed]
    own += [c.target for c in reg.lemmas if c.module.__name__ in own_mods]
    if args.only:
        own = [t for t in own if args.only in t]
    results: dict = {}
    pending = list(own)
    ctx = mp.get_context("fork")
    with ctx.Pool(min(args.jobs, 16)) as pool:
        while pending:
            batch = [t for t in dict.fromkeys(pending) if t not in results]
            pending = []
            jobs: list = []
            split_targets = [t for t in batch if int(_con_of(reg, t).opts.get("split", 0) or 0) > 0]
            for t, prefixes in zip(split_targets, pool.map(_prefix_worker, split_targets)):
                jobs.extend([(t, pf) for pf in prefixes] if prefixes else [(t, None)])
            jobs.extend((t, None) for t in batch if t not in split_targets)
            parts: dict = {}
            for out in pool.imap_unordered(_verify_worker, jobs):
                parts.setdefault(out["target"], []).append(out)
            for t, pl in parts.items():
                results[t] = _merge_parts(sorted(pl, key=lambda x: x["root"] or []))
            for out in list(results[t] for t in parts):
                for u in out["used_contracts"]:
                    c = reg.contracts.get(u)
                    if c is not None and not c.assumed and u not in results and not args.only:
                        pending.append(u)
        # sampled runtime cross-check (bounded; every unit with a contract, own and dependencies)
        n_samples = 300 if tier == "quick" else 5000
        sample_jobs = [(t, n_samples, seed) for t in results if t in reg.contracts]
        samples = {}
        if not args.no_bounded:
            for out in pool.imap_unordered(_sample_worker, sample_jobs):
                samples[out["target"]] = out
    # property-specific bounded stand-ins
    bounded: list = []
    if not args.no_bounded:
        try:
            mod = importlib.import_module(f"bounded.{pid}")
        except ModuleNotFoundError:
            mod = None
        if mod is not None:
            try:
                bounded = mod.run(tier=tier, seed=seed, reg=reg, jobs=args.jobs)
            except Exception as e:  # pylint: disable=broad-except
                bounded = [{"name": "bounded-module", "error": f"{type(e).__name__}: {e}\n{traceback.format_exc(limit=5)}",
                            "cases": 0, "failures": []}]
    return _decide(pid, tier, seed, reg, own, results, samples, bounded, t0, args)


# =================================================================================================
def _decide(pid: str, tier: str, seed: int, reg: Any, own: list, results: dict, samples: dict, bounded: list,
            t0: float, args: Any) -> int:
    from .runtime import RuntimeContract
    from .replay import rebuild

    lock_path = os.path.join(VERIF, "locks", f"{pid}.lock.json")
    lock = json.load(open(lock_path)) if os.path.exists(lock_path) else {"units": {}}
    kf_path = os.path.join(VERIF, "known_findings.json")
    kf = json.load(open(kf_path)) if os.path.exists(kf_path) else {"findings": [], "fixed": []}
    known = [k for k in kf.get("findings", []) if k.get("property") == pid]

    known_hit: list = []
    violations: list = []   # dicts: unit, obligation, inputs, detail, replay, kind
    undecided: list = []
    checker_errors: list = []
    n_obl = n_dis = 0
    by_backend: dict = {}
    solver_secs = 0.0
    samples_out = []
    funcs = []
    assumptions: set = set()
    inlined: set = set()

    for t, r in sorted(results.items()):
        solver_secs += r["solver_secs"]
        inlined |= set(r["inlined"])
        assumptions |= set(r["assumption_ids"])
        lk = lock["units"].get(t)
        src_changed = lk is not None and lk.get("sha256") != r["source"].get("sha256")
        con_changed = lk is not None and lk.get("contract_sha") != r.get("contract_sha")
        funcs.append({"unit": t, "own": t in own, "file": r["source"].get("file"), "line": r["source"].get("line"),
                      "source_sha256": r["source"].get("sha256"), "paths": r["paths"], "dead_paths": r["dead_paths"],
                      "obligations": len(r["obligations"]), "secs": r["secs"]})
        for e in r["errors"]:
            checker_errors.append(f"{t}: {e.splitlines()[0]}")
        if r["canary_ok"] is False:
            checker_errors.append(f"{t}: vacuity canary failed (assumptions inconsistent)")
        if r["paths"] == 0 and not r["errors"]:
            checker_errors.append(f"{t}: no feasible path (contradictory precondition)")
        if r["unsupported"]:   # a path that leaves the verified subset is never accepted, whatever the lock says
            for u in r["unsupported"][:3]:
                checker_errors.append(f"{t}: outside subset: {u['what']}")
        names_now = set()
        for o in r["obligations"]:
            n_obl += 1
            names_now.add(o["name"])
            for b in o["backends"]:
                by_backend[b] = by_backend.get(b, 0) + (1 if o["status"] == "unsat" else 0)
            if o["status"] == "unsat":
                n_dis += 1
                continue
            if o["name"].startswith("known:"):
                kid = o["name"].split(":")[1]
                n_obl -= 1  # obligations inside a recorded known-finding class are reported, not counted
                hit = [k for k in known if k.get("id") == kid]
                if o["status"] == "sat":
                    if hit:
                        if not any(h is hit[0] for h, _ in known_hit):
                            known_hit.append((hit[0], {"unit": t, "obligation": o["name"]}))
                    else:
                        violations.append({"unit": t, "obligation": o["name"], "cex": o["cex"], "kind": "deductive-no-input",
                                           "confirmed": None})
                continue
            if o["status"] == "unknown":
                undecided.append({"unit": t, "obligation": o["name"], "reason": o["reason"] or "unknown"})
                continue
            # sat: try to replay on the real code
            v = {"unit": t, "obligation": o["name"], "cex": o["cex"], "kind": "deductive"}
            confirmed = None
            cex = o["cex"] or {}
            if "inputs" in cex and t in reg.contracts and reg.contracts[t].opts.get("replay", True):
                try:
                    kwargs = {k: rebuild(x) for k, x in cex["inputs"].items()}
                    rc = RuntimeContract(reg, reg.contracts[t])
                    rc._from_model = True
                    rep = rc.check_call(kwargs, timeout_s=10.0)
                    v["replay_report"] = rep
                    if not rep.get("applicable", True):
                        confirmed = None
                    elif rep["violations"] and all(("noraise:AttributeError" in x or "noraise:TypeError" in x) for x in rep["violations"]) \
                            and "noraise:" not in o["name"]:
                        # the rebuilt objects are shapes (object.__new__ + the contract's fields): an AttributeError/TypeError of the native run is
                        # an artefact of the reconstruction, not a replay of this obligation
                        confirmed = None
                        v["replay_note"] = "native run raised AttributeError/TypeError on the reconstructed objects: not a replay"
                    elif rep["violations"]:
                        confirmed = True
                    elif not rep["spec_errors"]:
                        confirmed = False
                except Exception as e:  # pylint: disable=broad-except
                    v["replay_error"] = f"{type(e).__name__}: {e}"
            elif "inputs" in cex and t.startswith("lemma:"):
                try:
                    from .runtime import replay_lemma

                    lcon = next(c for c in reg.lemmas if c.target == t)
                    rep = replay_lemma(lcon, {k: rebuild(x) for k, x in cex["inputs"].items()})
                    v["replay_report"] = rep
                    if rep.get("applicable", True) and rep["violations"]:
                        confirmed = True
                except Exception as e:  # pylint: disable=broad-except
                    v["replay_error"] = f"{type(e).__name__}: {e}"
            v["confirmed"] = confirmed
            was_discharged = lk is not None and lk.get("obligations", {}).get(o["name"]) == "unsat"
            if confirmed:
                violations.append(v)
            elif confirmed is False:
                # the real code satisfies the contract on the model: spurious (imprecise callee contract / encoder)
                if was_discharged and src_changed:
                    v["kind"] = "deductive-no-input"
                    violations.append(v)
                else:
                    undecided.append({"unit": t, "obligation": o["name"], "reason": "counter-model does not replay (spurious)"})
            else:
                if was_discharged:
                    v["kind"] = "deductive-no-input"
                    violations.append(v)
                elif lk is None or o["name"] not in lk.get("obligations", {}):
                    v["kind"] = "deductive-no-input"
                    violations.append(v)
                else:
                    undecided.append({"unit": t, "obligation": o["name"], "reason": "refuted, not replayable"})
        if lk is not None and not src_changed and not con_changed:
            missing = set(lk.get("obligations", {})) - names_now
            if missing and not r["errors"]:
                checker_errors.append(f"{t}: obligations disappeared without a source change: {sorted(missing)[:3]}")
        for o in r["obligations"][:2]:
            if len(samples_out) < 12:
                samples_out.append({"unit": t, "obligation": o["name"], "status": o["status"], "queries": o["queries"],
                                    "secs": o["secs"], "backends": o["backends"]})
    if lock["units"] and not args.only:
        for t in lock["units"]:
            if t not in results:
                checker_errors.append(f"{t}: unit listed in the lock was not verified")

    # sampled runtime cross-check
    bounded_checks = []
    for t, s in sorted(samples.items()):
        bounded_checks.append({"function": t, "method": "runtime contract on generated inputs (CPython, real code)",
                               "bound": f"{s['cases']} seeded cases", "cases": s["cases"], "applicable": s["applicable"],
                               "failures": len(s["failures"]), "label": "bounded"})
        if s.get("error"):
            checker_errors.append(f"{t}: sampler: {s['error']}")
        for fl in s["failures"]:
            ob = fl["violation"].split(": ")[0]
            violations.append({"unit": t, "obligation": ob, "cex": {"inputs": fl["inputs"]}, "kind": "bounded-sample",
                               "confirmed": True, "replay_report": {"violations": [fl["violation"]], "outcome": fl["outcome"]}})
        if s["cases"] and not s["applicable"]:
            checker_errors.append(f"{t}: no generated input satisfied the precondition (cover missing)")
        if not s["cases"] and not s.get("error"):
            # vacuity guard of the cross-check itself: a sampler that evaluates nothing (e.g. every call ends in a harness exception) confirms nothing
            checker_errors.append(f"{t}: the sampled cross-check evaluated no case ({'; '.join(s.get('spec_errors', [])[:1]) or 'no detail'})")
    for b in bounded:
        bounded_checks.append({k: b.get(k) for k in ("name", "function", "method", "bound", "cases", "label", "exhaustive")}
                              | {"failures": len(b.get("failures", []))})
        if b.get("error"):
            checker_errors.append(f"bounded {b.get('name')}: {b['error'].splitlines()[0]}")
        for fl in b.get("failures", []):
            kid = fl.get("known_id")
            hit = [k for k in known if kid and k.get("id") == kid]
            if hit:
                if not any(h is hit[0] for h, _ in known_hit):
                    known_hit.append((hit[0], {"unit": b.get("function"), "obligation": fl.get("obligation")}))
                continue
            violations.append({"unit": b.get("function", b.get("name")), "obligation": fl.get("obligation", b.get("name")),
                               "cex": {"inputs": fl.get("inputs")}, "kind": "bounded", "confirmed": True,
                               "replay_report": {"violations": [fl.get("detail", "")]}, "replay_snippet": fl.get("snippet")})

    # de-duplicate violations (same unit+obligation), deductive first
    uniq: dict = {}
    for v in violations:
        k = _ob_key(v["unit"], v["obligation"])
        if k not in uniq or (uniq[k]["kind"] != "deductive" and v["kind"] == "deductive"):
            uniq[k] = v
    violations = list(uniq.values())

    # known findings
    reported = []
    for v in violations:
        hit = None
        for k in known:
            if k.get("unit") == v["unit"] and k.get("obligation") == v["obligation"]:
                hit = k
                break
        if hit is not None:
            known_hit.append((hit, v))
        else:
            reported.append(v)

    wall = time.time() - t0
    scratch = os.environ.get("VF_SCRATCH_OUT")  # mutant runs: keep committed evidence / replays untouched
    ev_dir = os.path.join(scratch, "evidence") if scratch else os.path.join(VERIF, "evidence")
    rp_dir = os.path.join(scratch, "replays", pid) if scratch else os.path.join(VERIF, "replays", pid)
    os.makedirs(ev_dir, exist_ok=True)
    os.makedirs(rp_dir, exist_ok=True)
    for hit, v in known_hit:
        print(f"KNOWN-FINDING: property={pid} {hit.get('what', v['obligation'])}")
    exit_code = 0
    for v in reported:
        h = hashlib.sha256(_ob_key(v["unit"], v["obligation"]).encode()).hexdigest()[:12]
        path = os.path.join(rp_dir, f"{h}.json")
        with open(path, "w") as fh:
            json.dump({"property": pid, "unit": v["unit"], "obligation": v["obligation"], "kind": v["kind"],
                       "inputs": (v.get("cex") or {}).get("inputs"), "decisions": (v.get("cex") or {}).get("decisions"),
                       "replay_report": v.get("replay_report"), "solver": "z3 model (see obligation)",
                       "snippet": v.get("replay_snippet"), "repo": REPO}, fh, indent=1, default=str)
        tail = " no-failing-input-found" if v["kind"] == "deductive-no-input" else ""
        print(f"VIOLATION property={pid} replay={path}{tail}")
        print(f"  obligation {v['unit']}#{v['obligation']}: {((v.get('replay_report') or {}).get('violations') or [''])[0]}")
        exit_code = 1
    if exit_code == 0 and checker_errors:
        exit_code = 3
    if exit_code == 0 and undecided:
        exit_code = 2
    for e in checker_errors[:20]:
        print(f"CHECKER-ERROR property={pid} {e}")
    for u in undecided[:20]:
        print(f"UNDECIDED property={pid} {u['unit']}#{u['obligation']}: {u['reason']}")

    trusted = sorted(assumptions | {"A-enc", "A-smt"})
    ev = {
        "property_id": pid, "tier": tier, "seed": seed, "level": "proof",
        "coverage": {
            "obligations": n_obl, "discharged": n_dis,
            "checker_cmd": f"./check {pid} --tier {tier}",
            "trusted_base": trusted,
            "samples": samples_out,
            "functions_under_contract": funcs,
            "by_backend": by_backend,
            "solver_time_s": round(solver_secs, 2),
            "inlined_or_native": sorted(inlined),
            "assumed_contracts": sorted(t for t, c in reg.contracts.items() if c.assumed and ("assumed:" + t) in assumptions),
            "bounded_checks": bounded_checks,
            "undecided": undecided, "checker_errors": checker_errors,
            "known_findings_reproduced": [h.get("what") for h, _ in known_hit],
            "violations_reported": [_ob_key(v["unit"], v["obligation"]) for v in reported],
            "evaluations": sum(b.get("cases") or 0 for b in bounded_checks) + n_obl,
            "distinct_nontrivial": n_obl,
            "rule": "one obligation per contract clause x path family; bounded cases counted separately in bounded_checks",
        },
        "assumptions": _assumption_text(trusted, reg, assumptions),
        "wall_s": round(wall, 2),
        "violations": len(reported),
    }
    with open(os.path.join(ev_dir, f"{pid}.json"), "w") as fh:
        json.dump(ev, fh, indent=1, default=str)
    with open(os.path.join(VERIF, "out", f"{pid}.units.json"), "w") as fh:
        json.dump(results, fh, indent=1, default=str)
    if args.update_lock and checker_errors:
        print(f"{pid}: lock NOT updated: the run has checker errors (a degraded state is never recorded as the reference)")
    elif args.update_lock:
        os.makedirs(os.path.join(VERIF, "locks"), exist_ok=True)
        newlock = {"units": {}}
        if args.only and os.path.exists(lock_path):  # a filtered run only refreshes the units it ran
            with open(lock_path) as fh:
                newlock = json.load(fh)
        for t, r in sorted(results.items()):
            newlock["units"][t] = {"sha256": r["source"].get("sha256"), "contract_sha": r.get("contract_sha"),
                                   "unsupported": len(r["unsupported"]),
                                   "obligations": {o["name"]: o["status"] for o in r["obligations"]}}
        with open(lock_path, "w") as fh:
            json.dump(newlock, fh, indent=1, sort_keys=True)
    print(f"{pid} [{tier}] units={len(results)} obligations={n_obl} discharged={n_dis} undecided={len(undecided)} "
          f"violations={len(reported)} known={len(known_hit)} checker_errors={len(checker_errors)} wall={wall:.1f}s exit={exit_code}")
    return exit_code


_ASSUMPTION_TEXT = {
    "A-enc": "vf's encoding of the Python subset (DESIGN 2.2) is faithful to CPython 3.12; mitigated by the sampled runtime cross-check",
    "A-smt": "z3 / cvc5 answer unsat only for unsatisfiable formulas",
    "A-float": "true division / ceil on ints below 2^53 behaves as exact rational arithmetic",
    "A-pow2": "pow2(n) = 2**n is used through instance axioms (positivity, monotonicity, doubling, values at 8/16/32/64)",
    "A-byteat": "byte_at(v, j) denotes digit j of v in base 256 (to_bytes with a symbolic length)",
}


def _assumption_text(trusted: list, reg: Any, ids: set) -> list:
    out = []
    for a in trusted:
        if a in _ASSUMPTION_TEXT:
            out.append(f"{a}: {_ASSUMPTION_TEXT[a]}")
        elif a.startswith("uf:"):
            out.append(f"{a}: dependency used as an uninterpreted function (functional congruence only)")
        elif a.startswith("assumed:"):
            c = reg.contracts.get(a[len('assumed:'):])
            out.append(f"{a}: assumed contract ({c.reason if c else ''})")
        else:
            out.append(a)
    return out


def _replay_file(path: str) -> int:
    from .replay import rebuild
    from .runtime import RuntimeContract

    d = json.load(open(path))
    reg = _load_registry()
    con = reg.contracts.get(d["unit"])
    if con is None or d.get("inputs") is None:
        print(json.dumps(d, indent=1)[:4000])
        print("not natively replayable (no inputs); the obligation and solver verdict are in the file")
        return 0
    kwargs = {k: rebuild(x) for k, x in d["inputs"].items()}
    rc = RuntimeContract(reg, con)
    rc._from_model = d.get("kind", "").startswith("deductive")
    rep = rc.check_call(kwargs, timeout_s=10.0)
    print(json.dumps(rep, indent=1, default=str))
    return 1 if rep["violations"] else 0


if __name__ == "__main__":
    try:
        rc = main()
    except SystemExit:
        raise
    except BaseException as e:  # a crash of the checker is never a verdict (exit 1 is reserved for violations)
        traceback.print_exc()
        print(f"CHECKER-ERROR checker crashed: {type(e).__name__}: {e}")
        rc = 3
    sys.exit(rc)
