"""Per-path context: path condition, decisions (replay forking), obligations, fresh atoms."""
from __future__ import annotations

import time
from typing import Any, Optional

import z3

from .sym import (
    DeadPath,
    SBool,
    SBytes,
    SInt,
    SStr,
    StrSort,
    Unsupported,
    str_const,
)

FEAS_TIMEOUT_MS = 3000
ENTAIL_TIMEOUT_MS = 2000


class Obligation:
    def __init__(self, name: str, pc: list, goal: Any, note: str = "", replayable: bool = True):
        self.name = name
        self.pc = pc
        self.goal = goal
        self.note = note
        self.replayable = replayable


class TraceMisaligned(Exception):
    """A replayed path met a different decision than the one recorded (engine error, never a verdict)."""


class StopAtDepth(Exception):
    """Prefix enumeration: the path reached the requested number of decisions."""


class Path:
    """One execution path.  Forking is by re-execution: `trace` holds the decisions to follow."""

    def __init__(self, trace: list, worklist: list, unit: str = ""):
        self.trace = list(trace)
        self.pos = 0
        self.worklist = worklist
        self.unit = unit
        self.pc: list = []
        self.solver = z3.SolverFor("AUFLIA") if False else z3.Solver()
        self.solver.set("timeout", FEAS_TIMEOUT_MS)
        try:
            # feasibility / entailment only need refutations: E-matching suffices; model-based instantiation is what makes
            # satisfiable queries with quantified axioms slow ("unknown" is treated as feasible / not entailed)
            self.solver.set("smt.mbqi", False)
            self.solver.set("smt.arith.solver", 2)
        except z3.Z3Exception:
            pass
        self.obls: list[Obligation] = []
        self.nfresh = 0
        self.atoms: dict = {}  # name -> ("int"|"bool"|"bytes"|"str", term/func, extra)
        self.uf_apps: dict = {}  # fname -> list of (args, result)
        self.ghost: dict = {}
        self.strs: dict = {}
        self.solver_calls = 0
        self.solver_time = 0.0
        self.notes: list = []
        self.no_branch = 0  # >0: branching is forbidden (inside quantifier bodies)
        self.inline_depth = 0
        self.assumption_ids: set = set()
        self.decision_labels: list = []
        self.stop_depth: Optional[int] = None
        self._entailed: set = set()

    # ---- fresh atoms -------------------------------------------------------------------------
    def _name(self, hint: str) -> str:
        self.nfresh += 1
        return f"{hint}!{self.nfresh}"

    def fresh_int(self, hint: str = "i", lo: Optional[int] = None, hi: Optional[int] = None) -> SInt:
        nm = self._name(hint)
        t = z3.Int(nm)
        self.atoms[nm] = ("int", t)
        if lo is not None:
            self.assume(t >= lo)
        if hi is not None:
            self.assume(t <= hi)
        return SInt(t)

    def fresh_bool(self, hint: str = "b") -> SBool:
        nm = self._name(hint)
        t = z3.Bool(nm)
        self.atoms[nm] = ("bool", t)
        return SBool(t)

    def fresh_bytes(self, hint: str = "bs", n: Any = None) -> SBytes:
        nm = self._name(hint)
        f = z3.Function(nm, z3.IntSort(), z3.IntSort())
        if n is None:
            nt = z3.Int(nm + ".len")
            self.assume(nt >= 0)
        else:
            nt = n if z3.is_expr(n) else z3.IntVal(n)
        k = z3.Int("k!ax")
        self.assume(z3.ForAll([k], z3.And(f(k) >= 0, f(k) <= 255), patterns=[f(k)]))
        self.atoms[nm] = ("bytes", f, nt)
        return SBytes(nt, lambda i, f=f: f(i if z3.is_expr(i) else z3.IntVal(i)), nm)

    def fresh_str(self, hint: str = "s") -> SStr:
        nm = self._name(hint)
        t = z3.Const(nm, StrSort)
        self.atoms[nm] = ("str", t)
        return SStr(t, nm)

    def strc(self, s: str) -> Any:
        """Term for a concrete string; distinctness from the other constants in use is assumed."""
        if s not in self.strs:
            c = str_const(s)
            for o in self.strs.values():
                self.assume(c != o)
            self.strs[s] = c
        return self.strs[s]

    # ---- solver ------------------------------------------------------------------------------
    def assume(self, t: Any) -> None:
        if isinstance(t, bool):
            if not t:
                raise DeadPath()
            return
        self.pc.append(t)
        self.solver.add(t)

    def _check(self, *extra: Any, timeout: int = FEAS_TIMEOUT_MS, want: Any = None) -> Any:
        """Satisfiability of pc (+extra) in a forked child with a hard time limit.
        With want=<term> returns (status, int value of the term in the model or None)."""
        from .hard import run_hard

        t0 = time.time()

        def job() -> Any:
            self.solver.set("timeout", timeout)
            for e in extra:
                self.solver.add(e)
            r = self.solver.check()
            val = None
            if want is not None and r == z3.sat:
                try:
                    val = self.solver.model().eval(want, model_completion=True).as_long()
                except Exception:  # pylint: disable=broad-except
                    val = None
            return (str(r), val)

        st, out = run_hard(job, timeout / 1000.0 + 2.0)
        self.solver_calls += 1
        self.solver_time += time.time() - t0
        if st != "ok":
            res, val = "unknown", None
        else:
            res, val = out
        r = {"sat": z3.sat, "unsat": z3.unsat}.get(res, z3.unknown)
        if want is not None:
            return r, val
        return r

    def fixed_value(self, t: Any) -> Optional[int]:
        """The integer value of t if the path condition determines it uniquely."""
        s = z3.simplify(t)
        if z3.is_int_value(s):
            return s.as_long()
        r, v = self._check(want=t)
        if r != z3.sat or v is None:
            return None
        return v if self.entails(t == v) else None

    def feasible(self, t: Any = None) -> bool:
        """False only if pc (and t) is provably unsatisfiable."""
        r = self._check(*([t] if t is not None else []))
        return r != z3.unsat

    def entails(self, t: Any) -> bool:
        """True only if pc => t is proved.  Positive answers are cached (the path condition only grows)."""
        if isinstance(t, bool):
            return t
        s = z3.simplify(t)
        if z3.is_true(s):
            return True
        if z3.is_false(s):
            return False
        key = s.sexpr()
        if key in self._entailed:
            return True
        r = self._check(z3.Not(t), timeout=ENTAIL_TIMEOUT_MS) == z3.unsat
        if r:
            self._entailed.add(key)
        return r

    def _tag(self, label: str, cond: Any = None) -> str:
        if cond is None:
            return label
        import hashlib

        return label + "~" + hashlib.md5(cond.sexpr().encode()).hexdigest()[:6]

    def _follow(self, tag: str, n: int) -> int:
        """Replay: take the recorded decision; the tag guards against a misaligned trace (never silently unsound)."""
        ent = self.trace[self.pos]
        d, t = (ent[0], ent[1]) if isinstance(ent, (list, tuple)) else (ent, None)
        if t is not None and t != tag:
            raise TraceMisaligned(f"decision {self.pos}: recorded {t!r}, now {tag!r}")
        if d >= n:
            raise DeadPath()
        return d

    def branch(self, cond: Any, label: str = "") -> bool:
        """Decide a symbolic condition; forks by scheduling the alternative for a later run."""
        if isinstance(cond, bool):
            return cond
        s = z3.simplify(cond)
        if z3.is_true(s):
            return True
        if z3.is_false(s):
            return False
        if self.no_branch:
            raise Unsupported("branch on a quantified/bound value")
        tag = self._tag(label, cond)
        if self.pos < len(self.trace):
            d = self._follow(tag, 2)
        else:
            key = s.sexpr()
            nkey = z3.simplify(z3.Not(s)).sexpr()
            if key in self._entailed:
                ft, ff = True, False
            elif nkey in self._entailed:
                ft, ff = False, True
            else:
                ft = self.feasible(cond)
                ff = self.feasible(z3.Not(cond)) if ft else True
            if ft and ff:
                d = 1
                self.worklist.append(self.trace[: self.pos] + [(0, tag)])
            elif ft:
                d = 1
                self._entailed.add(key)
            elif ff:
                d = 0
                self._entailed.add(nkey)
            else:
                raise DeadPath()
            self.trace.append((d, tag))
            if self.stop_depth is not None and len(self.trace) >= self.stop_depth:
                raise StopAtDepth()
        self.pos += 1
        self.decision_labels.append((label, d))
        self.assume(cond if d else z3.Not(cond))
        return bool(d)

    def choose(self, n: int, label: str = "") -> int:
        """Unconditional n-way fork (e.g. Optional/Union parameter kinds, loop entry/exit)."""
        if n == 1:
            return 0
        if self.no_branch:
            raise Unsupported("choice inside a quantified body")
        tag = self._tag(f"{label}/{n}")
        if self.pos < len(self.trace):
            d = self._follow(tag, n)
        else:
            d = 0
            for alt in range(n - 1, 0, -1):
                self.worklist.append(self.trace[: self.pos] + [(alt, tag)])
            self.trace.append((d, tag))
            if self.stop_depth is not None and len(self.trace) >= self.stop_depth:
                raise StopAtDepth()
        self.pos += 1
        self.decision_labels.append((label, d))
        return d

    # ---- obligations -------------------------------------------------------------------------
    def oblige(self, name: str, goal: Any, note: str = "", replayable: bool = True) -> None:
        if isinstance(goal, bool):
            goal = z3.BoolVal(goal)
        self.obls.append(Obligation(name, list(self.pc), goal, note, replayable))
