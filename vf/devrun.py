import sys, json, glob, os
from vf.registry import Registry
from vf.verify import verify_contract
reg = Registry()
for f in sorted(glob.glob(os.path.join(os.path.dirname(__file__), "..", "contracts", "C*.py"))):
    reg.load_file(f)
import logging; logging.disable(logging.CRITICAL)
only = sys.argv[2:] 
for t, con in list(reg.contracts.items()) + [(c.target, c) for c in reg.lemmas]:
    if con.assumed: continue
    if not con.module.__name__.startswith("contracts." + sys.argv[1]): continue
    if only and not any(o in t for o in only): continue
    r = verify_contract(reg, con)
    print(f"== {t}: paths={r.paths} dead={r.dead_paths} secs={r.secs:.2f} canary={r.canary_ok}")
    for o in r.obligations.values():
        print(f"   {o.status:8s} {o.name}  q={o.queries} {o.secs:.2f}s {o.cex if o.status=='sat' else ''} {o.reason}")
    seen=set()
    for u in r.unsupported:
        if u["what"] in seen: continue
        seen.add(u["what"]); print("   UNSUPPORTED", u["what"], u["decisions"][-4:])
    for e in r.errors[:3]: print("   ERROR", e[:600])
    if r.inlined: print("   inlined:", sorted(r.inlined))
