"""Hard-timeout execution of solver calls: the call runs in a forked child that is killed on overrun."""
from __future__ import annotations

import os
import pickle
import select
import signal
import time
from typing import Any, Callable


def run_hard(fn: Callable[[], Any], timeout_s: float) -> tuple:
    """Run fn() in a forked child.  Returns ("ok", value) | ("timeout", None) | ("error", text)."""
    r, w = os.pipe()
    pid = os.fork()
    if pid == 0:
        os.close(r)
        try:
            try:
                out = ("ok", fn())
            except BaseException as e:  # pylint: disable=broad-except
                out = ("error", f"{type(e).__name__}: {e}")
            data = pickle.dumps(out)
            with os.fdopen(w, "wb") as fh:
                fh.write(data)
        finally:
            os._exit(0)
    os.close(w)
    chunks = []
    deadline = time.time() + timeout_s
    status = "ok"
    try:
        while True:
            left = deadline - time.time()
            if left <= 0:
                status = "timeout"
                break
            rl, _, _ = select.select([r], [], [], left)
            if not rl:
                status = "timeout"
                break
            b = os.read(r, 1 << 16)
            if not b:
                break
            chunks.append(b)
    finally:
        os.close(r)
        if status == "timeout":
            try:
                os.kill(pid, signal.SIGKILL)
            except OSError:
                pass
        try:
            os.waitpid(pid, 0)
        except OSError:
            pass
    if status == "timeout":
        return ("timeout", None)
    try:
        return pickle.loads(b"".join(chunks))
    except Exception as e:  # pylint: disable=broad-except
        return ("error", f"no result from solver child: {e}")
