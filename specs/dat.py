"""Spec-level abstract debug credential, challenge and signer (known through the bytes / values they expose)."""
from vf.api import uninterpreted


class AbsDC:
    def __init__(self, data, uuid):
        self._bytes = data
        self.uuid = uuid

    def export(self):
        return self._bytes


class AbsDAC:
    def __init__(self, uuid, challenge):
        self.uuid = uuid
        self.challenge = challenge


@uninterpreted(result=bytes, length=lambda data: 64)
def SIGN_DCK(data):
    """Signature by the debug credential key (external signature provider)."""
    import hashlib
    return hashlib.sha512(bytes(data)).digest()


class AbsSigner:
    def sign(self, data):
        return SIGN_DCK(data)


class AbsRotMeta:
    """Spec-level abstract RoT meta block: the bytes it exports."""

    def __init__(self, data):
        self._bytes = data

    def export(self):
        return self._bytes

    def __len__(self):
        return len(self._bytes)


class AbsVersion:
    def __init__(self, major, minor):
        self.major, self.minor = major, minor
