"""Spec-level abstract bootable-image segment: offset rule + length only."""


from spsdk.image.bootable_image.segments import Segment


class AbsSeg(Segment):
    NAME = "seg"

    def __eq__(self, other):
        return self is other

    __hash__ = object.__hash__

    def __str__(self):
        return "AbsSeg"

    def __repr__(self):
        return "AbsSeg"

    def export(self):
        return bytes(self._len)

    @classmethod
    def parse(cls, data):
        raise NotImplementedError

    def __init__(self, full_image_offset, alignment, length, excluded=False):
        self.full_image_offset = full_image_offset
        self.OFFSET_ALIGNMENT = alignment
        self._len = length
        self.excluded = excluded

    def __len__(self):
        return self._len
