"""Spec-level cryptographic primitives: uninterpreted in VCs (A-crypto-fun), executable at run time by calling
`cryptography` / `hashlib` / `crcmod` *directly* (never through SPSDK).  Length laws are part of the symbol."""
from __future__ import annotations

import hashlib
import hmac as _hmac

from vf.api import uninterpreted


def _L(x):  # length view arithmetic helper (identity: the engine passes Int terms for byte arguments)
    return x


# ---- block ciphers -----------------------------------------------------------------------------
@uninterpreted(result=bytes, length=lambda key, data: data)
def AES_ECB_E(key, data):
    from cryptography.hazmat.primitives.ciphers import Cipher, algorithms, modes
    e = Cipher(algorithms.AES(bytes(key)), modes.ECB()).encryptor()
    return e.update(bytes(data)) + e.finalize()


@uninterpreted(result=bytes, length=lambda key, data: data, inverse_of=("AES_ECB_E", (0,), 1))
def AES_ECB_D(key, data):
    from cryptography.hazmat.primitives.ciphers import Cipher, algorithms, modes
    e = Cipher(algorithms.AES(bytes(key)), modes.ECB()).decryptor()
    return e.update(bytes(data)) + e.finalize()


@uninterpreted(result=bytes, length=lambda key, iv, data: data)
def AES_CBC_E(key, iv, data):
    from cryptography.hazmat.primitives.ciphers import Cipher, algorithms, modes
    e = Cipher(algorithms.AES(bytes(key)), modes.CBC(bytes(iv))).encryptor()
    return e.update(bytes(data)) + e.finalize()


@uninterpreted(result=bytes, length=lambda key, iv, data: data, inverse_of=("AES_CBC_E", (0, 1), 2))
def AES_CBC_D(key, iv, data):
    from cryptography.hazmat.primitives.ciphers import Cipher, algorithms, modes
    e = Cipher(algorithms.AES(bytes(key)), modes.CBC(bytes(iv))).decryptor()
    return e.update(bytes(data)) + e.finalize()


@uninterpreted(result=bytes, length=lambda key, iv, data: data)
def SM4_CBC_E(key, iv, data):
    from cryptography.hazmat.primitives.ciphers import Cipher, algorithms, modes
    e = Cipher(algorithms.SM4(bytes(key)), modes.CBC(bytes(iv))).encryptor()
    return e.update(bytes(data)) + e.finalize()


@uninterpreted(result=bytes, length=lambda key, iv, data: data, inverse_of=("SM4_CBC_E", (0, 1), 2))
def SM4_CBC_D(key, iv, data):
    from cryptography.hazmat.primitives.ciphers import Cipher, algorithms, modes
    e = Cipher(algorithms.SM4(bytes(key)), modes.CBC(bytes(iv))).decryptor()
    return e.update(bytes(data)) + e.finalize()


@uninterpreted(result=bytes, length=lambda key, nonce, data: data, inverse_of=("AES_CTR", (0, 1), 2), blockwise=(16, 1, 2))
def AES_CTR(key, nonce, data):
    """CTR keystream application (encryption == decryption, hence self-inverse)."""
    from cryptography.hazmat.primitives.ciphers import Cipher, algorithms, modes
    e = Cipher(algorithms.AES(bytes(key)), modes.CTR(bytes(nonce))).encryptor()
    return e.update(bytes(data)) + e.finalize()


@uninterpreted(result=bytes, length=lambda key, tweak, data: data)
def AES_XTS_E(key, tweak, data):
    from cryptography.hazmat.primitives.ciphers import Cipher, algorithms, modes
    e = Cipher(algorithms.AES(bytes(key)), modes.XTS(bytes(tweak))).encryptor()
    return e.update(bytes(data)) + e.finalize()


@uninterpreted(result=bytes, length=lambda key, tweak, data: data, inverse_of=("AES_XTS_E", (0, 1), 2))
def AES_XTS_D(key, tweak, data):
    from cryptography.hazmat.primitives.ciphers import Cipher, algorithms, modes
    e = Cipher(algorithms.AES(bytes(key)), modes.XTS(bytes(tweak))).decryptor()
    return e.update(bytes(data)) + e.finalize()


@uninterpreted(result=bytes, length=lambda key, tag_len, nonce, data, aad: data + tag_len)
def AES_CCM_E(key, tag_len, nonce, data, aad):
    from cryptography.hazmat.primitives.ciphers import aead
    return aead.AESCCM(bytes(key), tag_length=tag_len).encrypt(bytes(nonce), bytes(data), bytes(aad))


@uninterpreted(result=bytes, length=lambda key, tag_len, nonce, data, aad: data - tag_len,
               inverse_of=("AES_CCM_E", (0, 1, 2, 4), 3))
def AES_CCM_D(key, tag_len, nonce, data, aad):
    from cryptography.hazmat.primitives.ciphers import aead
    return aead.AESCCM(bytes(key), tag_length=tag_len).decrypt(bytes(nonce), bytes(data), bytes(aad))


@uninterpreted(result=bytes, length=lambda kek, key: key + 8)
def AES_KEY_WRAP(kek, key):
    from cryptography.hazmat.primitives import keywrap
    return keywrap.aes_key_wrap(bytes(kek), bytes(key))


@uninterpreted(result=bytes, length=lambda kek, wrapped: wrapped - 8, inverse_of=("AES_KEY_WRAP", (0,), 1))
def AES_KEY_UNWRAP(kek, wrapped):
    from cryptography.hazmat.primitives import keywrap
    return keywrap.aes_key_unwrap(bytes(kek), bytes(wrapped))


# ---- hashes / MACs / KDF ---------------------------------------------------------------------------
HASH_LEN = {"sha1": 20, "sha256": 32, "sha384": 48, "sha512": 64, "md5": 16, "sm3": 32}


@uninterpreted(result=bytes, length=lambda alg, data: HASH_LEN[alg])
def HASH(alg, data):
    return hashlib.new(alg, bytes(data)).digest()


@uninterpreted(result=bytes, length=lambda alg, key, data: HASH_LEN[alg])
def HMAC(alg, key, data):
    return _hmac.new(bytes(key), bytes(data), alg).digest()


@uninterpreted(result=bytes, length=lambda key, data: 16)
def CMAC(key, data):
    from cryptography.hazmat.primitives import cmac
    from cryptography.hazmat.primitives.ciphers import algorithms
    c = cmac.CMAC(algorithms.AES(bytes(key)))
    c.update(bytes(data))
    return c.finalize()


@uninterpreted(result=bytes, length=lambda salt, ikm, info, length: length)
def HKDF_SHA256(salt, ikm, info, length):
    from cryptography.hazmat.primitives.hashes import SHA256
    from cryptography.hazmat.primitives.kdf import hkdf
    return hkdf.HKDF(algorithm=SHA256(), length=length, salt=bytes(salt), info=bytes(info)).derive(bytes(ikm))


def crc_bitwise(poly: int, init: int, rev: bool, xor_out: int, data: bytes) -> int:
    """Bit-serial reference CRC in crcmod's parameter convention (poly includes the top bit)."""
    width = poly.bit_length() - 1
    mask = (1 << width) - 1
    p = poly & mask
    crc = init ^ xor_out
    if rev:
        # reflected algorithm
        rp = int(format(p, f"0{width}b")[::-1], 2)
        for b in data:
            crc ^= b
            for _ in range(8):
                crc = (crc >> 1) ^ rp if crc & 1 else crc >> 1
    else:
        for b in data:
            crc ^= b << (width - 8)
            for _ in range(8):
                crc = ((crc << 1) ^ p) & mask if crc & (1 << (width - 1)) else (crc << 1) & mask
    return crc ^ xor_out


from vf.api import Range  # noqa: E402


@uninterpreted(result=Range(0, (1 << 32) - 1), upper=lambda poly, init, rev, xor_out, data: (1 << (poly.bit_length() - 1)) - 1)
def CRC(poly, init, rev, xor_out, data):
    return crc_bitwise(poly, init, rev, xor_out, bytes(data))
