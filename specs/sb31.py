"""Spec-level abstract SB3.1 command: known only through the bytes it exports."""


class AbsCmd:
    def __init__(self, data):
        self._bytes = data

    def export(self):
        return self._bytes
