"""Spec-level abstract part of an AHAB signature block (SRK assets, signature, certificate, blob): known only through its length."""


class AbsPart:
    def __init__(self, n):
        self._g_len = n

    def __len__(self):
        return self._g_len

    def update_fields(self):
        return None
