"""Run-time stand-in for the ghost device: replays scripted bytes, records what is written."""
from spsdk.exceptions import SPSDKConnectionError


class FakeDevice:
    def __init__(self, rx: bytes):
        self.rx = bytes(rx)
        self.pos = 0
        self.tx = b""
        self.timeout = 5000
        self.is_opened = True

    def read(self, length, timeout=None):
        if self.pos + length > len(self.rx):
            raise SPSDKConnectionError("no more data")
        out = self.rx[self.pos: self.pos + length]
        self.pos += length
        return out

    def write(self, data, timeout=None):
        self.tx += bytes(data)
