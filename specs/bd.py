"""Spec-level stand-in for sly's YaccProduction: named symbols; positional access goes through _order."""


class Tok:
    def __init__(self, order, **named):
        self._order = tuple(order)
        for k, v in named.items():
            setattr(self, k, v)
        self.lineno = -1
        self.index = 0

    def __getitem__(self, i):
        return getattr(self, self._order[i])
