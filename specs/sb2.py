"""Spec-level abstract SB2 command: known only through the bytes it exports (always a multiple of 16) and their count."""


class AbsSb2Cmd:
    def __init__(self, data):
        self._bytes = data

    def export(self):
        return self._bytes

    @property
    def raw_size(self):
        return len(self._bytes)
