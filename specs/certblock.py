"""Spec-level abstract signature providers for certificate block v2.1 (the root key that signs the ISK certificate): known only through
`signature_length` and an uninterpreted signing function per curve (external: the signature provider plug-ins and ECDSA itself)."""
from vf.api import uninterpreted


@uninterpreted(result=bytes, length=lambda data: 64)
def SIGN_ROOT256(data):
    """ECDSA P-256 signature by the selected root key (raw r||s, 64 bytes)."""
    import hashlib
    return hashlib.sha512(b"root256" + bytes(data)).digest()


@uninterpreted(result=bytes, length=lambda data: 96)
def SIGN_ROOT384(data):
    """ECDSA P-384 signature by the selected root key (raw r||s, 96 bytes)."""
    import hashlib
    return hashlib.sha512(b"root384" + bytes(data)).digest() + hashlib.sha256(bytes(data)).digest()


class AbsRootSigner256:
    signature_length = 64

    def get_signature(self, data):
        return SIGN_ROOT256(data)


class AbsRootSigner384:
    signature_length = 96

    def get_signature(self, data):
        return SIGN_ROOT384(data)


class AbsCert:
    """Spec-level abstract X.509 certificate: the DER bytes it exports, its CA flag and the hash of its public key (external: cryptography)."""

    def __init__(self, data, ca, pkh):
        self._bytes = data
        self.ca = ca
        self._pkh = pkh

    def export(self):
        return self._bytes

    @property
    def raw_size(self):
        return len(self._bytes)

    def public_key_hash(self):
        return self._pkh
